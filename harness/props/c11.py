"""C11 — RREL reference resolution follows the documented expression semantics.

Modes "find" / "grammar" / "reg": one query.  Mode "multi" (see `gen_multi_case`): sessions —
one provider object answering many references (different match rules / name delimiters, target
classes, models loaded one after the other with the same meta-model).

Implementation side: `textx.scoping.rrel.find` on a loaded model (mode "find"),
a complete model load with the RREL expression written in the grammar (mode
"grammar") or registered as scope provider string (mode "reg"), on generated
object graphs: a containment tree of named / unnamed objects of three classes
with two list attributes, one single-valued attribute and single / list
reference attributes that point anywhere (cycles included).  The expression is
rendered to text, parsed by the real RREL parser, and the *parsed tree* (node
identities included) is what the Lean model (`Rrel.find`, Drivers/Rrel.lean)
is run on.  The direct oracle decides the property from its statement: it
computes the set of objects reachable by one expansion of the expression
(declaratively: relational composition, union, reflexive-transitive closure —
no visited set, no search order) and checks the clauses of the statement.

A second generator (`gen_proxy_case`) covers the '+p:' clause systematically:
what follows the last name step (nothing / steps that are not name steps) and
where the target then lies relative to the named objects traversed.
"""
import json
import os

from harness.core import Check, use_repo

# --------------------------------------------------------------------------
# the language of the generated models
# --------------------------------------------------------------------------
BODY = ("('a' '[' a*=Item ']')? ('b' '[' b*=Item ']')? ('s' s=Item)? "
        "('r' r=[Item:INT])? ('rs' rs+=[Item:INT])? refs*=Ref")

GRAMMAR = """
Model: BODY;
Item: A | B | C;
Named: A | B;
A: 'A' name=ID '{' BODY '}';
B: 'B' name=ID '{' BODY '}';
C: 'C' '{' BODY '}';
Ref: 'ref' ref=[CLS:FQN|RREL];
FQN[split='SPLIT']: (ID | 'SPLIT')+;
"""

NAV_ATTRS = ["a", "b", "s", "r", "rs"]
TYPES = ["A", "B", "C", "Item", "Named", "Model", "Ref"]
NAMES = ["x", "y", "z"]
SPLITS = [".", "/", "::"]
CONF = {"A": {"A", "Item", "Named"}, "B": {"B", "Item", "Named"}, "C": {"C", "Item"},
        "Model": {"Model"}, "Ref": {"Ref"}}


def grammar_text(cls, rrel, split):
    g = GRAMMAR.replace("BODY", BODY).replace("CLS", cls).replace("SPLIT", split)
    return g.replace("|RREL]", ("|" + rrel + "]") if rrel else "]")


# --------------------------------------------------------------------------
# heaps.  node = {"cls", "name"?, "a":[..], "b":[..], "s":node|None, "r":idx|None,
# "rs":[idx..], "refs":[{"cls":"Ref","text":..}]}; objects are numbered in
# pre-order over a, b, s, refs (the root is 0).
# --------------------------------------------------------------------------
def heap_list(tree):
    """[(node, parent index)] in pre-order."""
    out = []

    def go(n, parent):
        i = len(out)
        out.append((n, parent))
        for c in n.get("a") or []:
            go(c, i)
        for c in n.get("b") or []:
            go(c, i)
        if n.get("s") is not None:
            go(n["s"], i)
        for c in n.get("refs") or []:
            go(c, i)

    go(tree, None)
    return out


def render_body(n, ind):
    pad = "  " * ind
    out = []
    if n.get("a"):
        out.append(pad + "a [\n" + "".join(render_item(c, ind + 1) for c in n["a"]) + pad + "]\n")
    if n.get("b"):
        out.append(pad + "b [\n" + "".join(render_item(c, ind + 1) for c in n["b"]) + pad + "]\n")
    if n.get("s") is not None:
        out.append(pad + "s\n" + render_item(n["s"], ind + 1))
    if n.get("r") is not None:
        out.append(pad + f"r {n['r']}\n")
    if n.get("rs"):
        out.append(pad + "rs " + " ".join(str(t) for t in n["rs"]) + "\n")
    for r in n.get("refs") or []:
        if "texts" in r:  # mode "multi": keyword of the kind / alternative, names, terminator
            out.append(pad + ref_keyword(r) + " " + ", ".join(r["texts"]) + " ;\n")
        else:
            out.append(pad + "ref " + r["text"] + "\n")
    return "".join(out)


def ref_keyword(r):
    return ("ref" if r.get("alt", 0) == 0 else "alt") + str(r["kind"])


def render_item(n, ind):
    pad = "  " * ind
    head = pad + n["cls"] + ((" " + n["name"]) if n["cls"] != "C" else "")
    return head + " {\n" + render_body(n, ind + 1) + pad + "}\n"


# --------------------------------------------------------------------------
# expressions (generated AST -> text)
#  seq  = [path..]     path = {"lead": None | "^" | n (dots), "elems": [elem..]}
#  elem = {"k":"nav","name","mode":"c"|"t"|"f","fixed"?} | {"k":"parent","type"}
#       | {"k":"br","seq":seq} | {"k":"star","e":elem}
# --------------------------------------------------------------------------
def render_elem(e):
    k = e["k"]
    if k == "nav":
        if e["mode"] == "c":
            return e["name"]
        if e["mode"] == "t":
            return "~" + e["name"]
        return "'" + e["fixed"] + "'~" + e["name"]
    if k == "parent":
        return "parent(" + e["type"] + ")"
    if k == "br":
        return "(" + render_seq(e["seq"]) + ")"
    if k == "star":
        return render_elem(e["e"]) + "*"
    raise ValueError(k)


def render_path(p):
    lead = p.get("lead")
    s = "" if lead is None else ("^" if lead == "^" else "." * lead)
    return s + ".".join(render_elem(e) for e in p["elems"])


def render_seq(seq):
    return ",".join(render_path(p) for p in seq)


def render_expr(x):
    return ("+" + x["flags"] + ":" if x.get("flags") else "") + render_seq(x["seq"])


# --------------------------------------------------------------------------
# the documented semantics, declaratively (the direct oracle's yardstick)
# A state is (object index, number of name parts still to consume, number of
# entries of a given path already accounted for).  `Spec.seq(seq, first, S)` is the
# set of states reachable from the set S by one expansion of `seq`.
# --------------------------------------------------------------------------
class Spec:
    def __init__(self, tree, names, path=None, extra=(), m=False, track=None):
        """`extra`: further model trees (builtin models), numbered after `tree`;
        `m`: the expression has the '+m:' flag (they are searched from a model root);
        `track`: a number — the third state component is the tuple of named objects
        traversed so far (expansions with more than `track` of them are dropped; used by
        the generator to choose reference names by the shape of the resulting '+p:' path)"""
        self.objs = []
        self.off = []  # per object: number of the root of its tree
        self.extra_roots = []
        for k, t in enumerate([tree] + list(extra or ())):
            base = len(self.objs)
            if k > 0:
                self.extra_roots.append(base)
            for n, par in heap_list(t):
                self.objs.append((n, None if par is None else par + base))
                self.off.append(base)
        self.m = m
        self.names = names
        self.given = path  # None: paths are not tracked (third component stays 0)
        self.track = track

    # --- object graph -----------------------------------------------------
    def parent(self, o):
        return self.objs[o][1]

    def root(self, o):
        while self.parent(o) is not None:
            o = self.parent(o)
        return o

    def index_of(self, node):
        for i, (n, _) in enumerate(self.objs):
            if n is node:
                return i
        raise KeyError

    def attr(self, o, name):
        n = self.objs[o][0]
        if n["cls"] == "Ref":
            return []
        if name in ("a", "b"):
            return [self.index_of(c) for c in n.get(name) or []]
        if name == "s":
            return [self.index_of(n["s"])] if n.get("s") is not None else []
        if name == "r":
            return [n["r"] + self.off[o]] if n.get("r") is not None else []
        if name == "rs":
            return [t + self.off[o] for t in n.get("rs") or []]
        return []

    def cands(self, e, src, n):
        """elements of attribute e.name of src the step may move to"""
        ts = self.attr(src, e["name"])
        if e["mode"] == "t":
            return ts
        if e["mode"] == "f":
            return [t for t in ts if self.name_of(t) == e["fixed"]]
        if n == 0:
            return []
        return [t for t in ts if self.name_of(t) == self.names[len(self.names) - n]]

    def nav_source(self, e, src, n):
        """the object whose attribute is followed: `src`, or with '+m:' and a model root
        the first of (src, other models…) in which the step finds anything"""
        if self.m and self.parent(src) is None:
            for st in [src] + self.extra_roots:
                if self.cands(e, st, n):
                    return st
        return src

    def name_of(self, o):
        return self.objs[o][0].get("name")

    def conforms(self, o, t):
        return t is None or t in CONF[self.objs[o][0]["cls"]]

    # --- one step -----------------------------------------------------------
    def named(self, st, tgt):
        """account for a named object in the path"""
        o, n, j = st
        if self.track is not None:
            return (tgt, n, j + (tgt,)) if len(j) < self.track else None
        if self.given is None:
            return (tgt, n, 0)
        if j[0] < len(self.given) and self.given[j[0]] == tgt:
            return (tgt, n, (j[0] + 1, True))
        return None

    def moved(self, j):
        """a step that is not a name step was taken (with a given path the third component
        is (entries accounted for, the last step taken was a name step))"""
        if self.given is None or self.track is not None:
            return j
        return (j[0], False)

    def elem(self, e, first, S):
        k = e["k"]
        out = set()
        if k == "nav":
            for (o, n, j) in S:
                src = self.nav_source(e, self.root(o) if first else o, n)
                for t in self.cands(e, src, n):
                    if e["mode"] == "t":
                        out.add((t, n, self.moved(j)))
                    elif e["mode"] == "f":
                        st = self.named((o, n, j), t)
                        if st:
                            out.add(st)
                    else:
                        st = self.named((o, n - 1, j), t)
                        if st:
                            out.add(st)
            return out
        if k == "parent":
            for (o, n, j) in S:
                p = self.parent(o)
                while p is not None and not self.conforms(p, e["type"]):
                    p = self.parent(p)
                if p is not None:
                    out.add((p, n, self.moved(j)))
            return out
        if k == "dots":
            for (o, n, j) in S:
                p, c = o, e["n"]
                while c > 1 and p is not None:
                    p = self.parent(p)
                    c -= 1
                if p is not None:
                    out.add((p, n, self.moved(j)))
            return out
        if k == "br":
            return self.seq(e["seq"], first, S)
        if k == "star":
            body = e["e"]["seq"] if e["e"]["k"] == "br" else [{"lead": None, "elems": [e["e"]]}]
            return self.star(body, first, S)
        raise ValueError(k)

    def starts(self, seq):
        """(start_locally, start_at_root) of a sequence"""
        loc = root = False
        for p in seq:
            l, r = self.path_starts(p)
            loc, root = loc or l, root or r
        return loc, root

    def path_starts(self, p):
        if p.get("lead") is not None:
            return True, False
        e = p["elems"][0]
        while e["k"] == "star":
            e = e["e"]
        if e["k"] == "nav":
            return False, True
        if e["k"] == "parent":
            return True, False
        return self.starts(e["seq"])

    def star(self, body, first, S):
        loc, root = self.starts(body)
        res = set()
        if first:
            for (o, n, j) in S:
                if loc:
                    res.add((o, n, j))
                if root:
                    res.add((self.root(o), n, j))
        else:
            res |= S
        frontier = self.seq(body, first, S)
        seen = set()
        while frontier - seen:
            new = frontier - seen
            seen |= new
            frontier = self.seq(body, False, new)
        return res | seen

    def path(self, p, first, S):
        elems = list(p["elems"])
        lead = p.get("lead")
        if lead == "^":
            elems = [{"k": "star", "e": {"k": "br", "seq": [{"lead": 2, "elems": []}]}}] + elems
        elif lead is not None:
            elems = [{"k": "dots", "n": lead}] + elems
        for i, e in enumerate(elems):
            S = self.elem(e, first and i == 0, S)
            if not S:
                break
        return S

    def seq(self, seq, first, S):
        out = set()
        for p in seq:
            out |= self.path(p, first, S)
        return out

    def targets(self, seq, start, cls, last_named=None):
        """objects reachable by one expansion that consumed every name part,
        (accounted for the whole path; `last_named`: whose last step was / was not a name
        step,) and conform to cls"""
        if self.given is None:
            S = self.seq(seq, True, {(start, len(self.names), 0)})
            return {o for (o, n, j) in S if n == 0 and self.conforms(o, cls)}
        S = self.seq(seq, True, {(start, len(self.names), (0, False))})
        return {o for (o, n, j) in S if n == 0 and j[0] == len(self.given) and self.conforms(o, cls)
                and (last_named is None or j[1] == last_named)}


    def expansions(self, seq, start, cls):
        """(tracking mode) {(target, named objects traversed)} over the expansions that
        consumed every name part and end in an object conforming to cls"""
        assert self.track is not None
        S = self.seq(seq, True, {(start, len(self.names), ())})
        return {(o, j) for (o, n, j) in S if n == 0 and self.conforms(o, cls)}


def spec_of(case, ns, path=None):
    return Spec(case["heap"], ns, path, extra=case.get("extra"), m="m" in case["expr"].get("flags", ""))


def split_name(text, split):
    return [p for p in text.split(split) if p]


# --------------------------------------------------------------------------
# running the real code
# --------------------------------------------------------------------------
_MM = {}


def metamodel(cls, rrel, split, reg=None, builtin=None):
    """metamodel of the model language; r / rs are resolved by object number"""
    key = (cls, rrel, split, reg)
    if builtin is None and key in _MM:
        return _MM[key]
    use_repo()
    from textx import get_model, metamodel_from_str

    if builtin is None:
        mm = metamodel_from_str(grammar_text(cls, rrel, split))
    else:
        mm = metamodel_from_str(grammar_text(cls, rrel, split), builtin_models=builtin)

    def by_number(obj, attr, obj_ref):
        return model_objects(get_model(obj))[int(obj_ref.obj_name)]

    sp = {"*.r": by_number, "*.rs": by_number}
    if reg is not None:
        sp["Ref.ref"] = reg
    mm.register_scope_providers(sp)
    if builtin is not None:
        return mm
    if len(_MM) > 64:
        _MM.clear()
    _MM[key] = mm
    return mm


def model_objects(model):
    """objects of a loaded model in the numbering of heap_list"""
    out = []

    def go(o):
        out.append(o)
        for c in getattr(o, "a", None) or []:
            go(c)
        for c in getattr(o, "b", None) or []:
            go(c)
        if getattr(o, "s", None) is not None:
            go(o.s)
        for c in getattr(o, "refs", None) or []:
            go(c)

    go(model)
    return out


def dump_tree(expr):
    """the parsed RRELExpression as a term over the Lean model's constructors;
    node identities become small numbers"""
    use_repo()
    from textx.scoping import rrel as R

    ids = {}

    def nid(n):
        return ids.setdefault(id(n), len(ids))

    def seq(s):
        assert type(s) is R.RRELSequence
        return {"k": "seq", "i": nid(s), "alts": [path(p) for p in s.paths]}

    def path(p):
        assert type(p) is R.RRELPath
        return {"k": "cat", "es": [elem(e) for e in p.path_elements]}

    def elem(e):
        t = type(e)
        if t is R.RRELNavigation:
            mode = "c" if e.consume_name else ("f" if e.fixed_name is not None else "t")
            return {"k": "nav", "i": nid(e), "name": e.name, "mode": mode, "fixed": e.fixed_name or ""}
        if t is R.RRELParent:
            return {"k": "parent", "i": nid(e), "type": e.type}
        if t is R.RRELDots:
            return {"k": "dots", "i": nid(e), "n": e.num}
        if t is R.RRELBrackets:
            return {"k": "br", "i": nid(e), "e": seq(e.seq)}
        if t is R.RRELZeroOrMore:
            return {"k": "star", "i": nid(e), "e": seq(e.path_element.seq)}
        raise TypeError(t.__name__)

    return {"top": [path(p) for p in expr.seq.paths], "m": bool(expr.importURI), "p": bool(expr.use_proxy),
            "surface": dump_surface(expr)}


def dump_surface(expr):
    """the same RRELExpression as a plain object tree (classes, names, flags — no node identities; wire form of
    Drivers/RrelSyntax.lean).  The Lean driver maps it to the core calculus itself (`RrelSyntax.toCore`, the map
    the theorems `C11_*_tree` / `C12_eval_find` are about) and reports whether that equals the dumped core,
    node identities included."""
    use_repo()
    from textx.scoping import rrel as R

    def cps(s):
        return [ord(c) for c in s]

    def seq(s):
        return [[elem(e) for e in p.path_elements] for p in s.paths]

    def elem(e):
        t = type(e)
        if t is R.RRELNavigation:
            return ["nav", cps(e.name), bool(e.consume_name), None if e.fixed_name is None else cps(e.fixed_name)]
        if t is R.RRELParent:
            return ["parent", cps(e.type)]
        if t is R.RRELDots:
            return ["dots", e.num]
        if t is R.RRELBrackets:
            return ["br", seq(e.seq)]
        if t is R.RRELZeroOrMore:
            return ["star", seq(e.path_element.seq)]
        raise TypeError(t.__name__)

    return {"flags": cps(expr.flags), "seq": seq(expr.seq)}


class HeapMismatch(Exception):
    pass


def check_heap(case, model, mm, others, heap=None):
    want = model_heap(case["heap"] if heap is None else heap, case.get("extra"))
    want.pop("extra_roots")
    got = real_heap(model, mm, others)
    if want != got:
        for k in want:
            if want[k] != got[k]:
                raise HeapMismatch(f"{k}: described {want[k]} loaded {got[k]}")


def describe(res_obj, path, allobjs, proxy=None):
    """a resolved reference as numbers: target, proxy path, and what attribute access reaches"""
    num = {id(o): i for i, o in enumerate(allobjs)}
    d = {"res": "found", "obj": num.get(id(res_obj), -1),
         "path": None if path is None else [num.get(id(p), -1) for p in path]}
    if proxy is not None:
        # the object that attribute access through the proxy denotes: the owner of the
        # list object `proxy.a` (every Item / Model has its own list; None: no such attribute)
        try:
            lst = proxy.a
            d["fwd"] = next((i for i, o in enumerate(allobjs) if getattr(o, "a", None) is lst), -1)
        except AttributeError:
            d["fwd"] = None
    return d


def run_case(case):
    if case["mode"] == "multi":
        return run_multi(case)
    use_repo()
    from textx.exceptions import TextXError, TextXSemanticError
    from textx.scoping import Postponed
    from textx.scoping import rrel as R

    mode = case["mode"]
    text = render_body(case["heap"], 0)
    etext = render_expr(case["expr"])
    split = case.get("split", ".")
    cls = case.get("cls")
    out = {"expr": etext}

    others = []  # builtin models ('+m:')

    def found(res_obj, path, model, proxy=None):
        allobjs = model_objects(model) + [o for m in others for o in model_objects(m)]
        return describe(res_obj, path, allobjs, proxy)

    try:
        if mode == "find":
            mm = metamodel("Item", "a", split)
            if case.get("extra"):
                from textx.scoping import ModelRepository

                repo = ModelRepository()
                for t in case["extra"]:
                    others.append(mm.model_from_str(render_body(t, 0)))
                    repo.add_model(others[-1])
                mm = metamodel("Item", "a", split, builtin=repo)
            model = mm.model_from_str(text)
            objs = model_objects(model)
            check_heap(case, model, mm, others)
            tree = R.parse(etext)
            out["tree"] = dump_tree(tree)
            name = case["name"] if case.get("as_list") is None else list(case["as_list"])
            if case.get("unres"):
                # as during model construction: some reference attributes are not resolved yet
                flagged = [(objs[i], a) for i, a in case["unres"]]

                class Resolver:
                    def has_unresolved_crossrefs(self, obj, attr_name=None):
                        return any(o is obj and (attr_name is None or a == attr_name) for o, a in flagged)

                model._tx_reference_resolver = Resolver()
            try:
                r = R.find(objs[case["from"]], name, tree, None if cls is None else mm[cls],
                           split_string=split, use_proxy=tree.use_proxy)
            finally:
                if case.get("unres"):
                    del model._tx_reference_resolver
            if r is None:
                out["res"] = "none"
            elif isinstance(r, Postponed):
                out["res"] = "postponed"
            elif isinstance(r, R.ReferenceProxy):
                out.update(found(r._tx_obj, r._tx_path, model, proxy=r))
            else:
                out.update(found(r, None, model))
        else:
            if mode == "grammar":
                mm = metamodel(cls or "Item", etext, split)
                sp = mm["Ref"]._tx_attrs["ref"].scope_provider
            else:
                mm = metamodel(cls or "Item", None, split, reg=etext)
                sp = mm.scope_providers["Ref.ref"]
            tree = getattr(sp, "rrel_tree", None) or sp.scope_provider.rrel_tree
            out["tree"] = dump_tree(tree)
            try:
                model = mm.model_from_str(text)
            except TextXSemanticError as e:
                if "Unknown object" in str(e):
                    out["res"] = "none"
                    return out
                raise
            objs = model_objects(model)
            check_heap(case, model, mm, others)
            ref = objs[case["from"]].ref
            if isinstance(ref, R.ReferenceProxy):
                out.update(found(ref._tx_obj, ref._tx_path, model, proxy=ref))
            else:
                out.update(found(ref, None, model))
    except TextXError as e:
        out.update(res="error", type=type(e).__name__, msg=str(e)[:200])
    except RecursionError:
        out.update(res="error", type="RecursionError", msg="")
    except Exception as e:  # any other exception of the code under test is an observation
        out.update(res="error", type=type(e).__name__, msg=str(e)[:200])
    return out


# --------------------------------------------------------------------------
# generators
# --------------------------------------------------------------------------
def gen_heap(rng, max_objs=14, deep=False):
    count = [0]
    limit = 4 if deep else 3
    cont = [1.0, 0.9, 0.8, 0.6] if deep else [1.0, 0.75, 0.5]
    width = 2 if deep else 3

    def item(depth):
        count[0] += 1
        cls = rng.weighted([("A", 4), ("B", 3), ("C", 1)])
        n = {"cls": cls}
        if cls != "C":
            n["name"] = rng.weighted([("x", 4), ("y", 3), ("z", 2)])
        fill(n, depth)
        return n

    def fill(n, depth):
        n["a"], n["b"], n["s"] = [], [], None
        if depth >= limit:
            return
        p = cont[depth]
        if rng.chance(p):
            for _ in range(rng.randint(1, width)):
                if count[0] < max_objs:
                    n["a"].append(item(depth + 1))
        if rng.chance(p * 0.6):
            for _ in range(rng.randint(1, 2)):
                if count[0] < max_objs:
                    n["b"].append(item(depth + 1))
        if rng.chance(0.2) and count[0] < max_objs:
            n["s"] = item(depth + 1)

    root = {"cls": "Model"}
    fill(root, 0)
    return root


def add_refs(rng, root, ref_at=None, ref_text=None, back=0.0, p_r=0.3, p_rs=0.2):
    """cross references by object number (numbers include a Ref object, if any);
    `back`: share of references that point to the object itself or one of its containers
    (a step along such a reference returns to an object the evaluation came through)"""
    objs = heap_list(root)
    if ref_at is not None:
        objs[ref_at][0].setdefault("refs", []).append({"cls": "Ref", "text": ref_text})
        objs = heap_list(root)
    items = [i for i, (n, _) in enumerate(objs) if n["cls"] in ("A", "B", "C")]
    if not items:
        return

    def pick(i):
        if back and rng.chance(back):
            up, q = [], i
            while q is not None:
                if objs[q][0]["cls"] in ("A", "B", "C"):
                    up.append(q)
                q = objs[q][1]
            if up:
                return rng.choice(up)
        return rng.choice(items)

    for i, (n, _) in enumerate(objs):
        if n["cls"] == "Ref":
            continue
        if rng.chance(p_r):
            n["r"] = pick(i)
        if rng.chance(p_rs):
            n["rs"] = [pick(i) for _ in range(rng.randint(1, 3))]


def gen_elem(rng, depth, allow_star=True):
    k = rng.weighted([("nav", 60), ("parent", 8), ("br", 12 if depth < 2 else 0), ("star", 20 if allow_star else 0)])
    if k == "nav":
        mode = rng.weighted([("c", 55), ("t", 37), ("f", 8)])
        e = {"k": "nav", "mode": mode,
             "name": rng.weighted([("a", 8), ("b", 5), ("s", 2), ("r", 3), ("rs", 3), ("q", 1)])}
        if mode == "f":
            e["fixed"] = rng.choice(NAMES)
        return e
    if k == "parent":
        return {"k": "parent", "type": rng.choice(TYPES)}
    if k == "br":
        return {"k": "br", "seq": gen_seq(rng, depth + 1)}
    return {"k": "star", "e": gen_elem(rng, depth, allow_star=False)}


def gen_path(rng, depth):
    lead = rng.weighted([(None, 55), ("^", 20), (1, 9), (2, 11), (3, 5)])
    lo = 0 if (lead is not None and rng.chance(0.15)) else 1
    n = 0 if lo == 0 else rng.weighted([(1, 5), (2, 4), (3, 2)])
    return {"lead": lead, "elems": [gen_elem(rng, depth) for _ in range(n)]}


def gen_seq(rng, depth=0):
    return [gen_path(rng, depth) for _ in range(rng.weighted([(1, 6), (2, 3), (3, 1)]))]


def all_names(maxlen=3):
    out = [[]]
    res = []
    for _ in range(maxlen):
        out = [p + [n] for p in out for n in NAMES]
        res += out
    return res


def gen_focus_seq(rng):
    """expressions around the places where the visited set, the first-element rule and
    repetition interact: a leading '*' (or '^') over navigation, then name steps"""
    def navs(k, modes):
        return [{"k": "nav", "mode": rng.weighted(modes), "name": rng.weighted([("a", 6), ("b", 3), ("r", 2), ("rs", 2), ("s", 1)])}
                for _ in range(k)]

    gen_focus_seq.dist = None
    kind = rng.weighted([("star-nav", 5), ("star-br", 3), ("caret", 3), ("nested", 2), ("br-alt", 7)])
    tail = navs(rng.randint(1, 2), [("c", 8), ("t", 2)])
    if kind == "br-alt":
        # nested alternatives that can both match: their order decides the result
        attrs = rng.sample(["a", "b", "s", "r", "rs"], rng.randint(2, 3))
        amode = rng.weighted([("c", 7), ("t", 3)])
        alts = [{"lead": rng.weighted([(None, 8), (2, 1), (1, 1)]),
                 "elems": [{"k": "nav", "mode": amode, "name": a}]} for a in attrs]
        head = [{"k": "br", "seq": alts}]
        if rng.chance(0.5) and amode == "c":
            tail = []
        lead = rng.weighted([(None, 7), ("^", 3)])
        if lead is None:
            # the same alternatives written out, for choosing a name several of them match
            gen_focus_seq.dist = [{"lead": a["lead"], "elems": a["elems"] + tail} for a in alts]
    elif kind == "star-nav":
        head = [{"k": "star", "e": navs(1, [("t", 7), ("c", 3)])[0]}]
        lead = None
    elif kind == "star-br":
        alts = [{"lead": rng.weighted([(None, 6), (2, 3)]), "elems": navs(rng.randint(1, 2), [("t", 6), ("c", 4)])}
                for _ in range(rng.randint(1, 2))]
        head = [{"k": "star", "e": {"k": "br", "seq": alts}}]
        lead = None
    elif kind == "caret":
        head = [{"k": "star", "e": navs(1, [("c", 6), ("t", 4)])[0]}] if rng.chance(0.6) else []
        lead = "^"
    else:
        inner = {"k": "star", "e": navs(1, [("t", 7), ("c", 3)])[0]}
        head = [{"k": "star", "e": {"k": "br", "seq": [{"lead": None, "elems": [inner] + navs(1, [("t", 5), ("c", 5)])}]}}]
        lead = None
    seq = [{"lead": lead, "elems": head + tail}]
    if rng.chance(0.25):
        seq.insert(rng.below(2), gen_path(rng, 1))
    return seq


def ancestors(sp, o):
    out = []
    p = sp.parent(o)
    while p is not None:
        out.append(p)
        p = sp.parent(p)
    return out


def gen_case(rng, mode=None, focus=None):
    mode = mode or rng.weighted([("find", 15), ("grammar", 4), ("reg", 1)])
    focus = rng.chance(0.4) if focus is None else focus
    root = gen_heap(rng, deep=focus and rng.chance(0.7))
    flags = rng.weighted([("", 6), ("p", 4)])
    split = rng.weighted([(".", 6), ("/", 2), ("::", 2)])
    n0 = len(heap_list(root))
    at = rng.below(n0)
    if focus and n0 > 1:  # start inside the tree rather than at the root, at an object with children
        at = 1 + rng.below(n0 - 1)
        inner = [i for i, (n, _) in enumerate(heap_list(root)) if i > 0 and (n.get("a") or n.get("b"))]
        if inner and rng.chance(0.8):
            at = rng.choice(inner)
    if mode == "find":
        add_refs(rng, root)
        frm = at
    else:
        add_refs(rng, root, ref_at=at, ref_text="?")
        frm = next(i for i, (n, _) in enumerate(heap_list(root)) if n["cls"] == "Ref")
    extra = []
    if mode == "find" and rng.chance(0.12):  # '+m:' with builtin models
        flags = rng.weighted([("m", 5), ("pm", 3), ("mp", 2)])
        for _ in range(rng.randint(1, 2)):
            t = gen_heap(rng, max_objs=5)
            add_refs(rng, t)
            extra.append(t)
    elif mode == "find" and rng.chance(0.03):  # the flag without other models
        flags = "m"
    mflag = "m" in flags
    # expression, class and name: mostly such that a target exists
    want = rng.chance(0.8)
    names = all_names()
    for attempt in range(6):
        seq = gen_focus_seq(rng) if focus else gen_seq(rng)
        cls = rng.weighted([(None, 3), ("Item", 4), ("Named", 2), ("A", 3), ("B", 2), ("C", 1)])
        if focus:
            cls = rng.weighted([(None, 4), ("Item", 4), ("Named", 2), ("A", 1), ("B", 1)])
        if mode != "find" and cls is None:
            cls = "Item"
        ns = rng.choice(names)
        if not want:
            break
        good = [c for c in rng.shuffle(names) if Spec(root, c, extra=extra, m=mflag).targets(seq, frm, cls)]
        if good and focus:
            # prefer matches below the start object (reached through the start object itself)
            sp0 = Spec(root, [])
            below = {i for i in range(len(sp0.objs)) if i != frm and frm in ancestors(sp0, i)}
            deep = [c for c in good if Spec(root, c, extra=extra, m=mflag).targets(seq, frm, cls) & below]
            if deep and rng.chance(0.7):
                good = deep
        dist = gen_focus_seq.dist if focus else None
        if good and dist:
            # nested alternatives: prefer names that at least two of them match
            both = [c for c in good
                    if sum(1 for q in dist if Spec(root, c, extra=extra, m=mflag).targets([q], frm, cls)) > 1]
            if both:
                good = both
        if good and rng.chance(0.6):
            # prefer names with several matching objects: then the search order decides
            multi = [c for c in good if len(Spec(root, c, extra=extra, m=mflag).targets(seq, frm, cls)) > 1]
            if multi:
                good = multi
        if good:
            # prefer long names
            good.sort(key=lambda c: -len(c))
            ns = good[rng.below(min(len(good), 4))]
            break
    text = split.join(ns)
    if rng.chance(0.1):  # empty parts are dropped
        text = split + text.replace(split, split + split, 1)
    if mode == "find" and rng.chance(0.03):  # degenerate names: no part at all
        text = rng.choice(["", split, split + split])
    case = {"mode": mode, "heap": root, "expr": {"flags": flags, "seq": seq}, "from": frm,
            "name": text, "split": split, "cls": cls}
    if extra:
        case["extra"] = extra
    if mode != "find":
        heap_list(root)[frm][0]["text"] = text
    else:
        if rng.chance(0.2):
            case["as_list"] = split_name(text, split)
        if rng.chance(0.25):  # unresolved reference attributes (Postponed)
            used = set()

            def walk(q):
                for p in q:
                    for e in p["elems"]:
                        while e["k"] == "star":
                            e = e["e"]
                        if e["k"] == "nav":
                            used.add(e["name"])
                        elif e["k"] == "br":
                            walk(e["seq"])

            walk(seq)
            holders = [(i, a) for i, (n, _) in enumerate(heap_list(root)) for a in ("r", "rs")
                       if n.get(a) not in (None, []) and a in used]
            if holders:
                case["unres"] = [list(h) for h in rng.sample(holders, min(len(holders), rng.randint(1, 2)))]
    return case


# --------------------------------------------------------------------------
# '+p:' territory.  The statement's last clause ("the proxy's path lists the named
# objects traversed, ending in the target") has these dimensions, all generated here:
#   * the named prefix: 0..3 name steps (consuming / fixed-name), over containment
#     and over references (so the named objects may repeat: reference cycles);
#   * what follows the last name step: nothing, or 1..2 steps that are not name steps
#     — parent(T), '(..)', '(...)', '(..)*', '~reference', '~containment', repetitions
#     and bracketed alternatives of those — possibly followed by name steps again;
#   * where the target lies relative to the named objects: the last of them, a fresh
#     object, an object named earlier (first / middle position), an object carrying
#     the same name as the last named one;  the reference name is chosen by that shape.
# --------------------------------------------------------------------------
class WildSpec(Spec):
    """reachability with the reference name left open (a consuming step may move to any
    named element): tells the generator which steps lead anywhere in a given model"""

    def cands(self, e, src, n):
        ts = self.attr(src, e["name"])
        if e["mode"] == "t":
            return ts
        if e["mode"] == "f":
            return [t for t in ts if self.name_of(t) == e["fixed"]]
        return [t for t in ts if self.name_of(t) is not None]

    def named(self, st, tgt):
        return (tgt, 0, 0)


def gen_proxy_seq(rng, allow_bare=True, root=None, frm=0):
    """`root`, `frm`: the model and start object; steps are (mostly) chosen such that
    they lead somewhere in it"""
    wild = WildSpec(root, []) if root is not None else None

    def front(lead, elems):
        if wild is None or (lead is None and not elems):
            return True
        return wild.path({"lead": lead, "elems": elems}, True, {(frm, 0, 0)})

    def name_step(lead, elems):
        for attempt in range(5):
            mode = rng.weighted([("c", 85), ("f", 15)])
            e = {"k": "nav", "mode": mode, "name": rng.weighted([("a", 6), ("b", 3), ("s", 1), ("r", 2), ("rs", 2)])}
            if mode == "f":
                e["fixed"] = rng.choice(NAMES)
            if attempt == 0 and rng.chance(0.15):
                break  # a step chosen blindly
            if front(lead, elems + [e]):
                break
        return e

    def up(n):
        return {"k": "br", "seq": [{"lead": n, "elems": []}]}

    def other_kind(depth):
        k = rng.weighted([("parent", 5), ("up", 4), ("ref", 4), ("down", 2), ("upstar", 2), ("refstar", 1),
                          ("alt", 2 if depth == 0 else 0)])
        if k == "parent":
            return {"k": "parent", "type": rng.weighted([("Item", 4), ("Named", 3), ("A", 2), ("B", 2), ("C", 1), ("Model", 1)])}
        if k == "up":
            return up(rng.weighted([(2, 7), (3, 3)]))
        if k == "ref":
            return {"k": "nav", "mode": "t", "name": rng.choice(["r", "rs"])}
        if k == "down":
            return {"k": "nav", "mode": "t", "name": rng.weighted([("a", 5), ("b", 3), ("s", 1)])}
        if k == "upstar":
            return {"k": "star", "e": up(2)}
        if k == "refstar":
            return {"k": "star", "e": {"k": "nav", "mode": "t", "name": rng.choice(["r", "rs"])}}
        return {"k": "br", "seq": [{"lead": None, "elems": [other_kind(1)]} for _ in range(2)]}

    def other_step(lead, elems):
        for attempt in range(4):
            e = other_kind(0)
            if (attempt == 0 and rng.chance(0.15)) or front(lead, elems + [e]):
                break
        return e

    def extend(lead, elems, plan):
        for kind in plan:
            elems.append(name_step(lead, elems) if kind == "n" else other_step(lead, elems))
        return elems

    shape = rng.weighted([("ret", 14), ("mid", 2), ("names", 2), ("bare", 2 if allow_bare else 0)])
    lead = rng.weighted([(None, 15), ("^", 2), (2, 2), (1, 1)])
    if shape == "ret":
        plan = "n" * rng.weighted([(1, 3), (2, 5), (3, 2)]) + "o" * rng.weighted([(1, 7), (2, 3)])
    elif shape == "mid":
        plan = "n" * rng.randint(1, 2) + "on" + ("o" if rng.chance(0.3) else "")
    elif shape == "names":
        plan = "n" * rng.randint(1, 3)
    else:
        lead = rng.weighted([(None, 2), ("^", 1), (2, 3), (3, 1), (1, 1)])
        plan = "o" * rng.randint(0 if lead is not None else 1, 2)
    seq = [{"lead": lead, "elems": extend(lead, [], plan)}]
    if rng.chance(0.2):
        seq.insert(rng.below(2), gen_path(rng, 1))
    return seq


def path_shape(sp, t, path):
    """how the target relates to the named objects traversed"""
    if not path:
        return "empty"
    if path[-1] != t:
        if t in path:
            return "back"
        if sp.name_of(path[-1]) == sp.name_of(t):
            return "twin"
        return "fresh"
    return "dup" if len(set(path)) < len(path) else "plain"


SHAPE_WEIGHTS = [("back", 8), ("twin", 3), ("dup", 3), ("fresh", 4), ("empty", 2), ("plain", 2)]


def gen_proxy_case(rng, mode=None):
    mode = mode or rng.weighted([("find", 14), ("grammar", 5), ("reg", 1)])
    root = gen_heap(rng, deep=rng.chance(0.6))
    flags = rng.weighted([("p", 9), ("", 1)])
    split = rng.weighted([(".", 6), ("/", 2), ("::", 2)])
    n0 = len(heap_list(root))
    at = 0
    if n0 > 1 and rng.chance(0.6):
        at = 1 + rng.below(n0 - 1)
    if mode == "find":
        add_refs(rng, root, back=0.5, p_r=0.5, p_rs=0.3)
        frm = at
    else:
        add_refs(rng, root, ref_at=at, ref_text="?", back=0.5, p_r=0.5, p_rs=0.3)
        frm = next(i for i, (n, _) in enumerate(heap_list(root)) if n["cls"] == "Ref")
    names = all_names() + ([[]] if mode == "find" else [])
    sp0 = Spec(root, [])
    want = rng.chance(0.9)
    # the shape of the path this case is to exhibit (a grammar reference cannot have an empty name)
    target = rng.weighted([(k, w) for k, w in SHAPE_WEIGHTS if mode == "find" or k != "empty"])
    fallback = None
    for attempt in range(8):
        seq = gen_proxy_seq(rng, allow_bare=(mode == "find"), root=root, frm=frm)
        cls = rng.weighted([(None, 4), ("Item", 4), ("Named", 2), ("A", 1), ("B", 1)])
        if mode != "find" and cls is None:
            cls = "Item"
        ns = rng.choice(names)
        if not want:
            break
        by_shape = {}
        for c in rng.shuffle(names):
            exps = Spec(root, c, track=len(c) + 3).expansions(seq, frm, cls)
            for shp in {path_shape(sp0, t, p) for t, p in exps}:
                by_shape.setdefault(shp, []).append(c)
        if by_shape and fallback is None:
            fallback = (seq, cls, by_shape)
        if target in by_shape:
            break
    else:
        if fallback is not None:
            seq, cls, by_shape = fallback
            target = rng.weighted([(k, w) for k, w in SHAPE_WEIGHTS if k in by_shape])
    if want and fallback is not None:
        good = sorted(by_shape[target], key=lambda c: -len(c))
        ns = good[rng.below(min(len(good), 4))]
    text = split.join(ns)
    if ns and rng.chance(0.1):  # empty parts are dropped
        text = split + text.replace(split, split + split, 1)
    case = {"mode": mode, "heap": root, "expr": {"flags": flags, "seq": seq}, "from": frm,
            "name": text, "split": split, "cls": cls}
    if mode != "find":
        heap_list(root)[frm][0]["text"] = text
    elif rng.chance(0.2):
        case["as_list"] = split_name(text, split)
    return case


# --------------------------------------------------------------------------
# histories: one provider object, many references (mode "multi").
# "For any RREL expression in a grammar or scope-provider registration and any model": an
# expression written in a grammar or registered for a pattern becomes ONE provider object that
# lives as long as the meta-model and answers every reference it covers — references of
# different rules, with different match rules (name delimiters: rule parameter `split`, default
# '.'), different target classes, single and list valued, in every model loaded with that
# meta-model.  Dimensions generated here:
#   * 2..3 match rules FQNi with `split` none / '.' / '/' / '::' (all accept every separator);
#   * 1..3 reference rules Rk ("kinds"): attribute name, target class, single / list valued,
#     one or two places where the attribute is assigned (different match rules), RREL written in
#     the grammar or left to the registration;
#   * registrations "*.attr", "Rk.attr", "Rk.*", "*.*", overlapping ones (the more specific wins),
#     as RREL string, as provider object made from a string or from a parsed tree — one object
#     possibly registered for several patterns —, with or without an explicit split_string;
#   * 1..3 models loaded one after the other with the same meta-model, 1..4 reference objects
#     each, the names chosen so that they (mostly) resolve and have several parts.
# Observed per model: every reference's target / proxy path, or which reference was reported
# unknown.  case = {"mode":"multi","rules":[{"split"}],"kinds":[{"attr","cls","many","alts":[rule..],
# "rrel":expr|None}],"provs":[{"expr","how":"str"|"obj"|"tree","split"}],"reg":[[pattern, prov]],
# "models":[heap..]}; a Ref node of such a heap is {"cls":"Ref","kind":k,"alt":j,"texts":[name..]}.
# --------------------------------------------------------------------------
MULTI_NAME = "(ID | '.' | '/' | '::')+"


def multi_grammar(case):
    kinds = case["kinds"]
    g = ["Model: " + BODY + ";", "Item: A | B | C;", "Named: A | B;",
         "A: 'A' name=ID '{' " + BODY + " '}';", "B: 'B' name=ID '{' " + BODY + " '}';",
         "C: 'C' '{' " + BODY + " '}';",
         "Ref: " + " | ".join("R%d" % k for k in range(len(kinds))) + ";"]
    for k, kd in enumerate(kinds):
        places = []
        for j, ri in enumerate(kd["alts"]):
            rr = ("|" + render_expr(kd["rrel"])) if kd.get("rrel") else ""
            ref = "[%s:FQN%d%s]" % (kd["cls"], ri, rr)
            kw = ref_keyword({"kind": k, "alt": j})
            places.append("'%s' %s%s ';'" % (kw, kd["attr"], ("+=" + ref + "[',']") if kd.get("many") else ("=" + ref)))
        g.append("R%d: %s;" % (k, " | ".join(places)))
    for i, ru in enumerate(case["rules"]):
        g.append("FQN%d%s: %s;" % (i, ("[split='%s']" % ru["split"]) if ru.get("split") else "", MULTI_NAME))
    return "\n".join(g) + "\n"


def governing(case, k, j):
    """(provider object id, expression, explicit delimiter) of the provider object that answers the
    references of kind k written at place j; None: no RREL provider covers them"""
    kd = case["kinds"][k]
    if kd.get("rrel") is not None:
        return "g|%d|%d" % (k, j), kd["rrel"], None  # one object per place in the grammar
    reg = {pat: pi for pat, pi in case["reg"]}
    for pat in ("R%d.%s" % (k, kd["attr"]), "*." + kd["attr"], "R%d.*" % k, "*.*"):
        if pat in reg:
            pv = case["provs"][reg[pat]]
            # a registered string becomes an object of its own per pattern
            return ("s|" + pat) if pv["how"] == "str" else ("o|%d" % reg[pat]), pv["expr"], pv.get("split")
    return None


def multi_calls(case):
    """the references of a session in textual order"""
    out = []
    for mi, heap in enumerate(case["models"]):
        for oi, (n, _) in enumerate(heap_list(heap)):
            if n["cls"] != "Ref":
                continue
            kd = case["kinds"][n["kind"]]
            gov = governing(case, n["kind"], n.get("alt", 0))
            rule_split = case["rules"][kd["alts"][n.get("alt", 0)]].get("split")
            for ti, t in enumerate(n["texts"]):
                c = {"m": mi, "o": oi, "t": ti, "text": t, "cls": kd["cls"], "rule_split": rule_split}
                if gov is not None:
                    # the documented delimiter: the provider's own, else the one of the match
                    # rule of this reference, else '.'
                    c.update(inst=gov[0], expr=gov[1], explicit=gov[2], split=gov[2] or rule_split or ".")
                out.append(c)
    return out


def ref_positions(heap):
    """[(Ref object number, name index, line, column)] of the reference names in
    render_body(heap, 0), 1-based as textX reports them"""
    import re

    nodes = [(i, n) for i, (n, _) in enumerate(heap_list(heap)) if n["cls"] == "Ref"]
    out, k = [], 0
    for ln, line in enumerate(render_body(heap, 0).split("\n"), 1):
        st = line.lstrip()
        if re.match(r"(ref|alt)\d+ ", st):
            i, n = nodes[k]
            k += 1
            assert st.startswith(ref_keyword(n) + " ")
            col = len(line) - len(st) + len(ref_keyword(n)) + 2
            for ti, t in enumerate(n["texts"]):
                out.append((i, ti, ln, col))
                col += len(t) + 2
    assert k == len(nodes)
    return out


def run_multi(case):
    use_repo()
    from textx import get_model, metamodel_from_str
    from textx.exceptions import TextXSemanticError
    from textx.scoping import rrel as R

    out = {"models": []}
    try:
        mm = metamodel_from_str(multi_grammar(case))

        def by_number(obj, attr, obj_ref):
            return model_objects(get_model(obj))[int(obj_ref.obj_name)]

        sp = {"*.r": by_number, "*.rs": by_number}
        made = {}
        for pat, pi in case["reg"]:
            pv = case["provs"][pi]
            etext = render_expr(pv["expr"])
            if pv["how"] == "str":
                sp[pat] = etext
                continue
            if pi not in made:
                arg = etext if pv["how"] == "obj" else R.parse(etext)
                made[pi] = (R.create_rrel_scope_provider(arg) if pv.get("split") is None
                            else R.create_rrel_scope_provider(arg, split_string=pv["split"]))
            sp[pat] = made[pi]
        mm.register_scope_providers(sp)
        trees = {}
        for c in multi_calls(case):
            key = c.get("inst")
            if key is None or key in trees:
                continue
            kind, _, rest = key.partition("|")
            if kind == "g":
                k = int(rest.split("|")[0])
                prov = mm["R%d" % k]._tx_attrs[case["kinds"][k]["attr"]].scope_provider
            elif kind == "s":
                prov = mm.scope_providers[rest]
            else:
                prov = made[int(rest)]
            trees[key] = dump_tree(prov.rrel_tree)
        out["trees"] = trees
    except Exception as e:  # the language itself could not be built
        out.update(res="error", type=type(e).__name__, msg=str(e)[:200])
        return out
    for heap in case["models"]:
        try:
            try:
                model = mm.model_from_str(render_body(heap, 0))
            except TextXSemanticError as e:
                if "Unknown object" not in str(e):
                    raise
                at = [[i, ti] for i, ti, ln, col in ref_positions(heap) if (ln, col) == (e.line, e.col)]
                if len(at) != 1:
                    raise HeapMismatch(f"'Unknown object' at {e.line}:{e.col} is not at a reference name")
                out["models"].append({"res": "failed", "at": at[0]})
                continue
            check_heap(case, model, mm, [], heap=heap)
            objs = model_objects(model)
            refs = []
            for oi, (n, _) in enumerate(heap_list(heap)):
                if n["cls"] != "Ref":
                    continue
                kd = case["kinds"][n["kind"]]
                v = getattr(objs[oi], kd["attr"])
                vals = list(v) if kd.get("many") else [v]
                refs.append([oi, [describe(x._tx_obj, x._tx_path, objs, proxy=x) if isinstance(x, R.ReferenceProxy)
                                  else describe(x, None, objs) for x in vals]])
            out["models"].append({"res": "loaded", "refs": refs})
        except HeapMismatch:
            raise
        except RecursionError:
            out["models"].append({"res": "error", "type": "RecursionError", "msg": ""})
        except Exception as e:  # any exception of the code under test is an observation
            out["models"].append({"res": "error", "type": type(e).__name__, "msg": str(e)[:200]})
    return out


def multi_subcase(case, c):
    """the reference `c` of a session as a single-reference case (for the statement's clauses)"""
    return {"mode": "grammar", "heap": case["models"][c["m"]], "expr": c["expr"], "from": c["o"],
            "name": c["text"], "split": c["split"], "cls": c["cls"]}


def multi_observed(case, obs):
    """[(call, observation of that reference)] for every reference whose answer was observed"""
    out = []
    calls = multi_calls(case)
    for mi, mo in enumerate(obs["models"]):
        mine = [c for c in calls if c["m"] == mi and "inst" in c]
        if mo["res"] == "failed":
            out += [(c, {"res": "none"}) for c in mine if [c["o"], c["t"]] == mo["at"]]
        elif mo["res"] == "loaded":
            got = {(oi, ti): d for oi, lst in mo["refs"] for ti, d in enumerate(lst)}
            out += [(c, got.get((c["o"], c["t"]), {"res": "error", "type": "missing", "msg": "no value for this reference"}))
                    for c in mine]
    return out


def check_multi(case, obs):
    if obs.get("res") == "error":
        return f"building the language raised {obs.get('type')}: {obs.get('msg')}"
    for mi, mo in enumerate(obs["models"]):
        if mo["res"] == "error":
            return f"model {mi}: loading raised {mo.get('type')}: {mo.get('msg')}"
    for c, d in multi_observed(case, obs):
        f = check_property(multi_subcase(case, c), d)
        if f:
            return (f"model {c['m']}, reference {c['text']!r} of object {c['o']} (provider {c['inst']}: "
                    f"{render_expr(c['expr'])}, delimiter {c['split']!r}, class {c['cls']}): {f}")
    return None


def gen_anchor_seq(rng):
    """qualified-name style expressions ('packages*.classes', '^a.b', '(a,b)*.a'): name steps over
    the containment lists, so that names of several parts resolve — from the model root (no lead:
    the same names from every place of the model) or from the enclosing scopes ('^')"""
    def step(mode="c"):
        if rng.chance(0.25):
            return {"k": "br", "seq": [{"lead": None, "elems": [{"k": "nav", "mode": mode, "name": a}]} for a in ("a", "b")]}
        return {"k": "nav", "mode": mode, "name": rng.weighted([("a", 7), ("b", 3)])}

    shape = rng.weighted([("chain", 4), ("star", 5), ("skip", 2)])
    if shape == "chain":
        elems = [step() for _ in range(rng.randint(2, 3))]
    elif shape == "star":
        elems = [{"k": "star", "e": step()}] + [step() for _ in range(rng.randint(1, 2))]
    else:
        elems = [{"k": "star", "e": step("t")}] + [step() for _ in range(2)]
    seq = [{"lead": rng.weighted([(None, 6), ("^", 3), (2, 1)]), "elems": elems}]
    if rng.chance(0.2):
        seq.insert(rng.below(2), gen_path(rng, 1))
    return seq


def gen_multi_case(rng):
    control = rng.chance(0.1)  # anything goes, single-delimiter languages included
    nr = rng.weighted([(2, 6), (3, 4)])
    if control:
        rules = [{"split": rng.choice([None, ".", "/", "::"])} for _ in range(nr)]
    else:  # pairwise different delimiters; '.' is the default or written out
        rules = [{"split": (None if rng.chance(0.6) else ".") if x == "." else x} for x in rng.sample(SPLITS, nr)]
    layout = rng.weighted([("star-attr", 5), ("cls-attr", 3), ("cls-star", 2), ("star-star", 2), ("overlap", 2)])
    nk = rng.weighted([(1, 2), (2, 5), (3, 3)])
    order = rng.shuffle(list(range(nr)))
    one_attr = rng.chance(0.7)
    kinds = []
    for k in range(nk):
        in_grammar = layout != "star-star" and k > 0 and rng.chance(0.2)
        alts = [order[k % nr]]
        if rng.chance(0.3) or (nk == 1 and not control):
            # the attribute is assigned at two places, with different match rules
            alts.append(rng.choice([i for i in range(nr) if i != alts[0]]))
        kinds.append({"attr": "gref" if in_grammar else ("ref" if one_attr else rng.weighted([("ref", 5), ("other", 5)])),
                      "cls": rng.weighted([("Item", 5), ("Named", 2), ("A", 2), ("B", 2)]),
                      "many": rng.chance(0.15), "alts": alts, "rrel": {} if in_grammar else None})
    # registrations for the kinds without RREL in the grammar
    free = [k for k, kd in enumerate(kinds) if kd["rrel"] is None]
    provs, reg = [], []

    def prov():
        how = rng.weighted([("str", 5), ("obj", 3), ("tree", 2)])
        provs.append({"expr": None, "how": how,
                      "split": rng.choice(SPLITS) if how != "str" and rng.chance(0.25) else None})
        return len(provs) - 1

    def bind(pats):
        share = rng.chance(0.6)  # one provider object registered for all these patterns
        shared = None
        for pat in pats:
            if shared is None or not share:
                shared = prov()
                if share and provs[shared]["how"] == "str":
                    # (a string cannot be shared: every pattern gets an object of its own)
                    provs[shared]["how"] = rng.choice(["obj", "tree"])
            reg.append([pat, shared])

    attrs = sorted({kinds[k]["attr"] for k in free})
    if layout == "star-star":
        bind(["*.*"])
    elif layout == "cls-attr":
        bind(["R%d.%s" % (k, kinds[k]["attr"]) for k in free])
    elif layout == "cls-star":
        bind(["R%d.*" % k for k in free])
    else:
        bind(["*." + a for a in attrs])
        if layout == "overlap":  # a more specific registration for one kind wins
            k = rng.choice(free)
            reg.append([rng.choice(["R%d.%s" % (k, kinds[k]["attr"]), "R%d.*" % k]), prov()])
    # models
    models = []
    for mi in range(rng.weighted([(1, 4), (2, 4), (3, 2)])):
        root = gen_heap(rng, max_objs=10, deep=rng.chance(0.4))
        holders = [n for n, _ in heap_list(root)]
        k0 = rng.below(nk)
        for i in range(rng.weighted([(1, 1), (2, 4), (3, 3), (4, 2)])):
            k = (k0 + i) % nk if rng.chance(0.8) else rng.below(nk)
            rng.choice(holders).setdefault("refs", []).append(
                {"cls": "Ref", "kind": k, "alt": rng.below(len(kinds[k]["alts"])),
                 "texts": [None] * (rng.randint(1, 3) if kinds[k]["many"] else 1)})
        add_refs(rng, root, back=0.2)
        models.append(root)
    case = {"mode": "multi", "rules": rules, "kinds": kinds, "provs": provs, "reg": reg, "models": models}
    # expressions: per provider object one that serves its references (several name parts, if possible)
    names = all_names()
    for kd in kinds:
        if kd["rrel"] is not None:
            kd["rrel"] = {"flags": "", "seq": [{"lead": None, "elems": [{"k": "nav", "mode": "c", "name": "a"}]}]}
    for pv in provs:
        pv["expr"] = {"flags": "", "seq": [{"lead": None, "elems": [{"k": "nav", "mode": "c", "name": "a"}]}]}
    owners = [kd["rrel"] for kd in kinds if kd["rrel"] is not None] + [pv["expr"] for pv in provs]
    goods = {}
    for ex in owners:
        served = sorted({(c["m"], c["o"], c["cls"]) for c in multi_calls(case) if c.get("expr") is ex})
        best = None
        for attempt in range(10):
            seq = rng.weighted([(gen_anchor_seq, 5), (gen_seq, 3), (gen_focus_seq, 2)])(rng)
            per, score = {}, 0
            for key in served:
                mi, oi, cls = key
                per[key] = [c for c in names if Spec(models[mi], c).targets(seq, oi, cls)]
                score += 2 if any(len(c) > 1 for c in per[key]) else (1 if per[key] else 0)
            if best is None or score > best[0]:
                best = (score, seq, per)
            if score == 2 * len(served):
                break
        ex["seq"] = best[1]
        ex["flags"] = rng.weighted([("", 7), ("p", 3)])
        goods[id(ex)] = best[2]
    # reference names
    for c in multi_calls(case):
        node = heap_list(models[c["m"]])[c["o"]][0]
        good = goods.get(id(c.get("expr")), {}).get((c["m"], c["o"], c["cls"]), [])
        if good and rng.chance(0.93):
            good = sorted(rng.shuffle(good), key=lambda x: -len(x))
            ns = good[rng.below(min(len(good), 4))]
        else:
            ns = rng.choice(names)
        sep = c.get("split", ".")
        text = sep.join(ns)
        if rng.chance(0.08):  # empty parts are dropped
            text = sep + text.replace(sep, sep + sep, 1)
        elif rng.chance(0.03) and len(ns) > 1:  # another rule's delimiter: one single part here
            text = rng.choice([x for x in SPLITS if x != sep]).join(ns)
        node["texts"][c["t"]] = text
    return case


def _without(heap, victim):
    """the heap without object `victim` (and what it contains), references renumbered"""
    root = _clone(heap)
    objs = heap_list(root)
    for i, (n, _) in enumerate(objs):
        n["_old"] = i
    n, p = objs[victim]
    pn = objs[p][0]
    if pn.get("s") is n:
        pn["s"] = None
    for k in ("a", "b", "refs"):
        if any(c is n for c in pn.get(k) or []):
            pn[k] = [c for c in pn[k] if c is not n]
    if not (root.get("a") or root.get("b") or root.get("s") is not None or root.get("refs")):
        return None  # (an empty model text is not a model object at all)
    return _renumber({"from": 0}, root, None)["heap"]


def shrink_multi(case):
    ms = case["models"]

    def put(i, h):
        return dict(case, models=ms[:i] + [h] + ms[i + 1:])

    if len(ms) > 1:
        for i in range(len(ms)):
            yield dict(case, models=ms[:i] + ms[i + 1:])
    for i, h in enumerate(ms):
        objs = heap_list(h)
        for v in range(1, len(objs)):  # reference objects first
            if objs[v][0]["cls"] == "Ref":
                h2 = _without(h, v)
                if h2 is not None:
                    yield put(i, h2)
        for v in range(1, len(objs)):
            if objs[v][0]["cls"] != "Ref":
                h2 = _without(h, v)
                if h2 is not None:
                    yield put(i, h2)
        for v, (n, _) in enumerate(objs):
            if n["cls"] == "Ref" and len(n["texts"]) > 1:
                for j in range(len(n["texts"])):
                    h2 = _clone(h)
                    del heap_list(h2)[v][0]["texts"][j]
                    yield put(i, h2)
            if n.get("r") is not None:
                h2 = _clone(h)
                heap_list(h2)[v][0]["r"] = None
                yield put(i, h2)
            if n.get("rs"):
                h2 = _clone(h)
                heap_list(h2)[v][0]["rs"] = []
                yield put(i, h2)


# --------------------------------------------------------------------------
# the property, decided on an observation
# --------------------------------------------------------------------------
def check_property(case, obs):
    if case.get("mode") == "multi":
        return check_multi(case, obs)
    ns = case.get("as_list")
    if ns is None:
        ns = split_name(case["name"], case.get("split", "."))
    seq, frm, cls = case["expr"]["seq"], case["from"], case.get("cls")
    spec = spec_of(case, ns)
    res = obs.get("res")
    if res == "error":
        return f"evaluation raised {obs.get('type')}: {obs.get('msg')}"
    if res == "postponed":
        if case.get("unres"):
            return None  # the answer is deferred; nothing to judge yet
        return "evaluation on a completely resolved model returned Postponed"
    per_alt = [spec.targets([p], frm, cls) for p in seq]
    targets = set().union(*per_alt)
    if res == "none":
        if targets:
            return f"reference does not resolve although object(s) {sorted(targets)} are reachable by an expansion"
        return None
    t = obs["obj"]
    if t not in targets:
        return f"resolved to object {t}, which no expansion reaches with all name parts consumed and a conforming type"
    first = next(i for i, s in enumerate(per_alt) if s)
    if t not in per_alt[first]:
        return f"resolved to object {t} of a later alternative although alternative {first} has a match"
    if "p" in case["expr"].get("flags", ""):
        path = obs.get("path")
        if not path:
            return "no proxy path although '+p:' is given"
        if path[-1] != t:
            return f"proxy path {path} does not end in the target {t}"
        # the path is the list of named objects of an expansion reaching the target (it ends in
        # the target already), or that list extended by the target where the expansion's last
        # step is not a name step
        ok = t in spec_of(case, ns, path).targets(seq, frm, cls) or \
            t in spec_of(case, ns, path[:-1]).targets(seq, frm, cls, last_named=False)
        if not ok:
            return f"proxy path {path} is not the list of named objects of an expansion reaching {t}"
        if obs.get("fwd") is not None and obs["fwd"] != t:
            return f"attribute access through the proxy reaches object {obs['fwd']}, not the target {t}"
    elif obs.get("path") is not None:
        return "proxy returned without '+p:'"
    return None


# --------------------------------------------------------------------------
# shrinking
# --------------------------------------------------------------------------
def _clone(x):
    return json.loads(json.dumps(x))


def _renumber(case, root, keep_from_tag):
    """after removing nodes from a clone whose nodes carry "_old" numbers"""
    objs = heap_list(root)
    new = {n["_old"]: i for i, (n, _) in enumerate(objs)}
    for n, _ in objs:
        if n.get("r") is not None:
            n["r"] = new.get(n["r"])
        if n.get("rs"):
            n["rs"] = [new[t] for t in n["rs"] if t in new]
    if case["from"] not in new:
        return None
    out = dict(case, heap=root)
    out["from"] = new[case["from"]]
    if case.get("unres"):
        out["unres"] = [[new[i], a] for i, a in case["unres"] if i in new]
    for n, _ in objs:
        n.pop("_old", None)
    return out


def shrink_heap(case):
    base = _clone(case["heap"])
    for i, (n, _) in enumerate(heap_list(base)):
        n["_old"] = i
    count = len(heap_list(base))
    for victim in range(1, count):
        root = _clone(base)
        objs = heap_list(root)
        n, p = objs[victim]
        if n["cls"] == "Ref":
            continue
        pn = objs[p][0]
        if pn.get("s") is n:
            pn["s"] = None
        else:
            for k in ("a", "b"):
                if any(c is n for c in pn.get(k) or []):
                    pn[k] = [c for c in pn[k] if c is not n]
        c = _renumber(case, root, None)
        if c is not None and (root.get("a") or root.get("b") or root.get("s") is not None or root.get("refs")):
            yield c  # (an empty model text is not a model object at all)
    for i in range(count):
        root = _clone(case["heap"])
        n = heap_list(root)[i][0]
        if n.get("r") is not None:
            n["r"] = None
            yield dict(case, heap=root)
            root = _clone(case["heap"])
            n = heap_list(root)[i][0]
        if n.get("rs"):
            for j in range(len(n["rs"])):
                r2 = _clone(case["heap"])
                n2 = heap_list(r2)[i][0]
                del n2["rs"][j]
                yield dict(case, heap=r2)


def shrink_seq(seq):
    """smaller sequences"""
    if len(seq) > 1:
        for i in range(len(seq)):
            yield seq[:i] + seq[i + 1:]
    for i, p in enumerate(seq):
        for q in shrink_path(p):
            yield seq[:i] + [q] + seq[i + 1:]


def shrink_path(p):
    es = p["elems"]
    if p.get("lead") is not None and es:
        yield {"lead": None, "elems": es}
    if len(es) > 1 or (es and p.get("lead") is not None):
        for i in range(len(es)):
            yield {"lead": p.get("lead"), "elems": es[:i] + es[i + 1:]}
    for i, e in enumerate(es):
        for f in shrink_elem(e):
            yield {"lead": p.get("lead"), "elems": es[:i] + [f] + es[i + 1:]}
        if e["k"] == "br" and len(e["seq"]) == 1 and e["seq"][0].get("lead") is None:
            yield {"lead": p.get("lead"), "elems": es[:i] + e["seq"][0]["elems"] + es[i + 1:]}


def shrink_elem(e):
    if e["k"] == "star":
        yield e["e"]
        for f in shrink_elem(e["e"]):
            if f["k"] != "star":
                yield {"k": "star", "e": f}
    elif e["k"] == "br":
        for s in shrink_seq(e["seq"]):
            yield {"k": "br", "seq": s}


def shrink_case(case):
    if case["mode"] == "multi":
        yield from shrink_multi(case)
        return
    yield from shrink_heap(case)
    for s in shrink_seq(case["expr"]["seq"]):
        yield dict(case, expr=dict(case["expr"], seq=s))
    if case["expr"].get("flags"):
        yield dict(case, expr=dict(case["expr"], flags=""))
    if case.get("extra"):
        for i in range(len(case["extra"])):
            c = dict(case, extra=case["extra"][:i] + case["extra"][i + 1:])
            if not c["extra"]:
                del c["extra"]
            yield c
    if case.get("unres"):
        for i in range(len(case["unres"])):
            yield dict(case, unres=case["unres"][:i] + case["unres"][i + 1:])
    if case.get("cls") is not None and case["mode"] == "find":
        yield dict(case, cls=None)


# --------------------------------------------------------------------------
# the heap as the Lean model sees it
# --------------------------------------------------------------------------
def model_heap(tree, extra=()):
    sp = Spec(tree, [], extra=extra)
    n = len(sp.objs)
    return {
        "extra_roots": sp.extra_roots,
        "parent": [sp.parent(o) for o in range(n)],
        "name": [sp.name_of(o) for o in range(n)],
        "conf": [sorted(CONF[sp.objs[o][0]["cls"]]) for o in range(n)],
        "attrs": [[[a, sp.attr(o, a)] for a in NAV_ATTRS if sp.attr(o, a)] for o in range(n)],
    }


def real_heap(model, mm, others=()):
    """the same view taken from the loaded objects (consistency of the harness's
    own heap description with what textX built)"""
    use_repo()
    from textx import textx_isinstance

    objs = model_objects(model) + [o for m in others for o in model_objects(m)]
    num = {id(o): i for i, o in enumerate(objs)}

    def lst(v):
        if v is None:
            return []
        if isinstance(v, list):
            return [num.get(id(x), -1) for x in v]
        return [num.get(id(v), -1)]

    def tgt(v):  # references may be proxies
        return getattr(v, "_tx_obj", v) if type(v).__name__ == "ReferenceProxy" else v

    out = {"parent": [], "name": [], "conf": [], "attrs": []}
    for o in objs:
        out["parent"].append(num[id(o.parent)] if hasattr(o, "parent") else None)
        out["name"].append(o.name if hasattr(o, "name") else None)
        out["conf"].append(sorted(t for t in TYPES if textx_isinstance(o, mm[t])))
        if type(o).__name__ == "Ref":
            out["attrs"].append([])
        else:
            out["attrs"].append([[a, lst(getattr(o, a))] for a in NAV_ATTRS if hasattr(o, a) and lst(getattr(o, a))])
    return out


class Prop(Check):
    ID = "C11"
    LEAN_MODULE = "TextxVerif.Props.C11"
    THEOREMS = [
        "Rrel.C11_sound",
        "Rrel.C11_complete",
        "Rrel.C11_no_postponed",
        "Rrel.C11_terminates",
        "Rrel.C11_resolves",
        "Rrel.C11_precedence",
        "Rrel.C11_path",
        "Rrel.C11_fuel_stable",
        "Rrel.C11_split",
        "Rrel.C11_history",
        "Rrel.C11_delim",
        "Rrel.C11_provider",
        "Rrel.C11_parsed_core",
        "Rrel.C11_complete_tree",
        "Rrel.C11_precedence_tree",
        "Rrel.C11_resolves_tree",
        "Rrel.C11_expr",
        "Rrel.C11_anc_spec",
        "Rrel.C11_anc_order",
        "Rrel.C11_root_spec",
        "Rrel.C11_dots_spec",
        "Rrel.C11_parent_spec",
        "Rrel.C11_starts_spec",
        "Rrel.C11_zeros_spec",
    ]
    DRIVER = "Drivers/Rrel.lean"
    QUICK_CASES = 500
    THOROUGH_CASES = 20000
    PROCS_THOROUGH = 4
    RULE = ("generated RREL expressions (navigation, '~', fixed-name '~', '.', '..', '^', parent(T), '*', brackets, ',', "
            "with and without '+p:') x generated models (<= 15 nested named/unnamed objects of 3 classes, name collisions, "
            "single/list cross references with cycles) x reference names of 1..3 parts, through rrel.find, grammar-attached "
            "RREL and registered RREL strings; plus 15 % '+p:'-focused cases: a prefix of 0..3 name steps over containment and "
            "references (back references to containers: the named objects may repeat), followed by 0..2 steps that are not name "
            "steps (parent(T), '(..)', '(...)', '(..)*', '~ref', '~child', alternatives / repetitions of those), the reference "
            "name chosen by where the target lies relative to the named objects (the last one / a fresh object / one named earlier / "
            "a same-named other object / no named object at all); observed: outcome, target, _tx_path, and the object that attribute "
            "access through the proxy reaches; plus 12 % sessions (histories of one provider object): a language with 2..3 match "
            "rules of different name delimiters (rule parameter split none / '.' / '/' / '::'), 1..3 reference rules (attribute name, "
            "target class, single / list valued, the attribute assigned at one or two places with different match rules, RREL in the "
            "grammar or registered), registrations '*.attr' / 'Rule.attr' / 'Rule.*' / '*.*' / overlapping, as RREL string or as "
            "provider object made from a string or a parsed tree (one object for several patterns; with / without explicit "
            "split_string), 1..3 models loaded one after the other with the same meta-model and 1..4 reference objects each, names of "
            "several parts that mostly resolve; observed per model: target and path of every reference, or which reference was "
            "reported unknown; non-trivial = the reference (a reference of the session) resolves")
    MODELLED = ("hand-modelled: textx/scoping/rrel.py get_next_matches of RRELBase/Navigation/Parent/Dots/Brackets/Sequence/"
                "ZeroOrMore/Path, the visited set of find_object_with_path, find / ReferenceProxy path, the '+m:' start list, "
                "Postponed, name splitting (Rrel.eval in CPS with the visited set threaded, Rrel.find, Rrel.proxyPath, "
                "Rrel.splitName); the provider object RREL.__call__ with its delimiter deduction (explicit split_string, else the split "
                "parameter of the match rule of the reference at hand, else '.') and histories of calls (Rrel.Provider.call / run, "
                "driver op session: every provider object is threaded through its calls in textual order); "
                "tie X: outcome, resolved object and proxy path on the parsed expression tree (node "
                "identities from the real parser) vs rrel.find, grammar-attached RREL and registered RREL strings; the object tree "
                "(classes, names, flags) is sent too and the driver checks RrelSyntax.toCore(object tree) = dumped core, node "
                "identities included, and importURI / use_proxy against the flags; the heap "
                "description the model gets is cross-checked against the loaded objects; not modelled: prevent_doubles "
                "(unobservable, see Rrel.lean), navigation into primitive-valued attributes, RRELImportURI model loading, "
                "local_models of a multi-file repository (only builtin models feed the '+m:' list), textx_isinstance itself "
                "(a parameter of the model), the choice of the provider object for a reference (grammar RREL before registration, "
                "'Rule.attr' before '*.attr' before 'Rule.*' before '*.*': taken from the documentation by the harness), the order in "
                "which textX resolves the references of a model and its retry of Postponed ones (C09)")
    ASSUMPTIONS = [
        "navigated attributes hold objects, lists of objects or None (not primitives); parent chains are acyclic",
        "node identities: proved pairwise distinct for the core of every object tree (RrelSyntax.toCore, C11_*_tree, C11_parsed_core); "
        "that the real objects of a parsed tree carry exactly these identities is checked per case (driver field core_ok)",
        "C11_anc_spec / C11_anc_order / C11_root_spec / C11_dots_spec / C11_parent_spec: parent chains are acyclic and Heap.depth is at "
        "least the number of objects (the driver's heaps: depth = number of objects)",
        "C11_terminates / C11_resolves: the object graph is finite (FinHeap); C11_resolves: no attribute is unresolved",
    ]
    FUEL = 1000000
    PROXY_SHARE = 0.15  # gen_proxy_case cases per general case
    MULTI_SHARE = 0.12  # gen_multi_case sessions per general case

    def gen(self, rng, n, tier):
        k = produced = 0
        while produced < n:
            r = rng.fork(str(k))
            k += 1
            case = gen_case(r)
            yield case
            produced += 1
            if tier != "quick" and case["mode"] == "find" and r.chance(0.04):
                # the same model and expression with every reference name of up to 3 parts
                for ns in all_names():
                    c = dict(case, name=case["split"].join(ns))
                    c.pop("as_list", None)
                    yield c
                    produced += 1
        # '+p:' territory (appended, so that the general cases of a seed stay what they were)
        for k in range(int(n * self.PROXY_SHARE)):
            yield gen_proxy_case(rng.fork("p" + str(k)))
        # histories: provider objects serving many references, models loaded one after the other
        for k in range(int(n * self.MULTI_SHARE)):
            yield gen_multi_case(rng.fork("m" + str(k)))

    def impl(self, case):
        return run_case(case)

    def names(self, case):
        ns = case.get("as_list")
        return ns if ns is not None else split_name(case["name"], case.get("split", "."))

    def model_req(self, case, obs):
        if case["mode"] == "multi":
            return self.multi_req(case, obs)
        if "tree" not in obs:
            return None
        req = {"op": "find", "unres": case.get("unres") or [], "extra": [], "top": obs["tree"]["top"], "o": case["from"],
               "cls": case.get("cls"), "fuel": self.FUEL}
        if "surface" in obs["tree"]:
            req.update(surface=obs["tree"]["surface"], m=obs["tree"]["m"], p=obs["tree"]["p"])
        if case.get("as_list") is not None:
            req["ns"] = list(case["as_list"])
        else:  # the model splits the reference text itself
            req["text"], req["sep"] = case["name"], case.get("split", ".")
        h = model_heap(case["heap"], case.get("extra"))
        roots = h.pop("extra_roots")
        req.update(h)
        if obs["tree"]["m"]:
            req["extra"] = roots
        return req

    def multi_req(self, case, obs):
        if "trees" not in obs or obs.get("res") == "error":
            return None
        calls = [c for c in multi_calls(case) if "inst" in c]
        insts = []
        for c in calls:
            if c["inst"] not in insts:
                insts.append(c["inst"])
        explicit = {c["inst"]: c["explicit"] for c in calls}
        heaps = []
        for h in case["models"]:
            d = model_heap(h)
            d.pop("extra_roots")
            d.update(unres=[], extra=[])
            heaps.append(d)
        return {"op": "session", "fuel": self.FUEL,
                "providers": [dict({"top": obs["trees"][i]["top"], "split": explicit[i], "p": obs["trees"][i]["p"]},
                                   **({"surface": obs["trees"][i]["surface"]} if "surface" in obs["trees"][i] else {}))
                              for i in insts],
                "heaps": heaps,
                "calls": [{"prov": insts.index(c["inst"]), "h": c["m"], "o": c["o"], "text": c["text"],
                           "rule_split": c["rule_split"], "cls": c["cls"]} for c in calls]}

    def multi_compare(self, case, obs, out):
        if "err" in out:
            return f"model did not evaluate the request: {out}"
        if out.get("core_ok") is False:
            return "toCore of a provider's object tree differs from the dumped core (alternatives / node identities / use_proxy)"
        calls = [c for c in multi_calls(case) if "inst" in c]
        if len(out.get("results", [])) != len(calls):
            return f"model answered {len(out.get('results', []))} of {len(calls)} references"
        model = {(c["m"], c["o"], c["t"]): r for c, r in zip(calls, out["results"])}
        for mi, mo in enumerate(obs["models"]):
            if mo["res"] == "error":
                return f"model {mi}: implementation raised {mo.get('type')} ({mo.get('msg')})"
        for c, d in multi_observed(case, obs):
            r = model[(c["m"], c["o"], c["t"])]
            where = f"model {c['m']}, reference {c['text']!r} of object {c['o']} (provider {c['inst']})"
            if r["sep"] != c["split"]:
                return f"{where}: delimiter differs: documented {c['split']!r} model {r['sep']!r}"
            if d.get("res") != r.get("res"):
                return f"{where}: outcome differs: impl {d.get('res')} {d.get('obj')} model {r.get('res')} {r.get('obj')}"
            if r["res"] == "found":
                if d["obj"] != r["obj"]:
                    return f"{where}: resolved object differs: impl {d['obj']} model {r['obj']}"
                if d.get("path") is not None and d["path"] != r["proxy"]:
                    return f"{where}: proxy path differs: impl {d['path']} model {r['proxy']}"
        return None

    def compare(self, case, obs, out):
        if case["mode"] == "multi":
            return self.multi_compare(case, obs, out)
        if "err" in out:
            return f"model did not evaluate the request: {out}"
        if out.get("core_ok") is False:
            return "toCore of the parsed object tree differs from the dumped core (alternatives / node identities)"
        if out.get("flags_ok") is False:
            return "importURI / use_proxy derived from the flags differ between the implementation and the model"
        if obs.get("res") == "error":
            return f"implementation raised {obs.get('type')} ({obs.get('msg')}), model: {out}"
        if obs.get("res") != out.get("res"):
            return f"outcome differs: impl {obs.get('res')} {obs.get('obj')} model {out.get('res')} {out.get('obj')}"
        if out["res"] == "found":
            if obs["obj"] != out["obj"]:
                return f"resolved object differs: impl {obs['obj']} model {out['obj']}"
            if obs.get("path") is not None and obs["path"] != out["proxy"]:
                return f"proxy path differs: impl {obs['path']} model {out['proxy']}"
        return None

    def oracle(self, case, obs):
        return check_property(case, obs)

    def nontrivial(self, case, obs):
        if case["mode"] == "multi":
            return any(d.get("res") == "found" for _, d in multi_observed(case, obs))
        return obs.get("res") == "found"

    def shrink(self, case):
        return shrink_case(case)

    def sample_view(self, case, obs):
        if case["mode"] == "multi":
            return {"mode": "multi", "grammar": multi_grammar(case),
                    "registered": [[pat, case["provs"][pi]["how"], render_expr(case["provs"][pi]["expr"]),
                                    case["provs"][pi].get("split")] for pat, pi in case["reg"]],
                    "model_texts": [render_body(h, 0) for h in case["models"]],
                    "impl": obs.get("models")}
        return {"mode": case["mode"], "expr": obs.get("expr"), "model_text": render_body(case["heap"], 0),
                "builtin_models": [render_body(t, 0) for t in case.get("extra") or []],
                "unresolved": case.get("unres") or [],
                "from": case["from"], "name": case["name"], "cls": case.get("cls"),
                "impl": {k: obs.get(k) for k in ("res", "obj", "path", "fwd", "type")}}

    def extra_search(self, rng, tier, broken):
        n = 800 if tier == "quick" else 20000
        return [gen_case(rng.fork("x" + str(k))) for k in range(n)] + \
            [gen_proxy_case(rng.fork("xp" + str(k))) for k in range(int(n * self.PROXY_SHARE))] + \
            [gen_multi_case(rng.fork("xm" + str(k))) for k in range(int(n * self.MULTI_SHARE))]
