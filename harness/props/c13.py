"""C13 — object processors run once each, bottom-up, on a fully linked model.

Implementation side: generated grammars (harness/procgen.py: nested, recursive and
abstract containment, abstract rules with match alternatives, references with
postponement schedules, user classes, 1..3 model files) with recording processors
on all or a random subset of the rules, some of them returning replacement values
(falsy ones, the object itself, one of its attribute values).  The model as it is
before the first processor call is dumped and replayed through the Lean walk
(`Proc.walk` / `Proc.finish`, Drivers/Proc.lean); call log with per-call object
snapshots and the final model are compared.  The oracle decides the property from
the generated object tree alone.
"""
from harness import procgen as pg
from harness.core import Check, use_repo
from harness.procrun import VALUE_TAG, VALUES, Run, vkey


def case_objs(case):
    """uid -> (file, case object)"""
    out = {}
    for k, f in enumerate(case["files"]):
        for o in pg.walk_objs(f["root"]):
            out[o["uid"]] = (k, o)
    return out


def descendants(o):
    out = []
    for v in o["vals"].values():
        for x in pg.walk_objs(v):
            out.append(x["uid"])
    return out


class Prop(Check):
    ID = "C13"
    LEAN_MODULE = "TextxVerif.Props.C13"
    THEOREMS = [
        "Proc.C13_log_spec",
        "Proc.C13_log_script_indep",
        "Proc.C13_once",
        "Proc.C13_once_exactly",
        "Proc.C13_once_only",
        "Proc.C13_abstract",
        "Proc.C13_abstract_after_own",
        "Proc.C13_children_first",
        "Proc.C13_children_first_idx",
        "Proc.C13_replace",
        "Proc.C13_replace_obj",
        "Proc.C13_replace_own",
        "Proc.C13_replace_declared",
        "Proc.C13_replace_none",
        "Proc.C13_snapshot",
        "Proc.C13_phase",
        "Proc.C13_phase_models",
        "Proc.C13_models_own_metamodel",
        "Proc.C13_finish_single",
        "Proc.C13_calls_iff",
        "Proc.C13_calls_nodup",
        "Proc.C13_called_iff",
        "Proc.C13_abstract_once_exactly",
        "Proc.C13_abstract_only",
        "Proc.C13_no_call_twice",
        "Proc.C13_child_before_container",
        "Proc.C13_child_before_container_idx",
        "Proc.C13_child_before_container_calls",
        "Proc.C13_replace_keep",
        "Proc.C13_linked_before_processing",
        "Proc.C13_resolved_precede_processing",
        "Proc.C13_unlinked_no_processing",
        "Proc.C13_root_kept",
        "Proc.C13_root_calls",
        "Proc.C13_model_calls_own",
        "Proc.C13_model_calls_none",
        "Proc.C13_model_called_iff",
        "Proc.C13_model_calls_indep",
        "Proc.C13_load_model_calls_own",
    ]
    DRIVER = "Drivers/Proc.lean"
    QUICK_CASES = 440
    THOROUGH_CASES = 12000
    RULE = ("generated grammars with 2..5 common rules, 0..3 abstract rules (nested, with match-rule alternatives, "
            "wrapped alternatives), recursive containment, references with postponement schedules, user classes, "
            "1..3 files; processors on all rules, a random subset, the abstract rules only or no rule at all (also: "
            "register_obj_processors never called), 15% of the calls return a replacement; "
            "the grammar in one file or spread over up to 12 files importing each other (rules reachable through a "
            "chain of imports only); the observed load alone or after a history: 1..3 metamodels of the same grammar "
            "built in any order with the same (or fresh) user classes, earlier loads with any of them (successful, or "
            "failing with a syntax error / an unresolvable reference / a raising processor), registrations that are "
            "replaced, a model repository that keeps the models of earlier loads, imported files that belong to "
            "another metamodel of the history (registered language; 70% of the multi-file loads without repository), "
            "each metamodel of a load with its own registration profile, drawn as a contrast (main none / other "
            "some, main some / other none, complementary, equal, independent), its own match processors and its own "
            "subset of the user classes; "
            "non-trivial = at least 3 processor calls and (a replacement took effect or an object sits in an "
            "abstract-typed attribute whose rule has a processor)")
    MODELLED = ("hand-modelled: model.py call_obj_processors (Proc.walk/walkFields/walkSlot/walkItems/objStep) and the "
                "load tail model.py:971-987 (Proc.finish, Proc.finishMM: every model walked with its own metamodel's "
                "registrations) behind the resolution loop of parse_tree_to_objgraph (Proc.loadEvents over LinkLoc.run: "
                "the references of every file with their postponement schedule -> the resolutions, or no processing "
                "at all); tie X: op objproc — model state before the first processor "
                "call + registration table per model + return-value script -> event sequence, per-call snapshots, final "
                "model; the history of a load is not an input of the model (the walk is a function of the model and the "
                "registrations of its metamodel): the implementation is run through generated histories and compared "
                "with the history-free model; the guard `fully qualified class name in metamodel` is true for every "
                "object textX builds with that metamodel and is not modelled; "
                "not exhibited: processors that mutate other parts of the model or load models themselves, "
                "metamodels of different grammars in one load")
    ASSUMPTIONS = [
        "models have the shape textX builds (Proc.wf: objects only in containment attributes, attribute typed by a "
        "common rule holds that class, lists under many-attributes) — evaluated by the driver on every case",
        "object ids are distinct (they are positions of distinct parse nodes)",
        "processors only record and return scripted values",
    ]

    # ------------------------------------------------------------------ cases
    def gen(self, rng, n, tier):
        for i in range(n):
            r = rng.fork(f"case{i}")
            case = pg.gen_case(r)
            self.decorate(case, r)
            yield case

    REG_MODES = [("all", 5), ("subset", 4), ("abs-only", 1), ("none", 1)]

    @staticmethod
    def rule_names(schema):
        return [x["name"] for x in schema["rules"]] + [a["name"] for a in schema["abstracts"]]

    def reg_profile(self, r, schema, mode, against=()):
        """the rules one metamodel registers an object processor for.  "recording processors registered on
        every rule" is the full profile; a metamodel of a load may also have processors on some rules only,
        on the abstract rules only, or none at all — and the metamodels of one load each have their own."""
        rules = self.rule_names(schema)
        if mode == "all":
            return list(rules)
        if mode == "subset":
            return [x for x in rules if r.chance(0.6)]
        if mode == "abs-only":
            return [a["name"] for a in schema["abstracts"]]
        if mode == "complement":
            return [x for x in rules if x not in against]
        if mode == "same":
            return list(against)
        return []

    def decorate(self, case, r):
        schema = case["schema"]
        mode = r.weighted(self.REG_MODES)
        case["reg"] = self.reg_profile(r, schema, mode)
        case["match_reg"] = [m["name"] for m in schema["matches"] if r.chance(0.5)]
        if mode == "none" and r.chance(0.6):
            case["match_reg"] = []  # no processor of any kind
        case["layout"] = r.below(1 << 30)
        self.gen_config(case, r.fork("config"))
        self.gen_history(case, r.fork("history"))  # may re-draw the registrations: profiles of a load contrast
        self.gen_script(case, r.fork("script"))
        # postponement: a round that resolves nothing ends the loop (C09) -> contiguous waits
        self.rerank(case)

    def gen_script(self, case, r):
        """scripted return values: for calls the registrations of the object's own metamodel entitle."""
        rend = pg.render(case, case["layout"])
        rm = pg.rule_map(case["schema"])
        fregs = self.file_regs(case)
        script = []
        for uid, o in sorted(rend.objs.items()):
            for rule in dict.fromkeys([o["rule"], o["decl"]]):
                if rule in fregs[o["file"]] and r.chance(0.15):
                    kind = r.weighted([("v", 6), ("s", 1), ("f", 2)])
                    if kind == "v":
                        script.append([rule, uid, ["v", r.below(len(VALUES))]])
                    elif kind == "s":
                        script.append([rule, uid, ["s"]])
                    else:
                        # `return obj.attr` (expression reduction): a single containment attribute, or a
                        # mandatory primitive one (an absent optional primitive may or may not be None)
                        cands = [p["attr"] for p in rm[o["rule"]]["parts"]
                                 if (p.get("kind") == "cont" and p["mult"] in ("one", "opt"))
                                 or (p.get("kind") == "prim" and p["mult"] == "one")]
                        if cands:
                            script.append([rule, uid, ["f", r.choice(cands)]])
        case["script"] = script

    # "For any grammar": the grammar may be spread over files that import each other.
    # "For any … model": the load may be one of many — other metamodels built from the same grammar
    # with the same user classes, earlier (also failing) loads, replaced registrations, a model
    # repository that keeps the models of earlier loads.
    def gen_config(self, case, r):
        schema = case["schema"]
        # one group of mutually recursive rules per file: are there model objects of rules that the
        # main grammar file reaches through a chain of imports only?  Then mostly use that split.
        fine = pg.split_levels(schema, r.fork("fine"), 12)
        if self.chained_objects(case, fine) and r.chance(0.75):
            case["gsplit"] = {"levels": fine}
        elif r.chance(0.25):
            lev = pg.split_levels(schema, r, r.weighted([(2, 2), (3, 3), (4, 1)]))
            if max(lev.values()) > 0:
                case["gsplit"] = {"levels": lev}
        if case.get("from_file") and r.chance(0.35):
            case["grepo"] = True

    @staticmethod
    def chained_objects(case, lev):
        """model objects whose rule is defined in a grammar file that g0 does not import itself."""
        uses = pg.rule_uses(case["schema"])
        direct = {0} | {lev[y] for x, ys in uses.items() if lev[x] == 0 for y in ys}
        return [x["uid"] for f in case["files"] for x in pg.walk_objs(f["root"]) if lev[x["rule"]] not in direct]

    # contrast of the registration profiles of the metamodels of one load (main metamodel = label 0,
    # the metamodels that own imported files): whatever one of them registers must not matter to the others
    PAIRS = [("main-none", 3), ("other-none", 2), ("complement", 2), ("same", 1), ("free", 4)]

    def gen_history(self, case, r):
        nfiles = len(case["files"])
        schema = case["schema"]
        repo = bool(case.get("grepo")) and nfiles > 1  # a repository only matters when there were earlier loads
        # imported files that belong to another metamodel (registered as a language for their file extension):
        # only files that do not lead back to the main file (which is loaded with metamodel 0)
        eligible = [k for k in range(1, nfiles) if 0 not in self.closure(case, k)]
        want_mm = bool(eligible) and not case.get("grepo") and r.chance(0.7)
        want_hist = r.chance(0.55)
        if not (want_hist or repo or want_mm):
            if not case["reg"] and not case["match_reg"] and r.chance(0.5):
                case["history"] = {"steps": [["build", 0, True]]}  # register_obj_processors is never called
            return
        rules = self.rule_names(schema)
        nother = r.weighted([(0, 2), (1, 5), (2, 2)])
        if want_mm:
            nother = max(1, nother)
        labels = r.shuffle(list(range(1 + nother)))
        others = [lab for lab in labels if lab != 0]
        # which metamodel owns which imported file
        mmfile = {}
        if want_mm:
            mmfile = {str(k): r.choice(others) for k in eligible if r.chance(0.7)}
            if not mmfile:
                mmfile[str(r.choice(eligible))] = r.choice(others)
            # a file without a language of its own is loaded with the metamodel of the file that imports it
            # first; to keep "which metamodel" decidable such files are imported by files of metamodel 0 only
            changed = True
            while changed:
                changed = False
                for k, lab in list(mmfile.items()):
                    for j in case["files"][int(k)]["imports"]:
                        if j != 0 and str(j) not in mmfile:
                            mmfile[str(j)], changed = lab, True
        owners = sorted(set(mmfile.values()))
        # registration profiles: label -> rules (None: register_obj_processors is never called)
        prof = {}
        pair = r.weighted(self.PAIRS) if owners else "free"
        if pair == "main-none":
            case["reg"] = []
            if r.chance(0.8):
                case["match_reg"] = []
        elif pair == "other-none":
            if not case["reg"]:
                case["reg"] = self.reg_profile(r, schema, r.weighted([("all", 2), ("subset", 1)]))
        elif pair == "complement":
            if len(case["reg"]) in (0, len(rules)):
                case["reg"] = self.reg_profile(r, schema, "subset")
        for lab in others:
            if lab in owners and pair != "free":
                mode = {"main-none": r.weighted([("all", 3), ("subset", 2), ("abs-only", 1)]),
                        "other-none": "none", "complement": "complement", "same": "same"}[pair]
            else:
                mode = r.weighted(self.REG_MODES + [("never", 2)])
            prof[lab] = None if mode == "never" else self.reg_profile(r, schema, mode, against=case["reg"])
            if prof[lab] == [] and r.chance(0.4):
                prof[lab] = None
        # match processors per metamodel (default: the same rules as the main metamodel)
        mregs = {}
        for lab in others:
            if prof[lab] is not None and r.chance(0.5):
                mregs[str(lab)] = [m["name"] for m in schema["matches"] if r.chance(0.5)]
            elif prof[lab] == []:
                mregs[str(lab)] = []
        if mregs:
            case["match_regs"] = mregs
        # user classes per metamodel (default: every user-class rule of the case in every metamodel)
        users = {}
        if schema["user"] and len(labels) > 1 and r.chance(0.65 if owners else 0.3):
            upair = r.weighted([("main-none", 3), ("other-none", 2), ("free", 3)])
            for lab in labels:
                if upair == "free":
                    kind = r.weighted([("all", 2), ("none", 2), ("some", 2)])
                else:
                    kind = "none" if (lab == 0) == (upair == "main-none") else r.weighted([("all", 3), ("some", 1)])
                if kind != "all":
                    users[lab] = [u for u in schema["user"] if kind == "some" and r.chance(0.5)]
        timed, built = [], {}
        for j, lab in enumerate(labels):
            built[lab] = 100 * j
            step = ["build", lab, True if lab == 0 else r.chance(0.85)]
            if lab in users:
                step.append(users[lab])
            timed.append((100 * j, len(timed), step))
            if lab != 0 and prof[lab] is not None:
                timed.append((100 * j, len(timed), ["reg", lab, prof[lab]]))
        end = 100 * len(labels)
        tfinal = r.randint(built[0] + 1, end)
        replaced = r.chance(0.3)
        if replaced:  # a registration that is replaced by the final one
            timed.append((r.randint(built[0] + 1, tfinal), len(timed), ["reg", 0, [x for x in rules if r.chance(0.5)]]))
        if replaced or case["reg"] or case["match_reg"] or r.chance(0.5):
            timed.append((tfinal, len(timed), ["reg", 0, None]))
        for _ in range(r.weighted([(0, 2), (1, 4), (2, 3)])):
            lab = r.choice(labels)
            kind = r.weighted([("ok", 6), ("syntax", 1), ("ref", 1), ("proc", 1)])
            main = r.below(nfiles) if nfiles > 1 and r.chance(0.5) else 0
            timed.append((r.randint(built[lab] + 1, end + 20), len(timed), ["load", lab, kind, main]))
        if repo and r.chance(0.8):  # an imported file was loaded before (as a main model): its model is kept
            timed.append((r.randint(built[0] + 1, end + 20), len(timed), ["load", 0, "ok", r.randint(1, nfiles - 1)]))
        case["history"] = {"steps": [st for _t, _n, st in sorted(timed, key=lambda x: x[:2])]}
        if mmfile:
            self.set_mmfile(case, mmfile)

    @staticmethod
    def set_mmfile(case, mmfile):
        """assign imported files to metamodels (file number -> label) and name them accordingly in the
        import statements."""
        from harness.procrun import EXT

        if mmfile:
            case["mmfile"] = mmfile
        else:
            case.pop("mmfile", None)
        for f in case["files"]:
            for imp in f["root"]["vals"].get("imports", []) if len(case["files"]) > 1 else []:
                j = int(imp["vals"]["importURI"]["lit"].strip('"')[1:].split(".")[0])
                imp["vals"]["importURI"]["lit"] = f'"f{j}.{EXT[mmfile.get(str(j), 0)]}"'

    @staticmethod
    def regs(case):
        """label -> rules with a processor when the observed load starts (the last registration counts)."""
        out = {}
        for st in Prop.steps(case):
            if st[0] == "build":
                out.setdefault(st[1], [])
            elif st[0] == "reg":
                out[st[1]] = list(case["reg"]) if st[2] is None else list(st[2])
        return out

    @staticmethod
    def file_regs(case):
        """file number -> rules with a processor in the metamodel the file's model belongs to."""
        regs = Prop.regs(case)
        mmfile = case.get("mmfile") or {}
        return {k: regs.get(mmfile.get(str(k), 0), []) for k in range(len(case["files"]))}

    @staticmethod
    def file_label(case, k):
        """label of the metamodel the model of file k belongs to."""
        return (case.get("mmfile") or {}).get(str(k), 0)

    @staticmethod
    def users(case):
        """label -> rules the metamodel has a user class for."""
        return {st[1]: list(case["schema"]["user"]) if len(st) < 4 or st[3] is None else list(st[3])
                for st in Prop.steps(case) if st[0] == "build"}

    @staticmethod
    def cn(name, label):
        """class name in the Lean request (harness.procrun.Run.cname): classes are per metamodel."""
        return name if not label else f"{name}@{label}"

    def req_classes(self, case, obs):
        """class table of the Lean request: the classes seen in the models, then the registered ones."""
        classes = list(obs["classes"])
        regs = self.regs(case)
        for lab in dict.fromkeys([0] + [self.file_label(case, k) for k in range(len(case["files"]))]):
            for r in regs.get(lab, []):
                if self.cn(r, lab) not in classes:
                    classes.append(self.cn(r, lab))
        return classes

    DEFAULT_STEPS = [["build", 0, True], ["reg", 0, None]]

    @staticmethod
    def steps(case):
        return (case.get("history") or {}).get("steps") or Prop.DEFAULT_STEPS

    @staticmethod
    def closure(case, k):
        seen, todo = {k}, [k]
        while todo:
            for j in case["files"][todo.pop()]["imports"]:
                if j not in seen:
                    seen.add(j)
                    todo.append(j)
        return seen

    @staticmethod
    def new_files(case, obs):
        """files whose models are built by the observed load: all files the main file includes, except
        those whose model object already came out of an earlier successful load (a model repository of the
        metamodel keeps them; their objects were processed then)."""
        return sorted(Prop.closure(case, 0) - set(obs.get("kept", [])))

    @staticmethod
    def rerank(case):
        """postponement counts without gaps, file by file: a resolution round that resolves nothing ends
        the loop (C09), and the models of some files may be kept from an earlier load — whatever subset of
        the files a load resolves, their counts must start at 0 and be contiguous."""
        for k in range(len(case["files"])):
            refs = list(Prop.case_refs(case, [k]))
            rank = {w: i for i, w in enumerate(sorted({r["wait"] for r in refs}))}
            for r in refs:
                r["wait"] = rank[r["wait"]]

    @staticmethod
    def case_refs(case, files=None):
        for k, f in enumerate(case["files"]):
            if files is not None and k not in files:
                continue
            for o in pg.walk_objs(f["root"]):
                for v in o["vals"].values():
                    for x in (v if isinstance(v, list) else [v]):
                        if isinstance(x, dict) and "ref" in x:
                            yield x

    # ------------------------------------------------------------------ implementation
    def impl(self, case):
        use_repo()
        from textx.exceptions import TextXError

        script = {(r, u): b for r, u, b in case.get("script", [])}
        run = Run(case, case["reg"], script, match_reg=case.get("match_reg", []))
        obs = {}
        try:
            run.phase = "history"
            obs["hist"] = []
            from textx.scoping import get_included_models

            kept_roots = []  # the models earlier successful loads returned (kept alive: identity matters)
            steps = self.steps(case)
            last = {st[1]: i for i, st in enumerate(steps) if st[0] == "reg"}
            for i, st in enumerate(steps):
                if st[0] == "build":
                    mm = run.new_metamodel(st[1], shared=st[2], users=st[3] if len(st) > 3 else None)
                    if st[1] == 0:
                        run.mm = mm
                    run.providers(mm)
                elif st[0] == "reg":
                    run.processors(mm=run.mms[st[1]], reg=case["reg"] if st[2] is None else st[2], label=st[1],
                                   replaced=i != last[st[1]], match_reg=(case.get("match_regs") or {}).get(str(st[1])))
                elif st[0] == "load":
                    run.fail_refs, run.fail_proc = st[2] == "ref", st[2] == "proc"
                    try:
                        hm = run.load(mm=run.mms[st[1]], main=st[3], broken=st[2] == "syntax")
                        kept_roots.extend(get_included_models(hm))
                        obs["hist"].append("ok")
                    except Exception as e:  # noqa: BLE001
                        obs["hist"].append(type(e).__name__ + ": " + str(e)[:200])
                    finally:
                        run.fail_refs = run.fail_proc = False
            run.begin_observation()
            try:
                model = run.load()
                obs["outcome"] = "ok"
            except TextXError as e:
                obs["outcome"] = "error"
                obs["err"] = {"cls": type(e).__name__, "msg": str(e)[:300]}
                model = None
            except Exception as e:  # noqa: BLE001 - everything the code under test raises is an observation
                obs["outcome"] = "other"
                obs["err"] = {"cls": type(e).__name__, "msg": str(e)[:300]}
                model = None
            if model is not None:
                for m in get_included_models(model):
                    run.capture(m)  # models in which no processor ran: unchanged
                obs["kept"] = sorted(k for k, m in run.models.items() if any(m is x for x in kept_roots))
                obs["final"] = {}
                for k, m in sorted(run.models.items()):
                    run.cur_label = run.owner.get(k, 0)  # class ids are per metamodel
                    obs["final"][str(k)] = run.deep(m, meta=False)
                run.cur_label = 0
                obs["slots"] = {str(u): run.snapshot(o) for u, o in sorted(run.real.items())}
                obs["linked_after"] = list(run.linked(list(run.models.values())))
            obs["events"] = run.finish_events()
            obs["pre"] = {str(k): v for k, v in sorted(run.pre.items())}
            obs["classes"] = list(run.classes)
            obs["attrs"] = list(run.attrs)
            obs["kinds"] = []
            for name in run.classes:
                t = run.class_of(name.split("@")[0])._tx_type
                obs["kinds"].append({"common": 0, "abstract": 1, "match": 2}[t])
            obs["tags"] = dict(run.tags)
        finally:
            run.cleanup()
        return obs

    # ------------------------------------------------------------------ Lean side
    def model_req(self, case, obs):
        if obs["outcome"] != "ok":
            return None
        attrs = obs["attrs"]
        fregs = self.file_regs(case)
        classes = self.req_classes(case, obs)
        kinds = list(obs["kinds"])
        schema = case["schema"]
        absn = {a["name"] for a in schema["abstracts"]}
        for name in classes[len(kinds):]:
            kinds.append(1 if name.split("@")[0] in absn else 0)
        script = []
        new = self.new_files(case, obs)
        uid_file = self.uid_files(case)
        for rule, uid, beh in case.get("script", []):
            if uid_file.get(uid) not in new:
                continue
            rule = self.cn(rule, self.file_label(case, uid_file[uid]))
            if rule not in classes:
                continue
            if beh[0] == "v":
                ret = ["v", VALUE_TAG[vkey(VALUES[beh[1]])]]
            elif beh[0] == "s":
                ret = ["s"]
            else:
                if beh[1] not in attrs:
                    continue
                ret = ["f", attrs.index(beh[1])]
            script.append([classes.index(rule), uid, ret])
        order = self.model_order(obs, new)
        nres = sum(1 for e in obs["events"] if e[0] == "resolve")
        # the cross-references of every file the load builds, in text order, with their postponement counts:
        # the resolutions are computed by the model of the resolution loop (Proc.loadEvents), not handed in
        rend = pg.render(case, case.get("layout", 0))
        link = []
        for k in order:
            refs = sorted((off, i, w) for i, (fk, off, _s, _a, _t, w) in enumerate(rend.refs) if fk == k)
            link.append([[i, off, w] for off, i, w in refs])
        return {
            "op": "objproc",
            "kinds": kinds,
            "reg": [classes.index(r) for r in self.regs(case).get(0, [])],
            "regs": [[classes.index(self.cn(r, self.file_label(case, k))) for r in fregs[k]] for k in order],
            "user": [classes.index(self.cn(u, lab)) for lab, us in sorted(self.users(case).items()) for u in us
                     if self.cn(u, lab) in classes],
            "script": script,
            "resolves": list(range(nres)),
            "link": link,
            "models": [obs["pre"][str(k)] for k in order],
        }

    @staticmethod
    def model_order(obs, new):
        """the files whose models the observed load builds (`new`), in the order textX walks them:
        by first processor call, then the rest."""
        order = []
        uid_file = {}
        for k, tree in obs["pre"].items():
            stack = [tree]
            while stack:
                v = stack.pop()
                if isinstance(v, list):
                    stack.extend(v)
                elif isinstance(v, dict) and "o" in v:
                    uid_file[v["o"]] = int(k)
                    stack.extend(f[4] for f in v["f"])
        for e in obs["events"]:
            if e[0] == "proc" and uid_file.get(e[2]) is not None and uid_file[e[2]] not in order:
                order.append(uid_file[e[2]])
        order = [k for k in order if k in new]
        for k in sorted(int(x) for x in obs["pre"]):
            if k not in order and k in new:
                order.append(k)
        return order

    def compare(self, case, obs, out):
        if "err" in out:
            return f"Lean model rejects the request: {out}"
        classes = [c.split("@")[0] for c in self.req_classes(case, obs)]
        order = self.model_order(obs, self.new_files(case, obs))
        alien = [e[1:] for e in obs["events"] if e[0] == "alien"]
        if alien:
            return f"calls of processors that the metamodel of the model has no registration for: {alien[:5]}"
        # processor calls with snapshots, model by model in walk order
        want = []
        for log in out["logs"]:
            for rule, uid, snap in log:
                want.append([classes[rule], uid, snap])
        got = [[e[1], e[2], e[6]] for e in obs["events"] if e[0] == "proc"]
        if got != want:
            for i, (g, w) in enumerate(zip(got, want)):
                if g != w:
                    return f"processor call {i}: implementation {g}, model {w}"
            return f"processor calls: implementation {len(got)}, model {len(want)}"
        # user-class initialisation: same objects, same order per model
        want_i = sorted(e[2] for e in out["events"] if e[0] == "i")
        got_i = sorted(e[1] for e in obs["events"] if e[0] == "init")
        if want_i != got_i:
            return f"user-class initialisations: implementation {got_i}, model {want_i}"
        per_model = {}
        for e in out["events"]:
            if e[0] == "i":
                per_model.setdefault(order[e[1]], []).append(e[2])
        uid_file = self.uid_files(case)
        got_per = {}
        for e in obs["events"]:
            if e[0] == "init":
                got_per.setdefault(uid_file.get(e[1]), []).append(e[1])
        if got_per != per_model:
            return f"initialisation order per model: implementation {got_per}, model {per_model}"
        # the references resolved by the loop: the same ones, each once (order among them is not the property's)
        rend = pg.render(case, case.get("layout", 0))
        ref_id = {(fk, off): i for i, (fk, off, _s, _a, _t, _w) in enumerate(rend.refs)}
        got_r = sorted(ref_id.get((e[1], e[2]), -1) for e in obs["events"] if e[0] == "resolve")
        want_r = sorted(e[1] for e in out["events"] if e[0] == "r")
        if got_r != want_r:
            return f"resolved references: implementation {got_r}, model {want_r}"
        # phase shape: resolve* init* proc* (match-processor events are construction-time)
        kinds_impl = [e[0] for e in obs["events"] if e[0] not in ("match", "alien")]
        kinds_model = [{"r": "resolve", "i": "init", "p": "proc"}[e[0]] for e in out["events"]]
        if kinds_impl != kinds_model:
            return f"event phases: implementation {self.compress(kinds_impl)}, model {self.compress(kinds_model)}"
        finals = [obs["final"][str(k)] for k in order]
        if finals != out["finals"]:
            return f"final model: implementation {finals}, model {out['finals']}"
        return None

    @staticmethod
    def compress(kinds):
        out = []
        for k in kinds:
            if out and out[-1][0] == k:
                out[-1][1] += 1
            else:
                out.append([k, 1])
        return out

    @staticmethod
    def uid_files(case):
        return {u: k for u, (k, _o) in case_objs(case).items()}

    # ------------------------------------------------------------------ oracle
    def expected_slots(self, case, rend, obs):
        """uid -> {attr: expected shallow content after the walk}, from the statement:
        a non-None return value replaces the object in its containing attribute (own-rule
        processor first, then the declared rule's), nothing else changes."""
        schema = case["schema"]
        rm = pg.rule_map(schema)
        fregs = self.file_regs(case)
        objs = case_objs(case)
        new = set(self.new_files(case, obs))  # objects of models kept from earlier loads are not processed again
        script = {(r, u): b for r, u, b in case.get("script", []) if objs[u][0] in new}
        matchn = {m["name"] for m in schema["matches"]} | set(pg.BASES)
        memo = {}

        def ret_value(rule, uid):
            b = script.get((rule, uid))
            if b is None or rule not in fregs[objs[uid][0]]:
                return None
            if b[0] == "v":
                return {"p": VALUE_TAG[vkey(VALUES[b[1]])]}
            if b[0] == "s":
                return {"o": uid}
            v = slots_of(uid).get(b[1])
            return {"p": "*"} if v == "prim" else v  # None -> no replacement

        def slot_value(v, decl):
            """expected content of a slot that originally holds case value v."""
            if v is None:
                return None
            if isinstance(v, dict) and "uid" in v:
                uid = v["uid"]
                if decl in matchn:
                    return {"o": uid}
                own = ret_value(v["rule"], uid) if v["rule"] != decl else None
                if own is not None:
                    return own
                d = ret_value(decl, uid)
                if d is not None:
                    return d
                return {"o": uid}
            return {"p": "*"}  # a primitive: value as converted by textX (not this property's business)

        def slots_of(uid):
            if uid in memo:
                return memo[uid]
            _k, o = objs[uid]
            res = {}
            for p in rm[o["rule"]]["parts"]:
                if "lit" in p:
                    continue
                a, kind, m = p["attr"], p["kind"], p["mult"]
                v = o["vals"].get(a)
                if kind in ("ref",):
                    res[a] = "ref"
                elif kind in ("bool", "prim"):
                    res[a] = "prim"
                elif m in ("one", "opt"):
                    res[a] = slot_value(v, p.get("type"))
                else:
                    res[a] = [slot_value(x, p.get("type")) for x in (v or [])]
            memo[uid] = res
            return res

        return {uid: slots_of(uid) for uid in objs}

    @staticmethod
    def slot_matches(got, want, auto_init=True):
        if want == "ref":
            return True
        if want == "prim":  # untouched by object processors; its value is not this property's business
            return got is None or (isinstance(got, dict) and "p" in got) or (
                isinstance(got, list) and all(isinstance(g, dict) and "p" in g for g in got))
        if isinstance(want, list):
            if got is None:
                return want == []
            return isinstance(got, list) and len(got) == len(want) and all(
                Prop.slot_matches(g, w) for g, w in zip(got, want))
        if want is None:
            return got is None
        if isinstance(want, dict) and want.get("p") == "*":
            return isinstance(got, dict) and "p" in got
        return got == want

    def oracle(self, case, obs):
        if obs["outcome"] != "ok":
            return f"loading failed: {obs['err']['cls']}: {obs['err']['msg']}"
        schema = case["schema"]
        rend = pg.render(case, case.get("layout", 0))
        objs = case_objs(case)
        fregs = self.file_regs(case)  # the registrations that count for the objects of each file
        reg = list(dict.fromkeys(r for rs in fregs.values() for r in rs))
        for st, res in zip([st for st in self.steps(case) if st[0] == "load"], obs.get("hist", [])):
            if st[2] == "ok" and res != "ok":
                return f"an earlier load of the history ({st}) failed: {res}"
        new = set(self.new_files(case, obs))
        commons = {r["name"] for r in schema["rules"]}
        abstracts = {a["name"] for a in schema["abstracts"]}
        # the model must be the generated object tree (else nothing below can be judged)
        seen = set()
        for k, tree in obs["pre"].items():
            stack = [tree]
            while stack:
                v = stack.pop()
                if isinstance(v, list):
                    stack.extend(v)
                elif isinstance(v, dict) and "o" in v:
                    seen.add(v["o"])
                    stack.extend(f[4] for f in v["f"] if f[1])
        if seen != set(objs):
            return (f"the loaded model does not consist of the generated objects: missing "
                    f"{sorted(set(objs) - seen)[:5]}, unexpected {sorted(seen - set(objs))[:5]}")
        procs = [(i, e) for i, e in enumerate(obs["events"]) if e[0] == "proc"]
        alien = [e[1:] for e in obs["events"] if e[0] == "alien"]
        if alien:
            return (f"processors that are not registered with the metamodel in use ran during the load "
                    f"(registration, rule, object): {alien[:5]}")
        # (1) once per object of a common rule / (2) once per object stored under an abstract rule
        for rule in reg:
            calls = sorted(e[2] for _i, e in procs if e[1] == rule)
            if rule in commons:
                want = sorted(u for u, (k, o) in objs.items() if o["rule"] == rule and k in new and rule in fregs[k])
                if calls != want:
                    return f"processor of common rule {rule} ran on objects {calls}, the model objects of that rule are {want}"
            elif rule in abstracts:
                want = sorted(u for u, o in rend.objs.items()
                              if o["decl"] == rule and o["parent"] is not None and o["file"] in new
                              and rule in fregs[o["file"]])
                if calls != want:
                    return (f"processor of abstract rule {rule} ran on objects {calls}, the objects stored in "
                            f"attributes typed {rule} are {want}")
        stray = [e[1:3] for _i, e in procs if e[2] not in objs or e[1] not in fregs[objs[e[2]][0]]]
        if stray:
            return f"processor calls that nothing entitles: {stray[:5]}"
        first = {}
        for i, e in procs:
            first.setdefault((e[1], e[2]), i)
        for (rule, uid), i in first.items():
            if rule in abstracts:
                own = objs[uid][1]["rule"]
                if own in fregs[objs[uid][0]] and not (first.get((own, uid), 10 ** 9) < i):
                    return f"processor of abstract rule {rule} ran on object {uid} before the processor of its own rule {own}"
        # (3) only after all references are resolved and user classes are initialised
        nrefs = len([x for x in rend.refs if x[0] in new])
        for i, e in procs:
            if not e[3] or e[4] != nrefs:
                return (f"processor {e[1]} called on object {e[2]} while references were unresolved "
                        f"({e[4]} of {nrefs} resolutions seen, all reachable references linked={e[3]})")
            if not e[5]:
                return f"processor {e[1]} called on object {e[2]} before all user-class objects were initialised"
        if procs:
            fp = procs[0][0]
            late = [e for e in obs["events"][fp:] if e[0] in ("resolve", "init")]
            if late:
                return f"{late[0][0]} event {late[0][1:]} after the first object-processor call"
        # (4) children before containers
        pos = {}
        for i, e in procs:
            pos.setdefault(e[2], []).append(i)
        for uid, idxs in pos.items():
            for d in descendants(objs[uid][1]):
                if d in pos and max(pos[d]) > min(idxs):
                    return f"object {d} (contained in {uid}) was processed after its container"
        # (5) a non-None return value replaces the object in its containing attribute
        want_slots = self.expected_slots(case, rend, obs)
        rm = pg.rule_map(schema)
        for uid, want in want_slots.items():
            got = obs["slots"].get(str(uid))
            if got is None:
                return f"object {uid} not found after loading"
            names = [p["attr"] for p in rm[objs[uid][1]["rule"]]["parts"] if "attr" in p]
            names = list(dict.fromkeys(names))
            if len(names) != len(got):
                return f"object {uid} has {len(got)} attributes, the rule has {len(names)}"
            for a, g in zip(names, got):
                if not self.slot_matches(g, want[a]):
                    return (f"attribute {a} of object {uid} holds {g} after loading; the processors' return "
                            f"values require {want[a]}")
        # … and the container's processor already sees the replaced children
        for i, e in procs:
            want = want_slots.get(e[2])
            names = list(dict.fromkeys(p["attr"] for p in rm[objs[e[2]][1]["rule"]]["parts"] if "attr" in p))
            for a, g in zip(names, e[6]):
                if not self.slot_matches(g, want[a]):
                    return (f"processor {e[1]} saw attribute {a} of object {e[2]} = {g}; its children were not all "
                            f"processed/replaced yet (expected {want[a]})")
        return None

    # ------------------------------------------------------------------ evidence helpers
    def nontrivial(self, case, obs):
        if obs.get("outcome") != "ok":
            return False
        procs = [e for e in obs["events"] if e[0] == "proc"]
        if len(procs) < 3:
            return False
        rend = pg.render(case, case.get("layout", 0))
        absn = {a["name"] for a in case["schema"]["abstracts"]}
        fregs = self.file_regs(case)
        abs_hit = any(o["decl"] in absn and o["decl"] in fregs[o["file"]] for o in rend.objs.values())
        replaced = any(isinstance(x, dict) and x.get("p") in VALUE_TAG.values()
                       for s in obs["slots"].values() for v in s for x in (v if isinstance(v, list) else [v]))
        return abs_hit or replaced

    def sample_view(self, case, obs):
        rend = pg.render(case, case.get("layout", 0))
        return {"grammar": rend.grammar, "texts": rend.texts, "reg": case["reg"], "script": case.get("script"),
                "calls": [e[1:3] for e in obs.get("events", []) if e[0] == "proc"], "outcome": obs.get("outcome")}

    def extra_evidence(self, cases, obs, outs):
        d = {"files>1": 0, "abstract_with_match_alt": 0, "replacements": 0, "postponed_refs": 0, "user_classes": 0,
             "proc_calls": 0, "objects": 0, "grammar_files>1": 0, "transitively_imported_objects": 0,
             "model_repository": 0, "models_kept_from_earlier_loads": 0, "history": 0, "shared_user_class_metamodels": 0,
             "observed_metamodel_not_newest": 0, "earlier_loads_ok": 0, "earlier_loads_failed": 0,
             "replaced_registration": 0, "files_of_another_metamodel": 0,
             "main_metamodel_without_any_processor": 0, "register_never_called_on_main": 0,
             "main_without_processor_imports_file_of_metamodel_with": 0,
             "main_with_processor_imports_file_of_metamodel_without": 0,
             "metamodels_with_different_user_classes": 0, "metamodels_with_different_match_processors": 0}
        for c, o in zip(cases, obs):
            if not isinstance(o, dict) or "events" not in o:
                continue
            d["files>1"] += len(c["files"]) > 1
            d["abstract_with_match_alt"] += any(
                x["rule"] in pg.BASES or x["rule"].startswith("M") for a in c["schema"]["abstracts"] for x in a["alts"])
            d["replacements"] += len(c.get("script", []))
            d["postponed_refs"] += sum(1 for r in self.case_refs(c) if r.get("wait"))
            d["user_classes"] += bool(c["schema"]["user"])
            d["proc_calls"] += sum(1 for e in o["events"] if e[0] == "proc")
            d["objects"] += len(o.get("slots", {}))
            if c.get("gsplit"):
                d["grammar_files>1"] += 1
                d["transitively_imported_objects"] += bool(self.chained_objects(c, c["gsplit"]["levels"]))
            d["model_repository"] += bool(c.get("grepo"))
            d["files_of_another_metamodel"] += bool(c.get("mmfile"))
            d["models_kept_from_earlier_loads"] += bool(o.get("kept"))
            steps = self.steps(c)
            regs, mregs = self.regs(c), c.get("match_regs") or {}
            none0 = not regs.get(0) and not (c.get("match_reg") and any(st[0] == "reg" and st[1] == 0 for st in steps))
            d["main_metamodel_without_any_processor"] += none0
            d["register_never_called_on_main"] += not any(st[0] == "reg" and st[1] == 0 for st in steps)
            owners = set((c.get("mmfile") or {}).values())
            d["main_without_processor_imports_file_of_metamodel_with"] += none0 and any(regs.get(x) for x in owners)
            d["main_with_processor_imports_file_of_metamodel_without"] += bool(regs.get(0)) and any(
                not regs.get(x) for x in owners)
            us = self.users(c)
            d["metamodels_with_different_user_classes"] += len({tuple(v) for v in us.values()}) > 1
            d["metamodels_with_different_match_processors"] += any(
                sorted(v) != sorted(c.get("match_reg", [])) for v in mregs.values())
            if c.get("history"):
                d["history"] += 1
                builds = [st for st in steps if st[0] == "build"]
                shared = [st for st in builds if st[2]]
                d["shared_user_class_metamodels"] += bool(c["schema"]["user"]) and len(shared) > 1
                d["observed_metamodel_not_newest"] += bool(c["schema"]["user"]) and shared[-1][1] != 0
                d["replaced_registration"] += any(st[0] == "reg" and st[1] == 0 and st[2] is not None for st in steps)
                for st, res in zip([st for st in steps if st[0] == "load"], o.get("hist", [])):
                    d["earlier_loads_ok" if res == "ok" else "earlier_loads_failed"] += 1
        return {"distribution": d}

    # ------------------------------------------------------------------ shrinking / search
    def shrink(self, case):
        import copy

        # a shorter history (a step that later steps need is kept), one grammar file, no repository
        steps = (case.get("history") or {}).get("steps")
        if case.get("mmfile"):
            c = copy.deepcopy(case)
            self.set_mmfile(c, {})
            yield c
        if steps:
            c = copy.deepcopy(case)
            del c["history"]
            self.set_mmfile(c, {})
            yield c
            owners = set((case.get("mmfile") or {}).values())
            for i, st in enumerate(steps):
                if st[0] == "build" and (st[1] == 0 or st[1] in owners or any(x[1] == st[1] for x in steps[i + 1:])):
                    continue
                if st[0] == "reg" and st[1] == 0 and st[2] is None:
                    continue
                c = copy.deepcopy(case)
                del c["history"]["steps"][i]
                yield c
        if steps:
            for i, st in enumerate(steps):
                if st[0] == "build" and len(st) > 3:  # the default set of user classes
                    c = copy.deepcopy(case)
                    del c["history"]["steps"][i][3:]
                    yield c
                if st[0] == "reg" and st[2]:  # fewer registrations in the other metamodels
                    for j in range(len(st[2])):
                        c = copy.deepcopy(case)
                        del c["history"]["steps"][i][2][j]
                        yield c
        for key in ("gsplit", "grepo", "match_regs"):
            if case.get(key):
                c = copy.deepcopy(case)
                del c[key]
                yield c
        # fewer scripted returns, fewer registrations
        for i in range(len(case.get("script", []))):
            c = copy.deepcopy(case)
            del c["script"][i]
            yield c
        for i in range(len(case["reg"])):
            c = copy.deepcopy(case)
            rule = c["reg"].pop(i)
            c["script"] = [s for s in c["script"] if s[0] != rule]
            yield c
        if case.get("match_reg"):
            c = copy.deepcopy(case)
            c["match_reg"] = []
            yield c
        if case["schema"]["user"]:
            c = copy.deepcopy(case)
            c["schema"]["user"] = []
            yield c
        # no postponement
        if any(r.get("wait") for r in self.case_refs(case)):
            c = copy.deepcopy(case)
            for r in self.case_refs(c):
                r["wait"] = 0
            yield c
        # drop optional children / list items (and the references to what disappears)
        rm = pg.rule_map(case["schema"])
        for uid, (k, o) in case_objs(case).items():
            for p in rm[o["rule"]]["parts"]:
                if p.get("kind") != "cont" or p["attr"] == "imports":
                    continue
                v = o["vals"].get(p["attr"])
                if p["mult"] == "opt" and v is not None:
                    yield self.without(case, uid, p["attr"], None)
                elif p["mult"] in ("star", "rep") and v:
                    for j in range(len(v)):
                        yield self.without(case, uid, p["attr"], j)
                elif p["mult"] == "plus" and v and len(v) > 1:
                    for j in range(len(v)):
                        yield self.without(case, uid, p["attr"], j)

    def without(self, case, uid, attr, j):
        import copy

        c = copy.deepcopy(case)
        _k, o = case_objs(c)[uid]
        if j is None:
            gone = o["vals"][attr]
            o["vals"][attr] = None
        else:
            gone = o["vals"][attr].pop(j)
        dead = {x["uid"] for x in pg.walk_objs(gone)}
        for f in c["files"]:
            for x in pg.walk_objs(f["root"]):
                for a, v in list(x["vals"].items()):
                    if isinstance(v, dict) and v.get("ref") in dead:
                        x["vals"][a] = None
                    elif isinstance(v, list):
                        x["vals"][a] = [y for y in v if not (isinstance(y, dict) and y.get("ref") in dead)]
        c["script"] = [s for s in c.get("script", []) if s[1] not in dead]
        self.rerank(c)
        return c

    def extra_search(self, rng, tier, broken):
        return list(self.gen(rng, 600 if tier == "quick" else 4000, tier))
