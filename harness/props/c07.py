"""C07 — default reference resolution finds the unique matching object.

Implementation side: a generated grammar with 2..5 leaf classes whose `name` comes
from ID (required / optional), STRING, a user match rule (`Dotted: ID('.'ID)*;`),
the case's numeric rule (INT | FLOAT | BOOL | NUMBER) or is absent, 0..3 abstract
targets (`A0: L0 | L1;`, nested, 1..3 rule alternatives — plain or with string matches around
the reference `'(' L1 ')'` — and match alternatives `INT`, `STRING`, `Dotted`, `'nil'` … at any
position, in front of the common alternatives too), the all-embracing
`Elem` and `OBJECT` targets, and reference rules with a single-valued
(`one=[T]`, `one=[T|STRING]`, `one=[T|INT]` …) and a list (`many+=[T|Rule][',']`)
attribute per target and match rule.  A generated model tree (nested named
objects with names from small pools per kind, so that names collide inside and
across classes and kinds; the pools contain the falsy values `""`, `0`, `0.0`,
`false`), a builtins dictionary (keys of any kind; instances of metamodel classes
whose own name may differ from the key, and a foreign Python object) and 1..5
references are loaded through `metamodel_from_str(...).model_from_str(...)`
with the default scope provider; the builtins reach the metamodel as the complete dict at
construction, as an empty dict that the user fills afterwards (the usual pattern when the
builtin objects are instances of the metamodel's own classes), partly filled, filled
between two models, by `mm.builtins = ...`, or as None (`bmode_of`) — optionally with `textx_tools_support`, with
user classes whose instances are falsy (`__len__` == 0), and after another model
(same shape, other names) was loaded with the same metamodel.
Observed: the resolved attribute values as object identities (pre-order number
of the object in the loaded model, or which builtins entry) or the
TextXSemanticError (err_type, 'not unique', line/col → which reference).  After
a successful load the PlainName provider is also called directly for every
(name, target) pair over the names present (falsy ones first).

Lean side: `Link.resolveAll` / `Link.plainName` (Drivers/Link.lean, op
resolve_default) on the same tree, conformance table (computed from the
grammar's declared alternatives, not from textx_isinstance), builtins and
references; name values are sent as `nkey(value)` (injective modulo Python `==`).
"""
from harness.core import Check, use_repo

import re

POOL = ["a", "b", "c", "d", "e"]
EXTRA = ["int", "str"]
# name kinds: which match rule produces the object's name / the reference's text
#   id  : ID (the default of `[T]`)        str : STRING (`[T|STRING]`)
#   dot : a user match rule `Dotted: ID('.'ID)*;`
#   num : the case's numeric rule (INT | FLOAT | BOOL | NUMBER) — one per case, because Python
#         compares numbers across types (0 == 0.0 == False) and the statement does not say
#         whether 'pin 0' names the object a FLOAT-typed reference '0.0' asks for
STR_SPECIAL = ["", "a b", " a", "a.b"]
DOT_SPECIAL = ["a.b", "b.c", "a.b.c"]
NUM_RULE = {"int": "INT", "float": "FLOAT", "bool": "BOOL", "number": "NUMBER"}
NUM_POOL = {"int": [0, 1, 2, -1], "float": [0.0, 1.5, 2.0], "bool": [False, True], "number": [0, 1, 0.5]}
NUM_MISSING = {"int": 9, "float": 9.5, "number": 9}
KLET = {"id": "", "str": "s", "dot": "d", "num": "n"}
LEAF_KIND = {"req": "id", "opt": "id", "none": None, "str": "str", "dot": "dot", "num": "num"}
_ID = r"[^\d\W]\w*"


def nkey(v):
    """Name values as the Lean model sees them: an injective-modulo-Python-equality encoding
    (`x.name == obj_name` holds iff the keys are equal): strings by their text, numbers
    (int / float / bool) by their numeric value.  None = no name attribute."""
    if v is None:
        return None
    if isinstance(v, str):
        return "s:" + v
    if isinstance(v, (bool, int)):
        return "n:%d" % int(v)
    if isinstance(v, float):
        return "n:%d" % int(v) if v == int(v) else "n:" + repr(v)
    raise ValueError(v)


def expressible(case, kind, v):
    """can a token of the kind's match rule produce the value v?"""
    if kind == "id":
        return isinstance(v, str) and re.fullmatch(_ID, v) is not None
    if kind == "dot":
        return isinstance(v, str) and re.fullmatch(_ID + r"(\." + _ID + ")*", v) is not None
    if kind == "str":
        return isinstance(v, str) and not any(ch in v for ch in "\"'\\\n")
    nk = case.get("numkind", "int")
    if nk == "number":
        return type(v) in (int, float)
    return type(v) is {"int": int, "float": float, "bool": bool}[nk]


def tok(kind, v):
    if kind == "str":
        return '"' + v + '"'
    if kind == "num":
        return ("true" if v else "false") if isinstance(v, bool) else repr(v)
    return v


def ref_kind(node):
    return node.get("k", "id")


def ref_rule(node):
    return ("RS" if "one" in node else "RM") + KLET[ref_kind(node)] + "_" + node["t"]
CLS_R, CLS_ELEM, CLS_MODEL, CLS_FOREIGN, CLS_OBJECT = 60, 90, 91, 98, 99


# ---------------------------------------------------------------------------
# class graph
# ---------------------------------------------------------------------------
def cls_num(name):
    if name[0] == "L":
        return int(name[1:])
    if name[0] == "A":
        return 100 + int(name[1:])
    return {"Elem": CLS_ELEM, "Model": CLS_MODEL, "OBJECT": CLS_OBJECT, "foreign": CLS_FOREIGN}[name]


def closure(case, t):
    """leaf class names conforming to target t according to the grammar's alternatives"""
    if t[0] == "L":
        return {t}
    if t[0] == "A":
        out = set()
        for alt in case["abstracts"][int(t[1:])]:
            r = alt_rule(alt)
            if r is not None:  # a match alternative (INT, 'kw', Dotted ...) contributes no class
                out |= closure(case, r)
        return out
    raise ValueError(t)


# alternatives of an abstract rule: "L2" / "A0" (a rule reference), a match alternative (base type, the user
# match rule Dotted, a string match like "'nil'") or a sequence of string matches around exactly one rule
# reference (["'('", "L1", "')'"]) — the documented shapes of an abstract rule's alternatives
MATCH_ALTS = ["INT", "STRING", "ID", "FLOAT", "BOOL", "NUMBER", "Dotted", "'nil'"]


def is_rule_ref(a):
    return isinstance(a, str) and a[0] in "LA" and a[1:].isdigit()


def alt_rule(alt):
    """the common / abstract rule an alternative refers to (None: a match alternative)"""
    if isinstance(alt, list):
        rs = [a for a in alt if is_rule_ref(a)]
        return rs[0] if rs else None
    return alt if is_rule_ref(alt) else None


def alt_text(alt):
    return " ".join(alt) if isinstance(alt, list) else alt


def bmode_of(case):
    """how the builtins reach the metamodel:
    ctor   — the complete dict is handed to metamodel_from_str(builtins=...)
    late   — an *empty* dict is handed over and filled afterwards through the user's own reference
    part   — the dict holds the first `bsplit` entries at construction, the rest is added afterwards
    hist   — empty at construction, filled after the prior model was loaded (= late without a prior model)
    assign — `mm.builtins = dict` after construction
    none   — (no entries) builtins=None
    Entries that are instances of *generated* metamodel classes can only be created once the metamodel exists:
    ctor / part then degrade to late / the foreign entries first."""
    m = case.get("bmode")
    if m is None:
        m = "ctor" if case.get("user") else "assign"
    if m == "none" and case["builtins"]:
        m = "late"
    if m == "ctor" and not case.get("user") and any(b[1] != "foreign" for b in case["builtins"]):
        m = "late"
    return m


def conforms(case, c, t):
    """c: class name of an object ('L2', 'R', 'Model', 'foreign'); t: target name"""
    if t == "OBJECT":
        return True
    if t == "Elem":
        return c[0] == "L" or c == "R"
    return c in closure(case, t)


def targets_of(case):
    return ([f"L{k}" for k in range(len(case["leaves"]))] + [f"A{j}" for j in range(len(case["abstracts"]))]
            + ["Elem", "OBJECT"])


def grammar_of(case):
    n = len(case["leaves"])
    tg = targets_of(case)
    numrule = NUM_RULE[case.get("numkind", "int")]
    mrule = {"id": "", "str": "|STRING", "dot": "|Dotted", "num": "|" + numrule}
    lines = ["Model: elems*=Elem;"]
    used = {ref_rule(o["node"]) for o in number(case)[0][1:] if o["cls"] == "R"}
    rrules = [(t, k, m) for t in tg for k in ("id", "str", "dot", "num") for m in ("RS", "RM")
              if f"{m}{KLET[k]}_{t}" in used]
    alts = [f"L{k}" for k in range(n)] + [f"{m}{KLET[k]}_{t}" for t, k, m in rrules]
    lines.append("Elem: " + " | ".join(alts) + ";")
    for j, a in enumerate(case["abstracts"]):
        lines.append(f"A{j}: " + " | ".join(alt_text(x) for x in a) + ";")
    dotted = any(k == "dot" for _, k, _ in rrules) or any("Dotted" in a for a in case["abstracts"])
    for k, mode in enumerate(case["leaves"]):
        head = {"req": "name=ID", "opt": "('named' name=ID)?", "none": "v=INT", "str": "name=STRING",
                "dot": "name=Dotted", "num": "name=" + numrule}[mode]
        dotted = dotted or mode == "dot"
        lines.append(f"L{k}: 'l{k}' {head} ('{{' kids*=Elem '}}')?;")
    for t, k, m in rrules:
        kw = f"{m.lower()}{KLET[k]}_{t}"
        if m == "RS":
            lines.append(f"RS{KLET[k]}_{t}: '{kw}' one=[{t}{mrule[k]}];")
        else:
            lines.append(f"RM{KLET[k]}_{t}: '{kw}' many+=[{t}{mrule[k]}][','];")
    if dotted:
        lines.append("Dotted: ID('.'ID)*;")
    return "\n".join(lines) + "\n"


# ---------------------------------------------------------------------------
# model tree: numbering, rendering
# ---------------------------------------------------------------------------
def number(case):
    """pre-order numbering (root = 0).  Returns (objs, refs): objs[i] = dict(id, cls, name, node);
    refs = [dict(name, t, owner, idx_in_attr)] in textual order."""
    objs = [{"id": 0, "cls": "Model", "name": None, "node": None}]
    refs = []

    def go(node):
        i = len(objs)
        if "c" in node:
            nm = node.get("name")
            if nm is None and case["leaves"][node["c"]] == "opt":
                nm = ""  # textX initialises an unmatched optional `name=ID` with '': that is the object's name value
            objs.append({"id": i, "cls": f"L{node['c']}", "name": nm, "node": node})
            for k in node.get("kids", []):
                go(k)
        else:
            objs.append({"id": i, "cls": "R", "name": None, "node": node})
            names = [node["one"]] if "one" in node else node["many"]
            for j, nm in enumerate(names):
                refs.append({"name": nm, "t": node["t"], "owner": i, "j": j})

    for nd in case["tree"]:
        go(nd)
    return objs, refs


def render(case):
    """text and the (line, col) of every reference name, in textual order"""
    out = []
    pos = []
    line = [1]
    col = [1]

    def emit(tok, newline=False):
        s = tok + ("\n" if newline else " ")
        out.append(s)
        if newline:
            line[0] += 1
            col[0] = 1
        else:
            col[0] += len(s)

    def go(node, top):
        if "c" in node:
            k = node["c"]
            mode = case["leaves"][k]
            emit(f"l{k}")
            if mode == "opt":
                if node.get("name") is not None:
                    emit("named")
                    emit(node["name"])
            elif mode == "none":
                emit("7")
            else:
                emit(tok(LEAF_KIND[mode], node["name"]))
            kids = node.get("kids", [])
            if kids:
                emit("{")
                for c in kids:
                    go(c, False)
                emit("}")
        elif "one" in node:
            emit(f"rs{KLET[ref_kind(node)]}_{node['t']}")
            pos.append([line[0], col[0]])
            emit(tok(ref_kind(node), node["one"]))
        else:
            emit(f"rm{KLET[ref_kind(node)]}_{node['t']}")
            for j, nm in enumerate(node["many"]):
                if j:
                    emit(",")
                pos.append([line[0], col[0]])
                emit(tok(ref_kind(node), nm))
        if top:
            emit("", newline=True)

    for nd in case["tree"]:
        go(nd, True)
    return "".join(out), pos


def lean_obj(case):
    objs, _ = number(case)
    it = iter(objs[1:])

    def go(node):
        o = next(it)
        if "c" in node:
            mode = case["leaves"][node["c"]]
            nm = node.get("name")
            if mode == "opt" and nm is None:
                nm = ""  # textX initialises an unmatched optional ID attribute with ''
            attrs = [{"p": 0}, {"c": [go(k) for k in node.get("kids", [])]}]
            return {"id": o["id"], "cls": cls_num(o["cls"]), "name": nkey(nm) if mode != "none" else None, "attrs": attrs}
        return {"id": o["id"], "cls": CLS_R, "name": None, "attrs": [{"r": []}]}

    return {"id": 0, "cls": CLS_MODEL, "name": None, "attrs": [{"c": [go(n) for n in case["tree"]]}]}


# ---------------------------------------------------------------------------
# the statement, decided directly
# ---------------------------------------------------------------------------
def matches(case, objs, name, t):
    """ids of the objects of the model named `name` (compared as values, the way the names were
    produced by their match rules — falsy values like 0 or "" are names like any other) whose
    class conforms to t"""
    k = nkey(name)
    return [o["id"] for o in objs if o["name"] is not None and nkey(o["name"]) == k and conforms(case, o["cls"], t)]


def spec_verdict(case, objs, name, t):
    """('obj', id) | ('builtin', index of the builtins entry) | ('unknown',) | ('notUnique',)"""
    m = matches(case, objs, name, t)
    if len(m) == 1:
        return ("obj", m[0])
    if len(m) > 1:
        return ("notUnique",)
    k = nkey(name)
    for i, b in enumerate(case["builtins"]):
        if nkey(b[0]) == k:  # the dictionary *key* counts, not the name attribute of the stored object
            return ("builtin", i) if conforms(case, b[1], t) else ("unknown",)
    return ("unknown",)


def prior_case(case):
    """the model loaded *before* the case's model with the same metamodel: same shape, every
    object name replaced by the next one of its pool (so the sets of names differ)"""
    import copy

    c = copy.deepcopy(case)
    r = case.get("prior") or 0
    pools = case.get("pools") or {}

    def go(node):
        if "c" in node:
            pool = pools.get(LEAF_KIND[case["leaves"][node["c"]]] or "", [])
            ks = [nkey(x) for x in pool]
            if node.get("name") is not None and nkey(node["name"]) in ks:
                node["name"] = pool[(ks.index(nkey(node["name"])) + r) % len(pool)]
            for k in node.get("kids", []):
                go(k)

    for nd in c["tree"]:
        go(nd)
    return c


def spec_objs(case):
    objs, refs = number(case)
    return objs, refs


class Prop(Check):
    ID = "C07"
    LEAN_MODULE = "TextxVerif.Props.C07"
    THEOREMS = [
        "Link.C07_candidates",
        "Link.C07_found_iff",
        "Link.C07_identity",
        "Link.C07_builtin_iff",
        "Link.C07_unknown_iff",
        "Link.C07_notUnique_iff",
        "Link.C07_all_ok_iff",
        "Link.C07_first_failure",
        "Link.C07_single_and_list",
        "Link.C07_no_ref",
        "Link.C07_candidates_no_ref",
        "Link.C07_store_skeleton",
        "Link.C07_pass_frame",
        "Link.C07_pass_frame_iff",
        "Link.C07_stored_list",
        "Link.C07_stored_single",
        "Link.C07_stored_none",
        "Link.C07_found_iff_isinstance",
    ]
    DRIVER = "Drivers/Link.lean"
    QUICK_CASES = 800
    THOROUGH_CASES = 40000
    RULE = ("generated grammar (2..5 leaf classes whose name is ID required / ID optional / absent / STRING / a user match "
            "rule / the case's numeric rule INT|FLOAT|BOOL|NUMBER, 0..3 nested abstract targets with 1..3 rule alternatives "
            "(plain or string matches around the reference) and 0..2 match alternatives (base type / user match rule / "
            "string match) at any position, Elem and OBJECT targets) x model tree of 2..12 objects named from per-kind pools of 2..6 values that share "
            "names across kinds and contain the falsy values '' / 0 / 0.0 / false x builtins dict (0..3 entries, keys of "
            "any kind: metamodel-class instances whose own name may differ from the key, foreign object; generated or "
            "user classes, user instances optionally falsy; handed over complete at construction / as an empty or partly filled dict "
            "that is filled afterwards through the user's reference / filled between two models / assigned to "
            "mm.builtins / None) x 1..5 references in single and list attributes with the "
            "match rule of any kind (unique / dangling / ambiguous / builtins) x textx_tools_support on/off x another "
            "model loaded before with the same metamodel or not; "
            "non-trivial = some reference's name is carried by >= 2 objects (model or builtins) or by none, so that "
            "type conformance, uniqueness or the builtins fallback decides the outcome")
    MODELLED = ("hand-modelled: model.py get_children (Link.follow/getChildren), scoping/providers.py PlainName.__call__ "
                "multi_metamodel_support branch (Link.plainName), model.py resolve_one_step builtins fallback / Unknown "
                "object / single pass over parser._crossrefs (Link.resolveRef/resolveAll) and the same pass with its "
                "stores — setattr / list insert before the next lookup — (Link.resolveAllSt/storeRef/readObj, compared "
                "with the attribute values of the loaded model); conformance (textx_isinstance) is a parameter of the "
                "model, instantiated with the grammar's declared alternatives and cross-checked per case against the "
                "C03 textx_isinstance model (Link.confOfGrammar); an unmatched optional name=ID is the name value ''; "
                "name values (str / int / float / bool) are encoded as strings injectively modulo Python equality; "
                "tie X: resolved targets by object identity, failing reference and error kind, direct provider calls; "
                "not exhibited: user __eq__ overrides, names of unhashable type, mixed numeric name types in one "
                "model (0 == 0.0 == False), multi_metamodel_support=False")
    ASSUMPTIONS = [
        "each model object is contained once (containment is a tree of distinct Python objects) — what the parser builds",
        "conformance of classes is the reflexive-transitive closure of the abstract rules' alternatives (C03 covers textx_isinstance/_tx_inh_by)",
    ]

    # ------------------------------------------------------------------ gen
    def gen_case(self, rng):
        nleaf = rng.randint(2, 5)
        # name of a leaf class: ID (required / optional), none, STRING, a user match rule, the numeric rule
        leaves = [rng.weighted([("req", 6), ("opt", 2), ("none", 1), ("str", 2), ("dot", 1), ("num", 3)])
                  for _ in range(nleaf)]
        if all(m == "none" for m in leaves):
            leaves[0] = "req"
        abstracts = []
        for j in range(rng.weighted([(0, 1), (1, 3), (2, 3), (3, 1)])):
            cand = [f"L{k}" for k in range(nleaf)] + [f"A{i}" for i in range(j)]
            alts = rng.sample(cand, rng.randint(1 if rng.chance(0.1) else 2, min(3, len(cand))))
            # shape of the alternatives: plain rule reference, or string matches around the reference
            for i, a in enumerate(alts):
                if rng.chance(0.15):
                    alts[i] = rng.choice([["'('", a, "')'"], ["'the'", a], [a, "'!'"]])
            # match alternatives (base types, user match rule, string match) anywhere between the common ones —
            # in front of them too: numbers / strings are values of the abstract rule that cannot be referenced
            if rng.chance(0.45):
                for _ in range(rng.randint(1, 2)):
                    alts.insert(rng.below(len(alts) + 1), rng.choice(MATCH_ALTS))
            abstracts.append(alts)
        numkind = rng.weighted([("int", 5), ("float", 1), ("bool", 1), ("number", 1)])
        case = {"leaves": leaves, "abstracts": abstracts, "numkind": numkind, "builtins": [],
                "user": rng.chance(0.3), "tree": []}
        # metamodel configuration and history: none of them may change what a reference resolves to
        case["tools"] = rng.chance(0.25)                       # textx_tools_support=True
        case["falsy"] = case["user"] and rng.chance(0.4)       # user classes whose instances are falsy
        case["prior"] = rng.randint(1, 2) if rng.chance(0.3) else 0  # another model loaded before
        # name pools per kind; the string kinds share names (ID a == STRING "a" == Dotted a), every pool
        # of a kind with a falsy value ("" / 0 / 0.0 / false) usually contains it
        pid = POOL[: rng.randint(2, 5)] + (["A"] if rng.chance(0.25) else [])
        pstr = pid[: rng.randint(1, 2)] + ([""] if rng.chance(0.7) else []) \
            + rng.sample(STR_SPECIAL[1:], rng.randint(0, 2))
        pdot = pid[: rng.randint(1, 2)] + DOT_SPECIAL[: rng.randint(1, 3)]
        pnum = list(NUM_POOL[numkind][: rng.weighted([(2, 3), (3, 2), (4, 1)])])
        if rng.chance(0.15) and len(pnum) > 2:
            del pnum[0]
        pools = {"id": pid, "str": pstr, "dot": pdot, "num": pnum}
        case["pools"] = pools
        kinds = ["id", "str"] + [k for k in ("dot", "num") if k in leaves]
        values = []
        for k in kinds:
            for v in pools[k]:
                if nkey(v) not in [nkey(x) for x in values]:
                    values.append(v)
        # an unmatched optional `name=ID` is '' in textX: the object's `name` attribute has the value '' and a
        # STRING reference "" designates it like any other object whose name equals the reference text (D07: the
        # generator used to avoid unnamed objects whenever "" was in use)
        if "opt" in leaves and "" not in [v for v in values if isinstance(v, str)] and rng.chance(0.5):
            pools["str"].append("")
            values.append("")
        # builtins: key from the pools (any kind) or extra; the stored object's own name may differ
        for _ in range(rng.weighted([(0, 3), (1, 3), (2, 2), (3, 1)])):
            nm = rng.choice(values + EXTRA)
            if nkey(nm) in [nkey(b[0]) for b in case["builtins"]]:
                continue
            named = [f"L{k}" for k in range(nleaf) if leaves[k] != "none"]
            kind = rng.weighted([("leaf", 4), ("foreign", 1)])
            entry = [nm, rng.choice(named) if kind == "leaf" else "foreign"]
            if rng.chance(0.2):
                entry.append(rng.choice(values))
            case["builtins"].append(entry)
        # how the builtins reach the metamodel (at construction / filled into the user's dict afterwards / ...)
        if case["builtins"]:
            case["bmode"] = rng.weighted([("ctor", 3), ("late", 3), ("part", 2), ("hist", 1), ("assign", 2)])
            case["bsplit"] = rng.randint(1, len(case["builtins"]))
        else:
            case["bmode"] = rng.choice(["ctor", "none", "assign"])
        # tree of named objects
        budget = [rng.randint(2, 10)]

        def mk(depth):
            k = rng.below(nleaf)
            node = {"c": k}
            mode = leaves[k]
            if mode == "opt":
                if rng.chance(0.7):
                    node["name"] = rng.choice(pid)
            elif mode != "none":
                node["name"] = rng.choice(pools[LEAF_KIND[mode]])
            kids = []
            while depth < 3 and budget[0] > 0 and rng.chance(0.45):
                budget[0] -= 1
                kids.append(mk(depth + 1))
            node["kids"] = kids
            return node

        tree = []
        while budget[0] > 0 or not tree:
            budget[0] -= 1
            tree.append(mk(0))
        case["tree"] = tree
        # references: (name value, kind of the reference's match rule, target), by verdict category
        objs, _ = number(case)
        tg = targets_of(case)
        names = values + [b[0] for b in case["builtins"] if nkey(b[0]) not in [nkey(x) for x in values]]
        names += ["zz"] + ([NUM_MISSING[numkind]] if "num" in kinds and numkind in NUM_MISSING else [])
        cat = {"obj": [], "notUnique": [], "unknown": [], "builtin": []}
        falsy = []
        for nm in names:
            for k in kinds:
                if expressible(case, k, nm):
                    for t in tg:
                        cat[spec_verdict(case, objs, nm, t)[0]].append((nm, k, t))
                        if not nm:
                            falsy.append((nm, k, t))
        fail_case = rng.chance(0.4)
        refnodes = []
        for _ in range(rng.randint(1, 4)):
            many = rng.chance(0.4)
            n = rng.randint(1, 3) if many else 1
            picks = []
            for _ in range(n):
                if fail_case and rng.chance(0.35):
                    kind = rng.weighted([("unknown", 3), ("notUnique", 3)])
                else:
                    kind = rng.weighted([("obj", 8), ("builtin", 3)])
                if not cat[kind]:
                    kind = "obj" if cat["obj"] else rng.choice([c for c in cat if cat[c]])
                cands = cat[kind]
                if falsy and rng.chance(0.3):  # prefer the falsy names of that category
                    cands = [p for p in cands if not p[0]] or cands
                picks.append(rng.choice(cands))
            _, k, t = picks[0]
            if many:
                # all items of one list share target class and match rule: re-pick names for them keeping the
                # verdict kind if possible
                items = []
                for (nm, kk, tt) in picks:
                    if (kk, tt) != (k, t):
                        same = [p for p in cat[spec_verdict(case, objs, nm, tt)[0]] if (p[1], p[2]) == (k, t)]
                        if same:
                            nm = rng.choice(same)[0]
                        elif not expressible(case, k, nm):
                            nm = picks[0][0]
                    items.append(nm)
                refnodes.append({"many": items, "t": t, "k": k})
            else:
                refnodes.append({"one": picks[0][0], "t": t, "k": k})
        # place the reference objects at random places of the tree
        for rn in refnodes:
            holders = [None] + [o["node"] for o in objs[1:] if o["node"] is not None and "c" in o["node"]]
            h = rng.choice(holders)
            lst = case["tree"] if h is None else h["kids"]
            lst.insert(rng.below(len(lst) + 1), rn)
        return case

    def gen(self, rng, n, tier):
        for _ in range(n):
            yield self.gen_case(rng)

    # ----------------------------------------------------------------- impl
    def impl(self, case):
        use_repo()
        from textx import metamodel_from_str
        from textx.exceptions import TextXError, TextXSemanticError
        from textx.model import ObjCrossRef
        from textx.scoping.providers import PlainName

        grammar = grammar_of(case)
        text, pos = render(case)
        objs, refs = number(case)
        nleaf = len(case["leaves"])

        falsy = bool(case.get("falsy"))

        class Foreign:
            def __init__(self, name):
                self.name = name

            def __bool__(self):
                return not falsy

        kw = {"textx_tools_support": True} if case.get("tools") else {}
        bmode = bmode_of(case)
        blist = [None] * len(case["builtins"])   # (key, object) per entry of the case, for the identities
        user_dict = {}                           # the dict the user hands over and keeps a reference to
        pending = []                             # entries put into user_dict after the metamodel exists
        ucls = None

        def make(b, mm):
            nm, kind = b[0], b[1]
            own = b[2] if len(b) > 2 else nm
            if kind == "foreign":
                return Foreign(own)
            if ucls is not None:
                return ucls[kind](parent=None, name=own, kids=[])
            c = mm[kind]
            o = c.__new__(c)
            o.name = own
            return o

        try:
            if case.get("user"):
                def mkcls(nm):
                    def __init__(self, **kw):
                        for k, v in kw.items():
                            setattr(self, k, v)
                    d = {"__init__": __init__}
                    if falsy:  # e.g. a container class with __len__: an instance is falsy, not None
                        d["__len__"] = lambda self: 0
                    return type(nm, (object,), d)

                ucls = {f"L{k}": mkcls(f"L{k}") for k in range(nleaf)}
                kw["classes"] = list(ucls.values())
            # which entries are in the dict when the metamodel is constructed
            early = []
            for i, b in enumerate(case["builtins"]):
                can = ucls is not None or b[1] == "foreign"
                if bmode == "ctor" or (bmode == "part" and can and i < case.get("bsplit", 1)):
                    early.append(i)
            for i in early:
                blist[i] = (case["builtins"][i][0], make(case["builtins"][i], None))
                user_dict[blist[i][0]] = blist[i][1]
            if bmode == "assign":
                mm = metamodel_from_str(grammar, **kw)
            elif bmode == "none":
                mm = metamodel_from_str(grammar, builtins=None, **kw)
            else:
                mm = metamodel_from_str(grammar, builtins=user_dict, **kw)
            for i, b in enumerate(case["builtins"]):
                if blist[i] is None:
                    blist[i] = (b[0], make(b, mm))
                    pending.append(blist[i])
            if bmode == "assign":
                user_dict.update(pending)
                pending = []
                mm.builtins = user_dict
            elif not (bmode == "hist" and case.get("prior")):
                user_dict.update(pending)        # through the user's own reference, not mm.builtins
                pending = []
        except Exception as e:
            return {"outcome": "grammar-error", "type": type(e).__name__, "msg": str(e)[:300]}

        prior = None
        if case.get("prior"):
            # history: another model (same shape, other names) was loaded with this metamodel before
            try:
                mm.model_from_str(render(prior_case(case))[0])
                prior = "ok"
            except TextXError as e:
                prior = type(e).__name__
            except Exception as e:
                return {"outcome": "error", "kind": "other:prior:" + type(e).__name__, "idx": -1, "msg": str(e)[:200]}
        user_dict.update(pending)                # bmode hist: the builtins are registered between the two models

        try:
            model = mm.model_from_str(text)
        except TextXSemanticError as e:
            msg = str(e)
            if e.err_type == "Unknown object":
                kind = "unknown"
            elif "not unique" in msg:
                kind = "notUnique"
            else:
                kind = "other-semantic"
            idx = pos.index([e.line, e.col]) if [e.line, e.col] in pos else -1
            return {"outcome": "error", "kind": kind, "idx": idx, "err_type": e.err_type, "line": e.line, "col": e.col,
                    "msg": msg[:200], "prior": prior}
        except TextXError as e:
            return {"outcome": "error", "kind": "other:" + type(e).__name__, "idx": -1, "msg": str(e)[:200]}
        except Exception as e:
            return {"outcome": "error", "kind": "other:" + type(e).__name__, "idx": -1, "msg": str(e)[:200]}

        # dump: containment pre-order numbering of the loaded model, shape check against the case
        order = []

        def walk(o):
            order.append(o)
            for an, a in type(o)._tx_attrs.items():
                if a.cont:
                    v = getattr(o, an)
                    for x in (v if isinstance(v, list) else ([] if v is None else [v])):
                        if hasattr(type(x), "_tx_attrs"):
                            walk(x)

        walk(model)
        shape = [type(o).__name__ for o in order]
        want = ["Model"] + [o["cls"] if o["cls"] != "R" else ref_rule(o["node"]) for o in objs[1:]]
        if shape != want:
            return {"outcome": "shape-mismatch", "got": shape, "want": want}
        # the names the loaded objects carry are the generated values (type included)
        for i, o in enumerate(order):
            if objs[i]["name"] is not None:
                got = getattr(o, "name", None)
                if type(got) is not type(objs[i]["name"]) or got != objs[i]["name"]:
                    return {"outcome": "shape-mismatch", "got": [i, repr(got)], "want": [i, repr(objs[i]["name"])]}
        num = {id(o): i for i, o in enumerate(order)}
        bid = {id(v): i for i, (_, v) in enumerate(blist)}

        def ident(x):
            if id(x) in num:
                return {"obj": num[id(x)]}
            if id(x) in bid:
                return {"builtin": bid[id(x)]}
            return {"other": type(x).__name__}

        attrs = []
        for i, o in enumerate(order):
            if objs[i]["cls"] == "R":
                if "one" in objs[i]["node"]:
                    attrs.append([i, [ident(o.one)]])
                else:
                    attrs.append([i, [ident(x) for x in o.many]])
        # direct provider calls
        probes = []
        holder = order[-1]
        prov = PlainName()
        for nm, t in self.probe_list(case):
            ref = ObjCrossRef(obj_name=nm, cls=mm[t], position=0, scope_provider=None, match_rule_name=None)
            try:
                r = prov(holder, None, ref)
                probes.append(None if r is None else ident(r))
            except TextXSemanticError as e:
                probes.append("many" if "not unique" in str(e) else "error:" + str(e)[:80])
            except Exception as e:
                probes.append("exc:" + type(e).__name__)
        return {"outcome": "ok", "attrs": attrs, "probes": probes, "prior": prior}

    def probe_list(self, case):
        """(name value, target) pairs for the direct provider calls: every name present — the falsy ones
        first, they are names like any other — and an absent one"""
        objs, _ = number(case)
        byk = {}
        for v in [o["name"] for o in objs if o["name"] is not None] + [b[0] for b in case["builtins"]]:
            byk.setdefault(nkey(v), v)
        names = [byk[k] for k in sorted(byk, key=lambda k: (bool(byk[k]), k))][:6] + ["zz"]
        return [(nm, t) for nm in names for t in targets_of(case)]

    # ---------------------------------------------------------------- model
    def model_req(self, case, obs):
        if obs["outcome"] in ("grammar-error", "shape-mismatch"):
            return None
        objs, refs = number(case)
        classes = sorted({o["cls"] for o in objs} | {b[1] for b in case["builtins"]})
        conf = [[CLS_R if c == "R" else cls_num(c), cls_num(t)] for c in classes for t in targets_of(case)
                if conforms(case, c, t)]
        # the grammar as a C03 rule graph (rule numbers): Model, Elem, A0.., L0.., R (all reference rules RS*/RM* are
        # common rules that occur as alternatives of Elem only: one rule stands for them)
        nA, nL = len(case["abstracts"]), len(case["leaves"])
        ridx = {"Model": 0, "Elem": 1, "R": 2 + nA + nL}
        ridx.update({f"A{j}": 2 + j for j in range(nA)})
        ridx.update({f"L{k}": 2 + nA + k for k in range(nL)})
        ridx["MATCH"] = ridx["R"] + 1   # stands for the match rules (base types, Dotted) among the alternatives

        def galt(alt):
            if isinstance(alt, list):   # string matches around a rule reference
                return [ridx[a] if is_rule_ref(a) else None for a in alt]
            if is_rule_ref(alt):
                return ridx[alt]
            return None if alt[0] == "'" else ridx["MATCH"]

        gram = [[1, [1]], [0, [ridx[f"L{k}"] for k in range(nL)] + [ridx["R"]]]]
        gram += [[0, [galt(a) for a in alts]] for alts in case["abstracts"]]
        gram += [[1, []] for _ in range(nL)] + [[1, []], [0, []]]
        objmap = [[CLS_R if c == "R" else cls_num(c), ridx.get(c, len(gram) + 7)] for c in classes]
        tgtmap = [[cls_num(t), ridx[t]] for t in targets_of(case) if t != "OBJECT"]
        return {
            "gram": gram, "objmap": objmap, "tgtmap": tgtmap, "object": CLS_OBJECT,
            "op": "resolve_default",
            "root": lean_obj(case),
            "conf": conf,
            "builtins": [[nkey(b[0]), 1000 + i, cls_num(b[1])] for i, b in enumerate(case["builtins"])],
            # [name, target class, owner, attribute number, single-valued?]
            "refs": [[nkey(r["name"]), cls_num(r["t"]), r["owner"], 0, 1 if "one" in objs[r["owner"]]["node"] else 0]
                     for r in refs],
            "probes": [[nkey(nm), cls_num(t)] for nm, t in self.probe_list(case)] if obs["outcome"] == "ok" else [],
        }

    def compare(self, case, obs, out):
        if "err" in out:
            return f"model rejected the request: {out}"
        res = out["res"]
        if out.get("conf_diff"):
            return (f"conformance: the table from the grammar's declared alternatives and the C03 textx_isinstance model "
                    f"(Link.confOfGrammar) disagree on (object class, target class) {out['conf_diff'][:6]}")
        def tj(t):
            return {"obj": t["obj"]} if "obj" in t else {"builtin": t["builtin"] - 1000}

        if obs["outcome"] == "error":
            if "fail" not in res:
                return f"implementation fails ({obs['kind']} at reference {obs['idx']}) but the model resolves every reference"
            if (obs["kind"], obs["idx"]) != (res["fail"], res["idx"]):
                return f"failure differs: impl {obs['kind']} at reference {obs['idx']}, model {res['fail']} at {res['idx']}"
            sf = out.get("st_fail")
            if sf is None or (sf["fail"], sf["idx"]) != (obs["kind"], obs["idx"]):
                return (f"failure differs: impl {obs['kind']} at reference {obs['idx']}, the model's pass with stores: "
                        f"{sf if sf is not None else 'succeeds'}")
            return None
        if "fail" in res:
            return f"implementation loads the model but the model fails with {res['fail']} at reference {res['idx']}"
        mattrs = [[o, [tj(t) for t in ts]] for o, _, ts in out["attrs"]]
        if sorted(mattrs, key=lambda x: x[0]) != sorted(obs["attrs"], key=lambda x: x[0]):
            return f"resolved attribute values differ: impl {obs['attrs']} model {mattrs}"
        # the model's pass *with its stores*: what the reference attributes of the final tree hold
        if "stored" not in out:
            return f"implementation loads the model but the model's pass with stores fails: {out.get('st_fail')}"
        mstored = [[o, None if ids is None else [({"obj": i} if i < 1000 else {"builtin": i - 1000}) for i in ids]]
                   for o, _, ids in out["stored"]]
        if sorted(mstored, key=lambda x: x[0]) != sorted(obs["attrs"], key=lambda x: x[0]):
            return f"reference attributes of the final model differ: impl {obs['attrs']} model (final tree) {mstored}"
        mp = [None if p is None else ("many" if p == "many" else {"obj": p}) for p in out["probes"]]
        if mp != obs["probes"]:
            pl = self.probe_list(case)
            d = [(pl[i], obs["probes"][i], mp[i]) for i in range(len(mp)) if i < len(obs["probes"]) and mp[i] != obs["probes"][i]]
            return f"direct PlainName calls differ (probe, impl, model): {d[:4]}"
        return None

    # --------------------------------------------------------------- oracle
    def oracle(self, case, obs):
        if obs["outcome"] == "grammar-error":
            return f"generated grammar rejected: {obs['type']}: {obs['msg']}"
        if obs["outcome"] == "shape-mismatch":
            return f"loaded model does not have the generated shape: {obs['got']} vs {obs['want']}"
        objs, refs = number(case)
        verdicts = [spec_verdict(case, objs, r["name"], r["t"]) for r in refs]
        failing = [i for i, v in enumerate(verdicts) if v[0] in ("unknown", "notUnique")]
        if obs["outcome"] == "error":
            if obs["kind"] not in ("unknown", "notUnique"):
                return f"loading fails with an unexpected error {obs['kind']}: {obs.get('msg')}"
            if not failing:
                return (f"every reference has a unique match or a conforming builtins entry, but loading fails with "
                        f"{obs['kind']}: {obs.get('msg')}")
            if obs["idx"] >= 0:
                v = verdicts[obs["idx"]]
                if v[0] != obs["kind"]:
                    r = refs[obs["idx"]]
                    return (f"reference #{obs['idx']} '{r['name']}' -> {r['t']} should be {v} but loading reports "
                            f"'{obs['kind']}' for it")
            elif not any(verdicts[i][0] == obs["kind"] for i in failing):
                return f"loading reports '{obs['kind']}' but no reference has that verdict ({[verdicts[i] for i in failing]})"
            return None
        # loaded
        if failing:
            i = failing[0]
            return (f"reference #{i} '{refs[i]['name']}' -> {refs[i]['t']} is {verdicts[i][0]} by the statement but loading "
                    f"succeeded")
        want = {}
        for r, v in zip(refs, verdicts):
            want.setdefault(r["owner"], []).append({"obj": v[1]} if v[0] == "obj" else {"builtin": v[1]})
        got = {o: ts for o, ts in obs["attrs"]}
        if got != want:
            bad = [o for o in want if got.get(o) != want[o]]
            o = bad[0] if bad else None
            return f"reference attribute of object #{o}: resolved to {got.get(o)} instead of {want.get(o)}"
        for (nm, t), p in zip(self.probe_list(case), obs["probes"]):
            m = matches(case, objs, nm, t)
            exp = {"obj": m[0]} if len(m) == 1 else ("many" if m else None)
            if p != exp:
                return f"PlainName provider called for {nm!r} -> {t}: {p} instead of {exp}"
        return None

    def nontrivial(self, case, obs):
        objs, refs = number(case)
        if obs["outcome"] not in ("ok", "error"):
            return False
        for r in refs:
            k = nkey(r["name"])
            carriers = sum(1 for o in objs if nkey(o["name"]) == k) + sum(1 for b in case["builtins"] if nkey(b[0]) == k)
            if carriers != 1:
                return True
        return False

    # --------------------------------------------------------------- shrink
    def shrink(self, case):
        import copy

        def paths(lst, pre):
            for i, nd in enumerate(lst):
                yield pre + [i]
                if "c" in nd:
                    yield from paths(nd.get("kids", []), pre + [i])

        for p in list(paths(case["tree"], [])):
            c = copy.deepcopy(case)
            lst = c["tree"]
            for i in p[:-1]:
                lst = lst[i]["kids"]
            nd = lst[p[-1]]
            # drop the node (keeping its kids in place)
            lst[p[-1]: p[-1] + 1] = nd.get("kids", []) if "c" in nd else []
            if any(True for _ in number(c)[1]) and c["tree"]:
                yield c
            if "many" in nd and len(nd["many"]) > 1:
                for j in range(len(nd["many"])):
                    c2 = copy.deepcopy(case)
                    l2 = c2["tree"]
                    for i in p[:-1]:
                        l2 = l2[i]["kids"]
                    del l2[p[-1]]["many"][j]
                    yield c2
        for i in range(len(case["builtins"])):
            c = copy.deepcopy(case)
            del c["builtins"][i]
            yield c
        for j, alts in enumerate(case["abstracts"]):
            for i, a in enumerate(alts):
                c = copy.deepcopy(case)
                if alt_rule(a) is None:
                    del c["abstracts"][j][i]          # drop a match alternative
                elif isinstance(a, list):
                    c["abstracts"][j][i] = alt_rule(a)  # plain reference instead of the sequence
                else:
                    continue
                yield c
        if case.get("bmode") not in (None, "ctor") and case.get("user"):
            c = copy.deepcopy(case)
            c["bmode"] = "ctor"
            yield c
        for flag in ("prior", "tools", "falsy", "user"):
            if case.get(flag):
                c = copy.deepcopy(case)
                c[flag] = 0 if flag == "prior" else False
                if flag == "user":
                    c["falsy"] = False
                yield c
        for i, b in enumerate(case["builtins"]):
            if len(b) > 2:
                c = copy.deepcopy(case)
                del c["builtins"][i][2]
                yield c

    def sample_view(self, case, obs):
        return {"grammar": grammar_of(case), "text": render(case)[0], "builtins": case["builtins"],
                "user_classes": case.get("user", False), "falsy_instances": case.get("falsy", False),
                "textx_tools_support": case.get("tools", False), "builtins_mode": bmode_of(case),
                "prior_model": render(prior_case(case))[0] if case.get("prior") else None, "impl": obs}

    def extra_search(self, rng, tier, broken):
        return list(self.gen(rng, 2000 if tier == "quick" else 10000, tier))

    def extra_evidence(self, cases, obs, model_outs):
        dist = {}
        nrefs = nprobes = 0
        verd = {"obj": 0, "builtin": 0, "unknown": 0, "notUnique": 0}
        fverd = {"obj": 0, "builtin": 0, "unknown": 0, "notUnique": 0}
        kinds = {}
        for c, o in zip(cases, obs):
            if not isinstance(o, dict) or "outcome" not in o:
                continue
            k = o["outcome"] if o["outcome"] != "error" else "error:" + str(o.get("kind"))
            dist[k] = dist.get(k, 0) + 1
            objs, refs = number(c)
            nrefs += len(refs)
            for r in refs:
                v = spec_verdict(c, objs, r["name"], r["t"])[0]
                verd[v] += 1
                if not r["name"]:
                    fverd[v] += 1
                k = ref_kind(objs[r["owner"]]["node"])
                k = NUM_RULE[c.get("numkind", "int")] if k == "num" else k
                kinds[k] = kinds.get(k, 0) + 1
            nprobes += len(o.get("probes", []))
        return {"distribution": dist, "references": nrefs, "reference_verdicts_by_statement": verd,
                "references_with_falsy_name_by_verdict": fverd, "references_by_match_rule": kinds,
                "direct_provider_calls": nprobes,
                "user_class_cases": sum(1 for c in cases if c.get("user")),
                "falsy_instance_cases": sum(1 for c in cases if c.get("falsy")),
                "textx_tools_support_cases": sum(1 for c in cases if c.get("tools")),
                "prior_model_cases": sum(1 for c in cases if c.get("prior")),
                "builtins_mode_cases_with_entries": {m: sum(1 for c in cases if c["builtins"] and bmode_of(c) == m)
                                                     for m in ("ctor", "late", "part", "hist", "assign")},
                "references_to_abstract_target_with_match_alternative": sum(
                    1 for c in cases for r in number(c)[1]
                    if r["t"][0] == "A" and any(alt_rule(a) is None for a in c["abstracts"][int(r["t"][1:])])),
                "abstract_rules_match_alternative_before_common": sum(
                    1 for c in cases for alts in c["abstracts"]
                    if any(alt_rule(a) is None and any(alt_rule(b) is not None for b in alts[i + 1:])
                           for i, a in enumerate(alts)))}
