"""C07 — default reference resolution finds the unique matching object.

Implementation side: a generated grammar with 2..5 leaf classes (name required /
optional / no name attribute), 0..3 abstract targets built from simple
alternatives (`A0: L0 | L1;`, nested), the all-embracing `Elem` and `OBJECT`
targets, and reference rules with a single-valued (`one=[T]`) and a list
(`many+=[T][',']`) attribute per target.  A generated model tree (nested named
objects with names from a small pool, so that names collide inside and across
classes), a builtins dictionary (instances of metamodel classes and a foreign
Python object) and 1..5 references are loaded through
`metamodel_from_str(...).model_from_str(...)` with the default scope provider.
Observed: the resolved attribute values as object identities (pre-order number
of the object in the loaded model, or which builtins entry) or the
TextXSemanticError (err_type, 'not unique', line/col → which reference).  After
a successful load the PlainName provider is also called directly for every
(name, target) pair over the names present.

Lean side: `Link.resolveAll` / `Link.plainName` (Drivers/Link.lean, op
resolve_default) on the same tree, conformance table (computed from the
grammar's declared alternatives, not from textx_isinstance), builtins and
references.
"""
from harness.core import Check, use_repo

POOL = ["a", "b", "c", "d", "e"]
EXTRA = ["int", "str"]
CLS_R, CLS_ELEM, CLS_MODEL, CLS_FOREIGN, CLS_OBJECT = 60, 90, 91, 98, 99


# ---------------------------------------------------------------------------
# class graph
# ---------------------------------------------------------------------------
def cls_num(name):
    if name[0] == "L":
        return int(name[1:])
    if name[0] == "A":
        return 100 + int(name[1:])
    return {"Elem": CLS_ELEM, "Model": CLS_MODEL, "OBJECT": CLS_OBJECT, "foreign": CLS_FOREIGN}[name]


def closure(case, t):
    """leaf class names conforming to target t according to the grammar's alternatives"""
    if t[0] == "L":
        return {t}
    if t[0] == "A":
        out = set()
        for alt in case["abstracts"][int(t[1:])]:
            out |= closure(case, alt)
        return out
    raise ValueError(t)


def conforms(case, c, t):
    """c: class name of an object ('L2', 'R', 'Model', 'foreign'); t: target name"""
    if t == "OBJECT":
        return True
    if t == "Elem":
        return c[0] == "L" or c == "R"
    return c in closure(case, t)


def targets_of(case):
    return ([f"L{k}" for k in range(len(case["leaves"]))] + [f"A{j}" for j in range(len(case["abstracts"]))]
            + ["Elem", "OBJECT"])


def grammar_of(case):
    n = len(case["leaves"])
    tg = targets_of(case)
    lines = ["Model: elems*=Elem;"]
    used = {(("RS_" if "one" in o["node"] else "RM_") + o["node"]["t"]) for o in number(case)[0][1:] if o["cls"] == "R"}
    rrules = [r for t in tg for r in (f"RS_{t}", f"RM_{t}") if r in used]
    alts = [f"L{k}" for k in range(n)] + rrules
    lines.append("Elem: " + " | ".join(alts) + ";")
    for j, a in enumerate(case["abstracts"]):
        lines.append(f"A{j}: " + " | ".join(a) + ";")
    for k, mode in enumerate(case["leaves"]):
        head = {"req": "name=ID", "opt": "('named' name=ID)?", "none": "v=INT"}[mode]
        lines.append(f"L{k}: 'l{k}' {head} ('{{' kids*=Elem '}}')?;")
    for t in tg:
        if f"RS_{t}" in used:
            lines.append(f"RS_{t}: 'rs_{t}' one=[{t}];")
        if f"RM_{t}" in used:
            lines.append(f"RM_{t}: 'rm_{t}' many+=[{t}][','];")
    return "\n".join(lines) + "\n"


# ---------------------------------------------------------------------------
# model tree: numbering, rendering
# ---------------------------------------------------------------------------
def number(case):
    """pre-order numbering (root = 0).  Returns (objs, refs): objs[i] = dict(id, cls, name, node);
    refs = [dict(name, t, owner, idx_in_attr)] in textual order."""
    objs = [{"id": 0, "cls": "Model", "name": None, "node": None}]
    refs = []

    def go(node):
        i = len(objs)
        if "c" in node:
            objs.append({"id": i, "cls": f"L{node['c']}", "name": node.get("name"), "node": node})
            for k in node.get("kids", []):
                go(k)
        else:
            objs.append({"id": i, "cls": "R", "name": None, "node": node})
            names = [node["one"]] if "one" in node else node["many"]
            for j, nm in enumerate(names):
                refs.append({"name": nm, "t": node["t"], "owner": i, "j": j})

    for nd in case["tree"]:
        go(nd)
    return objs, refs


def render(case):
    """text and the (line, col) of every reference name, in textual order"""
    out = []
    pos = []
    line = [1]
    col = [1]

    def emit(tok, newline=False):
        s = tok + ("\n" if newline else " ")
        out.append(s)
        if newline:
            line[0] += 1
            col[0] = 1
        else:
            col[0] += len(s)

    def go(node, top):
        if "c" in node:
            k = node["c"]
            mode = case["leaves"][k]
            emit(f"l{k}")
            if mode == "req":
                emit(node["name"])
            elif mode == "opt":
                if node.get("name") is not None:
                    emit("named")
                    emit(node["name"])
            else:
                emit("7")
            kids = node.get("kids", [])
            if kids:
                emit("{")
                for c in kids:
                    go(c, False)
                emit("}")
        elif "one" in node:
            emit(f"rs_{node['t']}")
            pos.append([line[0], col[0]])
            emit(node["one"])
        else:
            emit(f"rm_{node['t']}")
            for j, nm in enumerate(node["many"]):
                if j:
                    emit(",")
                pos.append([line[0], col[0]])
                emit(nm)
        if top:
            emit("", newline=True)

    for nd in case["tree"]:
        go(nd, True)
    return "".join(out), pos


def lean_obj(case):
    objs, _ = number(case)
    it = iter(objs[1:])

    def go(node):
        o = next(it)
        if "c" in node:
            mode = case["leaves"][node["c"]]
            nm = node.get("name")
            if mode == "opt" and nm is None:
                nm = ""  # textX initialises an unmatched optional ID attribute with ''
            attrs = [{"p": 0}, {"c": [go(k) for k in node.get("kids", [])]}]
            return {"id": o["id"], "cls": cls_num(o["cls"]), "name": nm if mode != "none" else None, "attrs": attrs}
        return {"id": o["id"], "cls": CLS_R, "name": None, "attrs": [{"r": []}]}

    return {"id": 0, "cls": CLS_MODEL, "name": None, "attrs": [{"c": [go(n) for n in case["tree"]]}]}


# ---------------------------------------------------------------------------
# the statement, decided directly
# ---------------------------------------------------------------------------
def spec_verdict(case, objs, name, t):
    """('obj', id) | ('builtin', name) | ('unknown',) | ('notUnique',)"""
    m = [o["id"] for o in objs if o["name"] is not None and o["name"] == name and conforms(case, o["cls"], t)]
    if len(m) == 1:
        return ("obj", m[0])
    if len(m) > 1:
        return ("notUnique",)
    b = dict((k, v) for k, v in case["builtins"])
    if name in b and conforms(case, b[name], t):
        return ("builtin", name)
    return ("unknown",)


def spec_objs(case):
    objs, refs = number(case)
    return objs, refs


class Prop(Check):
    ID = "C07"
    LEAN_MODULE = "TextxVerif.Props.C07"
    THEOREMS = [
        "Link.C07_candidates",
        "Link.C07_found_iff",
        "Link.C07_identity",
        "Link.C07_builtin_iff",
        "Link.C07_unknown_iff",
        "Link.C07_notUnique_iff",
        "Link.C07_all_ok_iff",
        "Link.C07_first_failure",
        "Link.C07_single_and_list",
    ]
    DRIVER = "Drivers/Link.lean"
    QUICK_CASES = 800
    THOROUGH_CASES = 40000
    RULE = ("generated grammar (2..5 leaf classes with required / optional / no name attribute, 0..3 nested abstract "
            "targets from simple alternatives, Elem and OBJECT targets) x model tree of 2..12 objects named from a pool of "
            "3..5 names x builtins dict (0..3 entries: metamodel-class instances, foreign object; generated or user "
            "classes) x 1..5 references in single and list attributes (unique / dangling / ambiguous / builtins); "
            "non-trivial = some reference's name is carried by >= 2 objects (model or builtins) or by none, so that "
            "type conformance, uniqueness or the builtins fallback decides the outcome")
    MODELLED = ("hand-modelled: model.py get_children (Link.follow/getChildren), scoping/providers.py PlainName.__call__ "
                "multi_metamodel_support branch (Link.plainName), model.py resolve_one_step builtins fallback / Unknown "
                "object / single pass over parser._crossrefs (Link.resolveRef/resolveAll); conformance "
                "(textx_isinstance) is a parameter of the model, instantiated with the grammar's declared alternatives; "
                "tie X: resolved targets by object identity, failing reference and error kind, direct provider calls; "
                "not exhibited: user __eq__/__bool__ overrides, names of unhashable or non-string type, "
                "multi_metamodel_support=False")
    ASSUMPTIONS = [
        "each model object is contained once (containment is a tree of distinct Python objects) — what the parser builds",
        "conformance of classes is the reflexive-transitive closure of the abstract rules' alternatives (C03 covers textx_isinstance/_tx_inh_by)",
    ]

    # ------------------------------------------------------------------ gen
    def gen_case(self, rng):
        nleaf = rng.randint(2, 5)
        leaves = [rng.weighted([("req", 6), ("opt", 2), ("none", 1)]) for _ in range(nleaf)]
        if all(m == "none" for m in leaves):
            leaves[0] = "req"
        abstracts = []
        for j in range(rng.weighted([(0, 1), (1, 3), (2, 3), (3, 1)])):
            cand = [f"L{k}" for k in range(nleaf)] + [f"A{i}" for i in range(j)]
            alts = rng.sample(cand, rng.randint(2, min(3, len(cand))))
            abstracts.append(alts)
        case = {"leaves": leaves, "abstracts": abstracts, "builtins": [], "user": rng.chance(0.3), "tree": []}
        pool = POOL[: rng.randint(2, 5)]
        # builtins
        for _ in range(rng.weighted([(0, 3), (1, 3), (2, 2), (3, 1)])):
            nm = rng.choice(pool + EXTRA)
            if nm in [b[0] for b in case["builtins"]]:
                continue
            named = [f"L{k}" for k in range(nleaf) if leaves[k] != "none"]
            kind = rng.weighted([("leaf", 4), ("foreign", 1)])
            case["builtins"].append([nm, rng.choice(named) if kind == "leaf" else "foreign"])
        # tree of named objects
        budget = [rng.randint(2, 10)]

        def mk(depth):
            k = rng.below(nleaf)
            node = {"c": k}
            mode = leaves[k]
            if mode == "req" or (mode == "opt" and rng.chance(0.7)):
                node["name"] = rng.choice(pool)
            kids = []
            while depth < 3 and budget[0] > 0 and rng.chance(0.45):
                budget[0] -= 1
                kids.append(mk(depth + 1))
            node["kids"] = kids
            return node

        tree = []
        while budget[0] > 0 or not tree:
            budget[0] -= 1
            tree.append(mk(0))
        case["tree"] = tree
        # references
        objs, _ = number(case)
        tg = targets_of(case)
        names = pool + [b[0] for b in case["builtins"] if b[0] not in pool]
        cat = {"obj": [], "notUnique": [], "unknown": [], "builtin": []}
        for nm in names + ["zz"]:
            for t in tg:
                cat[spec_verdict(case, objs, nm, t)[0]].append((nm, t))
        fail_case = rng.chance(0.4)
        refnodes = []
        for _ in range(rng.randint(1, 4)):
            many = rng.chance(0.4)
            k = rng.randint(1, 3) if many else 1
            picks = []
            for _ in range(k):
                if fail_case and rng.chance(0.35):
                    kind = rng.weighted([("unknown", 3), ("notUnique", 3)])
                else:
                    kind = rng.weighted([("obj", 8), ("builtin", 3)])
                if not cat[kind]:
                    kind = "obj" if cat["obj"] else rng.choice([c for c in cat if cat[c]])
                picks.append(rng.choice(cat[kind]))
            t = picks[0][1]
            if many:
                # all items of one list share the target class: re-pick names for that target keeping the verdict kind if possible
                items = []
                for (nm, tt) in picks:
                    if tt != t:
                        same = [p for p in cat[spec_verdict(case, objs, nm, tt)[0]] if p[1] == t]
                        nm = rng.choice(same)[0] if same else nm
                    items.append(nm)
                refnodes.append({"many": items, "t": t})
            else:
                refnodes.append({"one": picks[0][0], "t": t})
        # place the reference objects at random places of the tree
        for rn in refnodes:
            holders = [None] + [o["node"] for o in objs[1:] if o["node"] is not None and "c" in o["node"]]
            h = rng.choice(holders)
            lst = case["tree"] if h is None else h["kids"]
            lst.insert(rng.below(len(lst) + 1), rn)
        return case

    def gen(self, rng, n, tier):
        for _ in range(n):
            yield self.gen_case(rng)

    # ----------------------------------------------------------------- impl
    def impl(self, case):
        use_repo()
        from textx import metamodel_from_str
        from textx.exceptions import TextXError, TextXSemanticError
        from textx.model import ObjCrossRef
        from textx.scoping.providers import PlainName

        grammar = grammar_of(case)
        text, pos = render(case)
        objs, refs = number(case)
        nleaf = len(case["leaves"])

        class Foreign:
            def __init__(self, name):
                self.name = name

        try:
            if case.get("user"):
                def mkcls(nm):
                    def __init__(self, **kw):
                        for k, v in kw.items():
                            setattr(self, k, v)
                    return type(nm, (object,), {"__init__": __init__})

                ucls = {f"L{k}": mkcls(f"L{k}") for k in range(nleaf)}
                builtins = {}
                for nm, kind in case["builtins"]:
                    builtins[nm] = Foreign(nm) if kind == "foreign" else ucls[kind](parent=None, name=nm, kids=[])
                mm = metamodel_from_str(grammar, classes=list(ucls.values()), builtins=builtins)
            else:
                mm = metamodel_from_str(grammar)
                builtins = {}
                for nm, kind in case["builtins"]:
                    if kind == "foreign":
                        builtins[nm] = Foreign(nm)
                    else:
                        c = mm[kind]
                        b = c.__new__(c)
                        b.name = nm
                        builtins[nm] = b
                mm.builtins = builtins
        except Exception as e:
            return {"outcome": "grammar-error", "type": type(e).__name__, "msg": str(e)[:300]}

        try:
            model = mm.model_from_str(text)
        except TextXSemanticError as e:
            msg = str(e)
            if e.err_type == "Unknown object":
                kind = "unknown"
            elif "not unique" in msg:
                kind = "notUnique"
            else:
                kind = "other-semantic"
            idx = pos.index([e.line, e.col]) if [e.line, e.col] in pos else -1
            return {"outcome": "error", "kind": kind, "idx": idx, "err_type": e.err_type, "line": e.line, "col": e.col,
                    "msg": msg[:200]}
        except TextXError as e:
            return {"outcome": "error", "kind": "other:" + type(e).__name__, "idx": -1, "msg": str(e)[:200]}
        except Exception as e:
            return {"outcome": "error", "kind": "other:" + type(e).__name__, "idx": -1, "msg": str(e)[:200]}

        # dump: containment pre-order numbering of the loaded model, shape check against the case
        order = []

        def walk(o):
            order.append(o)
            for an, a in type(o)._tx_attrs.items():
                if a.cont:
                    v = getattr(o, an)
                    for x in (v if isinstance(v, list) else ([] if v is None else [v])):
                        if hasattr(type(x), "_tx_attrs"):
                            walk(x)

        walk(model)
        shape = [type(o).__name__ for o in order]
        want = ["Model"] + [o["cls"] if o["cls"] != "R" else ("RS_" if "one" in o["node"] else "RM_") + o["node"]["t"]
                            for o in objs[1:]]
        if shape != want:
            return {"outcome": "shape-mismatch", "got": shape, "want": want}
        num = {id(o): i for i, o in enumerate(order)}
        bid = {id(v): k for k, v in builtins.items()}

        def ident(x):
            if id(x) in num:
                return {"obj": num[id(x)]}
            if id(x) in bid:
                return {"builtin": bid[id(x)]}
            return {"other": type(x).__name__}

        attrs = []
        for i, o in enumerate(order):
            if objs[i]["cls"] == "R":
                if "one" in objs[i]["node"]:
                    attrs.append([i, [ident(o.one)]])
                else:
                    attrs.append([i, [ident(x) for x in o.many]])
        # direct provider calls
        probes = []
        holder = order[-1]
        prov = PlainName()
        for nm, t in self.probe_list(case):
            ref = ObjCrossRef(obj_name=nm, cls=mm[t], position=0, scope_provider=None, match_rule_name=None)
            try:
                r = prov(holder, None, ref)
                probes.append(None if r is None else ident(r))
            except TextXSemanticError as e:
                probes.append("many" if "not unique" in str(e) else "error:" + str(e)[:80])
            except Exception as e:
                probes.append("exc:" + type(e).__name__)
        return {"outcome": "ok", "attrs": attrs, "probes": probes}

    def probe_list(self, case):
        objs, _ = number(case)
        names = sorted({o["name"] for o in objs if o["name"]} | {b[0] for b in case["builtins"]})[:6] + ["zz"]
        return [(nm, t) for nm in names for t in targets_of(case)]

    # ---------------------------------------------------------------- model
    def model_req(self, case, obs):
        if obs["outcome"] in ("grammar-error", "shape-mismatch"):
            return None
        objs, refs = number(case)
        classes = sorted({o["cls"] for o in objs} | {b[1] for b in case["builtins"]})
        conf = [[CLS_R if c == "R" else cls_num(c), cls_num(t)] for c in classes for t in targets_of(case)
                if conforms(case, c, t)]
        return {
            "op": "resolve_default",
            "root": lean_obj(case),
            "conf": conf,
            "builtins": [[nm, 1000 + i, cls_num(kind)] for i, (nm, kind) in enumerate(case["builtins"])],
            "refs": [[r["name"], cls_num(r["t"]), r["owner"], 0] for r in refs],
            "probes": [[nm, cls_num(t)] for nm, t in self.probe_list(case)] if obs["outcome"] == "ok" else [],
        }

    def compare(self, case, obs, out):
        if "err" in out:
            return f"model rejected the request: {out}"
        res = out["res"]
        bname = {1000 + i: nm for i, (nm, _) in enumerate(case["builtins"])}

        def tj(t):
            return {"obj": t["obj"]} if "obj" in t else {"builtin": bname[t["builtin"]]}

        if obs["outcome"] == "error":
            if "fail" not in res:
                return f"implementation fails ({obs['kind']} at reference {obs['idx']}) but the model resolves every reference"
            if (obs["kind"], obs["idx"]) != (res["fail"], res["idx"]):
                return f"failure differs: impl {obs['kind']} at reference {obs['idx']}, model {res['fail']} at {res['idx']}"
            return None
        if "fail" in res:
            return f"implementation loads the model but the model fails with {res['fail']} at reference {res['idx']}"
        mattrs = [[o, [tj(t) for t in ts]] for o, _, ts in out["attrs"]]
        if sorted(mattrs, key=lambda x: x[0]) != sorted(obs["attrs"], key=lambda x: x[0]):
            return f"resolved attribute values differ: impl {obs['attrs']} model {mattrs}"
        mp = [None if p is None else ("many" if p == "many" else {"obj": p}) for p in out["probes"]]
        if mp != obs["probes"]:
            pl = self.probe_list(case)
            d = [(pl[i], obs["probes"][i], mp[i]) for i in range(len(mp)) if i < len(obs["probes"]) and mp[i] != obs["probes"][i]]
            return f"direct PlainName calls differ (probe, impl, model): {d[:4]}"
        return None

    # --------------------------------------------------------------- oracle
    def oracle(self, case, obs):
        if obs["outcome"] == "grammar-error":
            return f"generated grammar rejected: {obs['type']}: {obs['msg']}"
        if obs["outcome"] == "shape-mismatch":
            return f"loaded model does not have the generated shape: {obs['got']} vs {obs['want']}"
        objs, refs = number(case)
        verdicts = [spec_verdict(case, objs, r["name"], r["t"]) for r in refs]
        failing = [i for i, v in enumerate(verdicts) if v[0] in ("unknown", "notUnique")]
        if obs["outcome"] == "error":
            if obs["kind"] not in ("unknown", "notUnique"):
                return f"loading fails with an unexpected error {obs['kind']}: {obs.get('msg')}"
            if not failing:
                return (f"every reference has a unique match or a conforming builtins entry, but loading fails with "
                        f"{obs['kind']}: {obs.get('msg')}")
            if obs["idx"] >= 0:
                v = verdicts[obs["idx"]]
                if v[0] != obs["kind"]:
                    r = refs[obs["idx"]]
                    return (f"reference #{obs['idx']} '{r['name']}' -> {r['t']} should be {v} but loading reports "
                            f"'{obs['kind']}' for it")
            elif not any(verdicts[i][0] == obs["kind"] for i in failing):
                return f"loading reports '{obs['kind']}' but no reference has that verdict ({[verdicts[i] for i in failing]})"
            return None
        # loaded
        if failing:
            i = failing[0]
            return (f"reference #{i} '{refs[i]['name']}' -> {refs[i]['t']} is {verdicts[i][0]} by the statement but loading "
                    f"succeeded")
        want = {}
        for r, v in zip(refs, verdicts):
            want.setdefault(r["owner"], []).append({"obj": v[1]} if v[0] == "obj" else {"builtin": v[1]})
        got = {o: ts for o, ts in obs["attrs"]}
        if got != want:
            bad = [o for o in want if got.get(o) != want[o]]
            o = bad[0] if bad else None
            return f"reference attribute of object #{o}: resolved to {got.get(o)} instead of {want.get(o)}"
        for (nm, t), p in zip(self.probe_list(case), obs["probes"]):
            m = [o["id"] for o in objs if o["name"] is not None and o["name"] == nm and conforms(case, o["cls"], t)]
            exp = {"obj": m[0]} if len(m) == 1 else ("many" if m else None)
            if p != exp:
                return f"PlainName provider called for '{nm}' -> {t}: {p} instead of {exp}"
        return None

    def nontrivial(self, case, obs):
        objs, refs = number(case)
        if obs["outcome"] not in ("ok", "error"):
            return False
        for r in refs:
            carriers = sum(1 for o in objs if o["name"] == r["name"]) + sum(1 for b in case["builtins"] if b[0] == r["name"])
            if carriers != 1:
                return True
        return False

    # --------------------------------------------------------------- shrink
    def shrink(self, case):
        import copy

        def paths(lst, pre):
            for i, nd in enumerate(lst):
                yield pre + [i]
                if "c" in nd:
                    yield from paths(nd.get("kids", []), pre + [i])

        for p in list(paths(case["tree"], [])):
            c = copy.deepcopy(case)
            lst = c["tree"]
            for i in p[:-1]:
                lst = lst[i]["kids"]
            nd = lst[p[-1]]
            # drop the node (keeping its kids in place)
            lst[p[-1]: p[-1] + 1] = nd.get("kids", []) if "c" in nd else []
            if any(True for _ in number(c)[1]) and c["tree"]:
                yield c
            if "many" in nd and len(nd["many"]) > 1:
                for j in range(len(nd["many"])):
                    c2 = copy.deepcopy(case)
                    l2 = c2["tree"]
                    for i in p[:-1]:
                        l2 = l2[i]["kids"]
                    del l2[p[-1]]["many"][j]
                    yield c2
        for i in range(len(case["builtins"])):
            c = copy.deepcopy(case)
            del c["builtins"][i]
            yield c
        if case.get("user"):
            c = copy.deepcopy(case)
            c["user"] = False
            yield c

    def sample_view(self, case, obs):
        return {"grammar": grammar_of(case), "text": render(case)[0], "builtins": case["builtins"],
                "user_classes": case.get("user", False), "impl": obs}

    def extra_search(self, rng, tier, broken):
        return list(self.gen(rng, 2000 if tier == "quick" else 10000, tier))

    def extra_evidence(self, cases, obs, model_outs):
        dist = {}
        nrefs = nprobes = 0
        verd = {"obj": 0, "builtin": 0, "unknown": 0, "notUnique": 0}
        for c, o in zip(cases, obs):
            if not isinstance(o, dict) or "outcome" not in o:
                continue
            k = o["outcome"] if o["outcome"] != "error" else "error:" + str(o.get("kind"))
            dist[k] = dist.get(k, 0) + 1
            objs, refs = number(c)
            nrefs += len(refs)
            for r in refs:
                verd[spec_verdict(c, objs, r["name"], r["t"])[0]] += 1
            nprobes += len(o.get("probes", []))
        return {"distribution": dist, "references": nrefs, "reference_verdicts_by_statement": verd,
                "direct_provider_calls": nprobes,
                "user_class_cases": sum(1 for c in cases if c.get("user"))}
