"""C27 — model parameters are validated and reach every loaded model.

Tie T: `translate` reads the body of `ModelParamDefinitions.check_params`
(textx/model_params.py of the tree under test) with Python's `ast` and writes
lean/TextxVerif/Gen/CheckParams.lean (a `Stmt` term run by `ParamsLoad.runFor`).

Tie X (op `params`): directories of 1..5 model files in two languages with
random import graphs (cycles, self imports, globs over a directory), loaded by
string / string-with-file-name / file, with every provider family that follows
imports (ImportURI glob, ImportURI search path, GlobalRepo patterns with and
without `project_root`, `project_root` in every spelling: relative to the cwd, with `.` / `..`
components, trailing separators, other directories, non-path values; loads from
another cwd; grammar RREL `+m:`), with and without the metamodel's
global repository (optionally pre-filled by an earlier load with other
parameters).  Observation: exception class, and `_tx_model_params` of every
model of the load — at the end, inside the pre-reference-resolution callback
and inside an object processor.
"""
import ast
import json
import os
import shutil
import tempfile

from harness.core import LEAN_DIR, REPO, Check, use_repo

SCRATCH = "/dev/shm" if os.path.isdir("/dev/shm") and os.access("/dev/shm", os.W_OK) else None
GEN_PATH = os.path.join(LEAN_DIR, "TextxVerif", "Gen", "CheckParams.lean")

GRAMMAR = {
    0: r"""
Model: imports*=Import items*=Item refs*=Ref;
Import: 'import' importURI=STRING;
Item: 'item' name=ID;
Ref: 'ref' target=[Item:ID%s];
""",
    1: r"""
Model: imports*=Import items*=Item refs*=Ref;
Import: 'use' importURI=STRING;
Item: 'thing' name=ID;
Ref: 'ref' target=[Item:ID%s];
""",
}
EXT = {0: ".c27m", 1: ".c27mb"}
KW = {0: ("import", "item"), 1: ("use", "thing")}
NAMEPOOL = ["alpha", "beta", "gamma", "Alpha", "x_1", "ünï", "with space", "", "alph", "Project_Root"]
VALUES = [0, 1, -7, "v", "", None, True, [1, "a"], {"k": [None]}, 3.5, "é",
          # values a "tidying" call site could rewrite (path normalisation, strip, case folding)
          "p/../q", "dir/", " v ", "V"]
# Spellings of the built-in parameter `project_root`.  `$TMP` = the case's directory (absolute), `$REL` = the same
# directory relative to the current working directory of the load.  Second component: the sub-directory of the case
# the value denotes ("" = the case's directory itself, None = no directory of the case).
ROOT_FORMS = [
    ("$TMP", ""), ("$TMP/", ""), ("$TMP/.", ""), ("$TMP/sub/..", ""), ("$TMP//", ""), ("$TMP/./sub/../", ""),
    ("$REL", ""), ("$REL/", ""), ("$REL/.", ""), ("$REL/sub/..", ""), ("$REL/sub/../.", ""),
    ("$TMP/sub", "sub"), ("$TMP/sub/", "sub"), ("$TMP/./sub", "sub"), ("$REL/sub", "sub"), ("$REL/sub/.", "sub"),
    ("/nowhere", None), ("nowhere/..", None), ("", None),
]
ROOT_DENOTES = dict(ROOT_FORMS)
# names bound by the explicit formals of model_from_str / model_from_file never reach **kwargs
RESERVED = ["file_name", "debug", "encoding", "pre_ref_resolution_callback", "model_str", "self"]
PROVIDERS = ["none", "glob", "glob_fqn", "search", "globalrepo", "globalrepo_fqn", "rrel_m"]


# --------------------------------------------------------------------------
# translator: check_params -> Gen/CheckParams.lean
# --------------------------------------------------------------------------
class TranslationError(Exception):
    pass


def _cond(e, var):
    if isinstance(e, ast.Constant) and isinstance(e.value, bool):
        return ".tt" if e.value else ".ff"
    if isinstance(e, ast.UnaryOp) and isinstance(e.op, ast.Not):
        return f"(.not {_cond(e.operand, var)})"
    if isinstance(e, ast.BoolOp):
        op = ".and" if isinstance(e.op, ast.And) else ".or"
        out = _cond(e.values[0], var)
        for v in e.values[1:]:
            out = f"({op} {out} {_cond(v, var)})"
        return out
    if (isinstance(e, ast.Compare) and len(e.ops) == 1 and isinstance(e.left, ast.Name) and e.left.id == var
            and _is_store(e.comparators[0])):
        if isinstance(e.ops[0], ast.In):
            return ".inStore"
        if isinstance(e.ops[0], ast.NotIn):
            return ".notInStore"
    raise TranslationError("condition outside the translated subset: " + ast.dump(e))


def _is_store(e):
    # self.store | self.store.keys() | self   (ModelParamDefinitions.__iter__/__getitem__ go to self.store)
    if isinstance(e, ast.Call) and isinstance(e.func, ast.Attribute) and e.func.attr == "keys" and not e.args:
        e = e.func.value
    if isinstance(e, ast.Attribute) and e.attr == "store" and isinstance(e.value, ast.Name) and e.value.id == "self":
        return True
    return False


def _stmts(body, var):
    out = ".pass"
    first = True
    for s in body:
        t = _stmt(s, var)
        out = t if first else f"(.seq {out} {t})"
        first = False
    return out


def _stmt(s, var):
    if isinstance(s, ast.Pass):
        return ".pass"
    if isinstance(s, ast.Expr) and isinstance(s.value, ast.Constant):
        return ".pass"
    if isinstance(s, ast.Continue):
        return ".cont"
    if isinstance(s, ast.Break):
        return ".brk"
    if isinstance(s, ast.Return):
        if s.value is None or isinstance(s.value, ast.Constant):
            return ".ret"
        raise TranslationError("return of a computed value: " + ast.dump(s))
    if isinstance(s, ast.Raise):
        e = s.exc
        if isinstance(e, ast.Call) and isinstance(e.func, ast.Name) and e.func.id == "TextXError":
            return ".raise"
        raise TranslationError("raise of something else than TextXError(...): " + ast.dump(s))
    if isinstance(s, ast.If):
        return f"(.ite {_cond(s.test, var)} {_stmts(s.body, var)} {_stmts(s.orelse, var) if s.orelse else '.pass'})"
    raise TranslationError("statement outside the translated subset: " + ast.dump(s)[:300])


def read_check_params(repo=None):
    """Lean `Stmt` term for the body of the `for <k> in kwargs` loop of check_params."""
    path = os.path.join(repo or REPO, "textx", "model_params.py")
    tree = ast.parse(open(path, encoding="utf-8").read())
    fns = [f for c in ast.walk(tree) if isinstance(c, ast.ClassDef) and c.name == "ModelParamDefinitions"
           for f in c.body if isinstance(f, ast.FunctionDef) and f.name == "check_params"]
    if len(fns) != 1:
        raise TranslationError(f"expected one ModelParamDefinitions.check_params, found {len(fns)}")
    fn = fns[0]
    if fn.args.kwarg is None or [a.arg for a in fn.args.args] != ["self", "source"] or fn.args.vararg or fn.args.kwonlyargs:
        raise TranslationError("signature of check_params is not (self, source, **kwargs)")
    kw = fn.args.kwarg.arg
    body = [s for s in fn.body if not (isinstance(s, ast.Expr) and isinstance(s.value, ast.Constant))]
    while body and isinstance(body[-1], ast.Return) and (body[-1].value is None or isinstance(body[-1].value, ast.Constant)):
        body = body[:-1]
    if len(body) != 1 or not isinstance(body[0], ast.For):
        raise TranslationError("check_params is not a single `for k in kwargs` loop: " + ast.dump(fn)[:400])
    loop = body[0]
    it = loop.iter
    if isinstance(it, ast.Call) and isinstance(it.func, ast.Attribute) and it.func.attr == "keys" and not it.args:
        it = it.func.value
    if not (isinstance(it, ast.Name) and it.id == kw and isinstance(loop.target, ast.Name)) or loop.orelse:
        raise TranslationError("loop is not `for <name> in kwargs`: " + ast.dump(loop)[:300])
    return _stmts(loop.body, loop.target.id)


def render_gen(term):
    return (
        "import TextxVerif.ParamsLoad\n"
        "/-! GENERATED on every run by harness/props/c27.py (`translate`) from the body of\n"
        "`ModelParamDefinitions.check_params` in textx/model_params.py — never edit by hand. -/\n"
        "namespace Gen\nopen ParamsLoad\n\n"
        "/-- body of `for k in kwargs:` -/\n"
        "def checkParamsBody : Stmt :=\n  " + term + "\n\nend Gen\n"
    )


def translate():
    term = read_check_params()
    if term.startswith("(") and term.endswith(")"):
        term = term[1:-1]
    text = render_gen(term)
    old = open(GEN_PATH, encoding="utf-8").read() if os.path.exists(GEN_PATH) else None
    if old != text:
        os.makedirs(os.path.dirname(GEN_PATH), exist_ok=True)
        with open(GEN_PATH, "w", encoding="utf-8") as f:
            f.write(text)


# --------------------------------------------------------------------------
# files of a case
# --------------------------------------------------------------------------
def fname(case, i):
    return f"f{i}" + EXT[case["files"][i]["lang"]]


def fpath(case, tmp, i):
    return os.path.join(tmp, case["files"][i]["dir"], fname(case, i))


def on_disk(case):
    """ids of the files that exist; the main model of a pure string load is not a file"""
    return [j for j in range(len(case["files"])) if not (j == 0 and case["entry"] in ("str", "not_str"))]


def denoted(case, i, imp):
    """file ids an import statement of file i denotes (the file system's view)"""
    if imp[0] == "f":
        return [imp[1]] if imp[1] in on_disk(case) else []
    if imp[0] == "g":
        return [j for j in on_disk(case) if case["files"][j]["dir"] == imp[1]]
    return []  # "x": a file that does not exist


def file_text(case, tmp, i):
    f = case["files"][i]
    imp_kw, item_kw = KW[f["lang"]]
    here = os.path.join(tmp, f["dir"])
    lines = []
    search = case["provider"] == "search"
    for imp in f["imports"]:
        if imp[0] == "f":
            uri = fname(case, imp[1]) if search else os.path.relpath(fpath(case, tmp, imp[1]), here)
        elif imp[0] == "g":
            uri = os.path.join(os.path.relpath(os.path.join(tmp, imp[1]), here), "*.c27m*")
        else:
            uri = "missing_file.c27m"
        lines.append(f'{imp_kw} "{uri}"')
    lines.append(f"{item_kw} i{i}")
    if f["hasRef"]:
        lines.append(f"ref i{i}")
    if f.get("broken"):
        lines.append("item item item")
    return "\n".join(lines) + "\n"


def value_text(v, tmp=None, back=None):
    """canonical text of a parameter value; `back` maps the real spelling of a `$TMP…` / `$REL…` value of the case to
    its spec, so that a value that was forwarded unchanged reads exactly as the case wrote it and a rewritten one
    (normalised, made absolute) does not"""
    if isinstance(v, str):
        if back and v in back:
            v = back[v]
        elif tmp is not None and v.startswith(tmp):
            v = "$TMP" + v[len(tmp):]
    return json.dumps(v, sort_keys=True, ensure_ascii=True)


def real_value(v, tmp, rel=None):
    if isinstance(v, str) and v.startswith("$TMP"):
        return tmp + v[4:]
    if isinstance(v, str) and v.startswith("$REL"):
        return (rel if rel is not None else tmp) + v[4:]
    return v


def real_kwargs(pairs, tmp, rel=None):
    return {k: real_value(v, tmp, rel) for k, v in pairs}


def back_map(case, tmp, rel):
    out = {}
    for pairs in (case["kwargs"], (case.get("preload") or {}).get("kwargs", [])):
        for _, v in pairs:
            if isinstance(v, str) and v[:4] in ("$TMP", "$REL"):
                out.setdefault(real_value(v, tmp, rel), v)
    return out


def root_dir(pairs):
    """(given, dir): is `project_root` among the keyword arguments, and which directory of the case its value
    denotes ("" / "sub"; None = none of them, or not a path at all)"""
    for k, v in pairs:
        if k == "project_root":
            if isinstance(v, str) and v in ROOT_DENOTES:
                return True, ROOT_DENOTES[v]
            if isinstance(v, str) and v[:4] in ("$TMP", "$REL"):
                d = os.path.normpath("/T" + v[4:])
                return True, {"/T": "", "/T/sub": "sub"}.get(d)
            return True, None
    return False, None


def gr_hit(case, pairs=None):
    """file ids the GlobalRepo pattern of the case denotes once it is rooted (absolute pattern, or relative pattern
    joined with the given project_root)"""
    gr = case["gr"]
    if not gr["rel"]:
        d = gr["dir"]
    else:
        _, base = root_dir(case["kwargs"] if pairs is None else pairs)
        if base is None:
            return []
        d = os.path.normpath(os.path.join(base, gr["dir"]))
        d = "" if d == "." else d
    return [j for j in on_disk(case) if case["files"][j]["dir"] == d]


# --------------------------------------------------------------------------
class Prop(Check):
    ID = "C27"
    LEAN_MODULE = "TextxVerif.Props.C27"
    THEOREMS = [
        "ParamsLoad.C27_check_params",
        "ParamsLoad.C27_reject_iff",
        "ParamsLoad.C27_first_unknown",
        "ParamsLoad.C27_accept",
        "ParamsLoad.C27_all_models",
        "ParamsLoad.C27_closure",
        "ParamsLoad.C27_terminates",
        "ParamsLoad.C27_cached_main",
        "ParamsLoad.C27_created_exact",
        "ParamsLoad.C27_created_iff",
        "ParamsLoad.C27_closure_trans",
        "ParamsLoad.C27_assert_holds",
        "ParamsLoad.C27_accept_total",
        "ParamsLoad.C27_fuel_mono",
        "ParamsLoad.C27_fuel_indep",
    ]
    DRIVER = "Drivers/ParamsLoad.lean"
    QUICK_CASES = 400
    THOROUGH_CASES = 10000
    PROCS_THOROUGH = 4  # shared machine while the framework is being built
    RULE = ("declared names: project_root + random subset of 10 names (unicode, empty, with space, case variants, prefixes); "
            "keyword arguments: 0..4 names (35% of the cases with an undeclared one) with values of 15 shapes (incl. strings a "
            "call site could normalise); the built-in project_root in 19 spellings (absolute / relative to the cwd, `.` and "
            "`..` components, trailing / doubled separators, the case's directory or its sub-directory, no directory) and, "
            "where no relative pattern is joined with it, arbitrary values; 40% of the loads from another cwd; entry "
            "model_from_file / model_from_str with file name / model_from_str; 1..5 files in two directories and two "
            "languages (multi-metamodel) with random import graphs incl. cycles, self imports, directory globs; provider "
            "none / ImportURI glob (PlainName, FQN) / ImportURI search path / GlobalRepo (PlainName, FQN; absolute or "
            "relative pattern with / without project_root) / grammar RREL +m; metamodel global repository on / off, "
            "pre-filled by an earlier load with other parameters; 8% faults (syntax error, missing import, non-string). "
            "non-trivial = a successful load with non-empty parameters that created at least two models, or a rejected "
            "load whose keyword arguments mix declared and undeclared names")
    MODELLED = ("regenerated each run (tie T): loop body of check_params (Gen.checkParamsBody, ast); hand-modelled (tie X): "
                "model_from_str / model_from_file / internal_model_from_file kwargs_callback, GlobalModelRepository.load_model "
                "reuse-or-create, ImportURI / GlobalRepo _load_referenced_models forwarding model._tx_model_params "
                "(ParamsLoad.load); trusted: glob / search-path file resolution (the harness tells the model which files an "
                "import statement denotes); not exhibited: keyword names equal to the explicit formals of the two entry "
                "points (file_name, debug, encoding, pre_ref_resolution_callback never reach **kwargs), models that are not "
                "objects (a grammar whose main rule is a match rule yields a str, which cannot hold attributes), "
                "GlobalRepo.load_models_in_model_repo (documented as unchecked)")
    ASSUMPTIONS = [
        "a model loaded from a string without file name is a new object, never one cached in a repository (hfresh)",
        "import targets are files of the generated directory (World.WF) for the termination theorem",
    ]

    @staticmethod
    def TRANSLATE():
        translate()

    # ---------------------------------------------------------------- generation
    def gen(self, rng, n, tier):
        for _ in range(n):
            yield self.gen_one(rng)

    def gen_one(self, rng):
        names = [x for x in NAMEPOOL]
        defs = rng.subset(names[:8], rng.choice([0.2, 0.5, 0.8]))
        declared = defs + ["project_root"]
        undeclared_pool = [x for x in names if x not in declared]
        nkw = rng.weighted([(0, 2), (1, 4), (2, 4), (3, 2), (4, 1)])
        want_bad = rng.chance(0.35) and undeclared_pool and nkw > 0
        kwnames = []
        pool_ok = rng.shuffle([x for x in defs])
        for _ in range(nkw):
            if pool_ok and not (want_bad and len(kwnames) == nkw - 1 and not any(k in undeclared_pool for k in kwnames)):
                if want_bad and undeclared_pool and rng.chance(0.3):
                    k = rng.choice(undeclared_pool)
                else:
                    k = pool_ok.pop()
            elif want_bad and undeclared_pool:
                k = rng.choice(undeclared_pool)
            else:
                continue
            if k not in kwnames:
                kwnames.append(k)
        kwnames = rng.shuffle(kwnames)
        kwargs = [[k, rng.choice(VALUES)] for k in kwnames]

        provider = rng.weighted([("none", 2), ("glob", 4), ("glob_fqn", 2), ("search", 3), ("globalrepo", 3),
                                 ("globalrepo_fqn", 1), ("rrel_m", 3)])
        nfiles = rng.weighted([(1, 2), (2, 3), (3, 4), (4, 3), (5, 2)])
        multi = rng.chance(0.3)
        files = []
        for i in range(nfiles):
            files.append({"lang": 1 if (multi and i > 0 and rng.chance(0.5)) else 0,
                          "dir": "sub" if (i > 0 and rng.chance(0.4)) else "",
                          "imports": [], "hasRef": rng.chance(0.75 if provider == "rrel_m" else 0.5)})
        if provider in ("glob", "glob_fqn", "search", "rrel_m"):
            for j in range(1, nfiles):
                if rng.chance(0.85):
                    files[rng.below(j)]["imports"].append(["f", j])
            for _ in range(rng.weighted([(0, 3), (1, 3), (2, 2)])):
                a, b = rng.below(nfiles), rng.below(nfiles)  # cycles, self imports, duplicates
                files[a]["imports"].append(["f", b])
            if provider != "search" and rng.chance(0.3):
                dirs = sorted({f["dir"] for f in files})
                files[rng.below(nfiles)]["imports"].append(["g", rng.choice(dirs) if rng.chance(0.93) else "sub"])
            for f in files:
                f["imports"] = rng.shuffle(f["imports"])
        case = {"kind": "params", "defs": defs, "defs_b": rng.subset(names[:8], 0.3), "kwargs": kwargs,
                "provider": provider, "key": rng.choice(["*.*", "Ref.target", "*.target", "Ref.*"]),
                "files": files, "multi": multi, "mm_repo": rng.chance(0.3), "entry": "file", "cb": False, "preload": None,
                "gr": None}
        # the built-in parameter project_root: every spelling of a directory (absolute / relative to the cwd, with
        # `.` / `..` components, trailing and doubled separators), directories that do not exist, and — where no
        # relative pattern is joined with it — values that are no paths at all
        here = [s for s, d in ROOT_FORMS if d == ""]
        below = [s for s, d in ROOT_FORMS if d == "sub"]
        nowhere = [s for s, d in ROOT_FORMS if d is None]
        if provider.startswith("globalrepo"):
            rel = rng.chance(0.5)
            case["gr"] = {"rel": rel, "dir": rng.choice(["sub", "sub", ""])}
            if rel and rng.chance(0.8):
                root = rng.choice(rng.weighted([(here, 14), (below, 4), (nowhere, 2)]))
                kwargs.insert(rng.below(len(kwargs) + 1), ["project_root", root])
            elif not rel and rng.chance(0.6):
                root = rng.choice(rng.weighted([(here, 5), (below, 2), (nowhere, 2), (VALUES, 3)]))
                kwargs.insert(rng.below(len(kwargs) + 1), ["project_root", root])
        elif rng.chance(0.3):
            root = rng.choice(rng.weighted([(here, 5), (below, 2), (nowhere, 2), (VALUES, 3)]))
            kwargs.insert(rng.below(len(kwargs) + 1), ["project_root", root])
        # current working directory of the load: the harness' own, or an empty directory below the case's directory
        case["cwd"] = "cwd" if rng.chance(0.4) else None
        # faults
        r = rng.below(100)
        if r < 3:
            files[rng.below(nfiles)]["broken"] = True
        elif r < 6 and provider in ("glob", "glob_fqn", "search", "rrel_m"):
            files[rng.below(nfiles)]["imports"].append(["x"])
        # entry point
        can_str = provider in ("none", "globalrepo", "globalrepo_fqn") or not files[0]["imports"]
        case["entry"] = rng.weighted([("file", 4), ("str_fn", 3)] + ([("str", 3)] if can_str else []))
        if 6 <= r < 8:
            case["entry"] = "not_str"
        if not case["mm_repo"] and case["entry"] in ("str", "str_fn"):
            case["cb"] = rng.chance(0.5)
        lang0 = [i for i in on_disk(case) if files[i]["lang"] == 0]
        if case["mm_repo"] and lang0 and rng.chance(0.5):
            pre_kw = [[k, rng.choice(VALUES)] for k in rng.subset(defs, 0.5)]
            if case["gr"] and case["gr"]["rel"]:
                pre_kw.append(["project_root", rng.choice(here)])
            elif rng.chance(0.3):
                pre_kw.append(["project_root", rng.choice(here + below + nowhere)])
            case["preload"] = {"file": rng.choice(lang0), "kwargs": pre_kw}
        return case

    # ---------------------------------------------------------------- implementation
    def make_mm(self, case, lang, tmp):
        from textx import metamodel_from_str
        from textx.scoping import providers as sp

        prov = case["provider"]
        g = GRAMMAR[lang] % ("|+m:items" if prov == "rrel_m" else "")
        mm = metamodel_from_str(g, global_repository=True) if (case["mm_repo"] and lang == 0) else metamodel_from_str(g)
        for n in (case["defs"] if lang == 0 else case["defs_b"]):
            mm.model_param_defs.add(n, "declared by the harness")
        p = None
        if prov == "glob":
            p = sp.PlainNameImportURI()
        elif prov == "glob_fqn":
            p = sp.FQNImportURI()
        elif prov == "search":
            p = sp.PlainNameImportURI(search_path=[tmp, os.path.join(tmp, "sub")])
        elif prov.startswith("globalrepo"):
            pat = os.path.join(case["gr"]["dir"], "*.c27m*")
            if not case["gr"]["rel"]:
                pat = os.path.join(tmp, pat)
            p = (sp.FQNGlobalRepo if prov.endswith("fqn") else sp.PlainNameGlobalRepo)(pat)
        if p is not None:
            mm.register_scope_providers({case["key"]: p})
        return mm

    def impl(self, case):
        use_repo()
        import textx
        from textx.exceptions import TextXError, TextXSyntaxError
        from textx.scoping import get_included_models

        tmp = tempfile.mkdtemp(prefix="c27_", dir=SCRATCH)
        registered = False
        old_cwd = os.getcwd()
        try:
            os.makedirs(os.path.join(tmp, "sub"))
            if case.get("cwd"):
                os.makedirs(os.path.join(tmp, case["cwd"]))  # empty: relative patterns find nothing there
                os.chdir(os.path.join(tmp, case["cwd"]))
            rel = os.path.relpath(tmp, os.getcwd())
            back = back_map(case, tmp, rel)
            for i in on_disk(case):
                with open(fpath(case, tmp, i), "w", encoding="utf-8") as fh:
                    fh.write(file_text(case, tmp, i))
            ids = {fname(case, i): i for i in range(len(case["files"]))}
            proc_seen, cb_seen = [], []

            def fid(model):
                fn = getattr(model, "_tx_filename", None)
                return ids.get(os.path.basename(fn), -1) if fn else 0

            def snapshot(model):
                if not hasattr(model, "_tx_model_params"):
                    return None
                mp = model._tx_model_params
                return [[k, value_text(mp[k], tmp, back)] for k in mp]

            def proc(obj):
                proc_seen.append([fid(obj), snapshot(obj)])

            mms = {0: self.make_mm(case, 0, tmp)}
            if case["multi"]:
                mms[1] = self.make_mm(case, 1, tmp)
                textx.register_language("c27-a", pattern="*.c27m", metamodel=mms[0])
                textx.register_language("c27-b", pattern="*.c27mb", metamodel=mms[1])
                registered = True
            for mm in mms.values():
                mm.register_obj_processors({"Model": proc})
            mm = mms[0]

            def repo_models():
                if hasattr(mm, "_tx_model_repository"):
                    return list(mm._tx_model_repository.all_models)
                return []

            out = {}
            if case["preload"]:
                try:
                    mm.model_from_file(fpath(case, tmp, case["preload"]["file"]), **real_kwargs(case["preload"]["kwargs"], tmp, rel))
                    out["preload"] = "ok"
                except Exception as e:
                    out["preload"] = type(e).__name__
            before = repo_models()
            before_ids = {id(m) for m in before}
            out["repo0"] = [[fid(m), snapshot(m)] for m in before]
            del proc_seen[:]

            def cb(other):
                cb_seen.append([fid(other), snapshot(other)])

            kwargs = real_kwargs(case["kwargs"], tmp, rel)
            main_path = fpath(case, tmp, 0)
            main_text = file_text(case, tmp, 0)
            extra = {"pre_ref_resolution_callback": cb} if case["cb"] else {}
            try:
                if case["entry"] == "file":
                    model = mm.model_from_file(main_path, **kwargs)
                elif case["entry"] == "str_fn":
                    model = mm.model_from_str(main_text, file_name=main_path, **extra, **kwargs)
                elif case["entry"] == "str":
                    model = mm.model_from_str(main_text, **extra, **kwargs)
                else:
                    model = mm.model_from_str(12345, **kwargs)
            except TextXError as e:
                fn = getattr(e, "filename", None)
                out.update(outcome="err", cls=type(e).__name__, exact=type(e) is TextXError,
                           syntax=isinstance(e, TextXSyntaxError), file=ids.get(os.path.basename(fn), -1) if fn else None,
                           msg=str(e)[:160].replace(tmp, "$TMP"))
                out["repo_after"] = sorted(fid(m) for m in repo_models())
                return out
            except OSError as e:
                out.update(outcome="oserror", cls=type(e).__name__, errno=e.errno)
                return out
            except Exception as e:
                out.update(outcome="other", cls=type(e).__name__, msg=str(e)[:160].replace(tmp, "$TMP"))
                return out
            models = [model]
            for m in get_included_models(model) + repo_models():
                if not any(m is x for x in models):
                    models.append(m)
            out["outcome"] = "ok"
            out["main_is_obj"] = hasattr(model, "_tx_metamodel")
            out["models"] = sorted(({"file": fid(m), "params": snapshot(m), "created": id(m) not in before_ids}
                                    for m in models), key=lambda d: (d["file"], not d["created"]))
            out["proc"] = sorted(proc_seen, key=lambda x: x[0])
            out["cb"] = sorted(cb_seen, key=lambda x: x[0])
            return out
        finally:
            os.chdir(old_cwd)
            if registered:
                textx.clear_language_registrations()
            shutil.rmtree(tmp, ignore_errors=True)

    # ---------------------------------------------------------------- model
    def model_req(self, case, obs):
        prov = case["provider"]
        if prov == "none":
            p = {"k": "none"}
        elif prov in ("glob", "glob_fqn", "search"):
            p = {"k": "importURI"}
        elif prov == "rrel_m":
            p = {"k": "rrelM"}
        else:
            p = {"k": "globalRepo", "rel": case["gr"]["rel"], "hit": gr_hit(case)}
        files = [{"stmts": [denoted(case, i, imp) for imp in f["imports"]], "hasRef": f["hasRef"],
                  "broken": bool(f.get("broken"))} for i, f in enumerate(case["files"])]
        repo0 = obs.get("repo0", [])
        return {"op": "params", "defs": case["defs"] + ["project_root"],
                "kwargs": [[k, value_text(v)] for k, v in case["kwargs"]],
                "isStr": case["entry"] != "not_str", "viaFile": case["entry"] in ("file", "str_fn"), "file": 0,
                "prov": p, "files": files, "repo0": repo0}

    def compare(self, case, obs, out):
        if out.get("err") == "bad-op":
            return f"model rejected the request: {out}"
        if "err" in out:
            kind = out["err"][0]
            if kind in ("unknownParam", "notString"):
                ok = obs["outcome"] == "err" and obs.get("exact")
            elif kind == "syntax":
                f = obs.get("file")
                if f is None and case["entry"] == "str":
                    f = 0  # the string model has no file name
                ok = obs["outcome"] == "err" and obs.get("syntax") and f == out["err"][1]
            elif kind == "enoent":
                ok = obs["outcome"] == "oserror" and obs.get("errno") == 2
            else:
                return f"model stopped with {out['err']}"
            return None if ok else f"model: {out['err']}, implementation: {self.brief(obs)}"
        if obs["outcome"] != "ok":
            return f"model loads, implementation: {self.brief(obs)}"
        repo = out["ok"]["repo"]
        created_model = sorted((f, sorted(map(tuple, p)) if p is not None else None) for f, p in repo[out["ok"]["cached"]:])
        created_impl = sorted((m["file"], sorted(map(tuple, m["params"])) if m["params"] is not None else None)
                              for m in obs["models"] if m["created"])
        if created_model != created_impl:
            return f"created models (file, params): model {created_model}, implementation {created_impl}"
        return None

    def brief(self, obs):
        return {k: obs.get(k) for k in ("outcome", "cls", "exact", "syntax", "file", "errno", "msg") if k in obs}

    # ---------------------------------------------------------------- oracle
    def oracle(self, case, obs):
        declared = set(case["defs"]) | {"project_root"}
        given = [k for k, _ in case["kwargs"]]
        undeclared = [k for k in given if k not in declared]
        fault = (case["entry"] == "not_str" or any(f.get("broken") for f in case["files"])
                 or any(imp[0] == "x" for f in case["files"] for imp in f["imports"]))
        if obs["outcome"] == "other":
            return f"unexpected exception {obs['cls']}: {obs.get('msg')}"
        if undeclared:
            if obs["outcome"] != "err" or not obs.get("exact"):
                return f"keyword argument(s) {undeclared} are not declared but the load gave {self.brief(obs)}"
            return None
        if obs["outcome"] == "err" and obs.get("exact") and case["entry"] != "not_str":
            return f"all keyword arguments {given} are declared but the load raised TextXError: {obs.get('msg')}"
        if obs["outcome"] != "ok":
            if fault or self.expect_enoent(case):
                return None
            return f"all keyword arguments are declared and the files are well-formed but the load gave {self.brief(obs)}"
        want = sorted((k, value_text(v)) for k, v in case["kwargs"])
        if not obs.get("main_is_obj"):
            return "main model is not an object"
        for m in obs["models"]:
            if not m["created"]:
                continue
            if m["params"] is None:
                return f"model of file {m['file']} created by the load has no _tx_model_params"
            if sorted(map(tuple, m["params"])) != want:
                return f"model of file {m['file']} exposes {m['params']}, the load was given {want}"
        created = {m["file"] for m in obs["models"] if m["created"]}
        for where, seen in (("object processor", obs["proc"]), ("pre-reference-resolution callback", obs["cb"])):
            for f, p in seen:
                if f in created and (p is None or sorted(map(tuple, p)) != want):
                    return f"inside the {where} the model of file {f} exposes {p}, the load was given {want}"
        return None

    def expect_enoent(self, case):
        """some import statement / GlobalRepo pattern denotes nothing (empty directory, relative pattern without
        project_root): an OSError is then not a statement about parameters"""
        if any(not denoted(case, i, imp) for i, f in enumerate(case["files"]) for imp in f["imports"]):
            return True
        gr = case.get("gr")
        if not gr:
            return False
        if gr["rel"] and not root_dir(case["kwargs"])[0]:
            return True
        return not gr_hit(case)

    def nontrivial(self, case, obs):
        declared = set(case["defs"]) | {"project_root"}
        given = [k for k, _ in case["kwargs"]]
        if obs["outcome"] == "ok":
            return bool(given) and sum(1 for m in obs["models"] if m["created"]) >= 2
        if obs["outcome"] == "err" and obs.get("exact"):
            return any(k in declared for k in given) and any(k not in declared for k in given)
        return False

    # ---------------------------------------------------------------- shrinking / search
    def shrink(self, case):
        if case.get("preload"):
            yield dict(case, preload=None)
        if case.get("multi"):
            yield dict(case, multi=False, files=[dict(f, lang=0) for f in case["files"]])
        if case.get("cb"):
            yield dict(case, cb=False)
        if case.get("cwd"):
            yield dict(case, cwd=None)
        for i in range(len(case["kwargs"])):
            yield dict(case, kwargs=case["kwargs"][:i] + case["kwargs"][i + 1:])
        n = len(case["files"])
        if n > 1:
            last = n - 1
            files = []
            for f in case["files"][:last]:
                files.append(dict(f, imports=[imp for imp in f["imports"] if not (imp[0] == "f" and imp[1] == last)]))
            pre = case.get("preload")
            if not (pre and pre["file"] == last):
                yield dict(case, files=files)
        for i, f in enumerate(case["files"]):
            for j in range(len(f["imports"])):
                f2 = dict(f, imports=f["imports"][:j] + f["imports"][j + 1:])
                yield dict(case, files=case["files"][:i] + [f2] + case["files"][i + 1:])
        for i in range(len(case["defs"])):
            yield dict(case, defs=case["defs"][:i] + case["defs"][i + 1:])

    def extra_search(self, rng, tier, broken):
        return list(self.gen(rng, 1500 if tier == "quick" else 8000, tier))

    def sample_view(self, case, obs):
        return {"case": case, "impl": obs, "main_text": file_text(case, "/T", 0)}

    def extra_evidence(self, cases, obs, outs):
        dist = {"provider": {}, "entry": {}, "outcome": {}, "rejected": 0, "created_models": 0, "imported_created": 0,
                "mm_repo": 0, "preload": 0, "multi_metamodel": 0}
        for c, o in zip(cases, obs):
            dist["provider"][c["provider"]] = dist["provider"].get(c["provider"], 0) + 1
            dist["entry"][c["entry"]] = dist["entry"].get(c["entry"], 0) + 1
            if not isinstance(o, dict) or "outcome" not in o:
                continue
            dist["outcome"][o["outcome"]] = dist["outcome"].get(o["outcome"], 0) + 1
            dist["mm_repo"] += bool(c["mm_repo"])
            dist["preload"] += bool(c["preload"])
            dist["multi_metamodel"] += bool(c["multi"])
            if o["outcome"] == "err" and o.get("exact"):
                dist["rejected"] += 1
            if o["outcome"] == "ok":
                k = sum(1 for m in o["models"] if m["created"])
                dist["created_models"] += k
                dist["imported_created"] += max(0, k - 1)
        return {"distribution": dist, "translation_units": {"Gen.checkParamsBody": read_check_params()}}
