"""C19 — memoization never changes parse results.

Implementation: every generated grammar is compiled twice (memoization on/off)
and every text is loaded with both; outcomes (structural model dump, or error
position) must agree.  The Lean mirror of Arpeggio (Peg.Arp, with its
position-keyed memo cache) is run on the *dumped real parser model* for both
settings and compared with the real parse tree / failure position.

History: every text is parsed (a) with one pair of meta-models shared by all texts of the case (the
texts come in random order, so failing and accepted inputs precede each other) and (b) as the FIRST input of
a freshly compiled pair (whatever the compilation leaves in or shares between the parsing expressions is
rebound by Arpeggio at the end of the first parse).  Both the model dump and the parse tree / failure
position of the first parse are observed (the parser clone used by model_from_str is captured) and the
tree is tied to the Lean mirror as well.

Whitespace contexts (round V19): every fourth case hangs an ordered choice of helper rules into the top rule
which reach ONE rule at ONE input position under different whitespace contexts (rule modifiers, eolterm
repetitions; gen_grammar.GrammarGen.ws_modes); the rule is of every way a name can stand for an expression
(alias of a base type / of a match rule / of an alias, simple match rule, base type, non-terminal rule).  Which
expressions of the compiled parser model are non-terminals -- and therefore memoized by Arpeggio -- is decided by
textX's grammar compiler (textx/lang.py); the dumped real parser model is therefore tied to the Lean mirror of the
compiler (`Tx.compile` on the grammar AST, Drivers/PegTx.lean op compile), and a difference between the memoizing
and the plain parser is only attributed to the known finding when the parser model is the one `Tx.compile` gives.

Known finding (Arpeggio, dependency): the memo cache key ignores the whitespace
context, so an expression reached under two whitespace modes may reuse a result
computed under the other one.  Classifier: the disagreement disappears when the
real parser is re-run with the cache key extended by (skipws, ws).
"""
from harness.core import Check, canon, run_driver, use_repo
from harness import gen_grammar as G
from harness import peg
from harness.props.c01 import Unsupported as GramUnsupported
from harness.props.c01 import canon_table, to_lean    # read-only reuse: gen_grammar AST -> Lean `Gram`; table up to renumbering
from harness.txutil import dump_model, outcome

CFGS = [{}, {}, {}, {"skipws": False}, {"ws": " "}, {"ws": " \t\n"}, {"autokwd": True}, {"ignore_case": True}]


class CtxDict(dict):
    """dict keyed by position that silently extends the key by the parser's whitespace context (what="ws": skipws, the
    effective and the declared whitespace set, the eolterm flag) or by
    the flag that tells whether the parser is inside `_parse_comments` (what="comments")."""

    def __init__(self, parser, what="ws"):
        super().__init__()
        self.parser = parser
        self.what = what

    def _k(self, pos):
        if self.what == "comments":
            return (pos, bool(getattr(self.parser, "in_parse_comments", False)))
        # the whole whitespace context: an `eolterm` repetition is a third way to switch it (the `ws` setter strips the
        # newlines while `eolterm` is on, a rule modifier entered below restores / strips according to it)
        p = self.parser
        return (pos, p.skipws, p._ws, getattr(p, "_real_ws", None), bool(getattr(p, "_eolterm", False)))

    def __getitem__(self, pos):
        return dict.__getitem__(self, self._k(pos))

    def __setitem__(self, pos, v):
        dict.__setitem__(self, self._k(pos), v)


_FROZEN = False


class _CpuTimeout(BaseException):
    pass


def with_timeout(fn, secs=3):
    """fn() under a limit of `secs` seconds of user CPU time of this process (ITIMER_VIRTUAL): unlike a wall-clock
    limit it does not fire because the machine is busy with other work.  Returns fn() or {"other": "Timeout"}.  (The
    runner's per-case wall-clock alarm stays armed around it.)"""
    import signal

    def h(signum, frame):
        raise _CpuTimeout()

    old_h = signal.signal(signal.SIGVTALRM, h)
    res = {"other": "Timeout"}
    try:
        try:
            signal.setitimer(signal.ITIMER_VIRTUAL, secs)
            res = fn()
        finally:
            # the timer may fire between the end of fn() and its disarming (or inside an `except` block of the code
            # under test that is just unwinding): such a late _CpuTimeout must not escape from here
            signal.setitimer(signal.ITIMER_VIRTUAL, 0)
    except _CpuTimeout:
        signal.setitimer(signal.ITIMER_VIRTUAL, 0)
        if not (isinstance(res, dict) and res.get("other") == "Timeout"):
            pass  # fn() had already returned: keep its result
    finally:
        signal.setitimer(signal.ITIMER_VIRTUAL, 0)
        signal.signal(signal.SIGVTALRM, old_h)
    return res


def memo_pair(f):
    """(f(False), f(True)) under the time limit.  The memoizing run alone hitting the limit counts as a difference
    (see _nem): it is confirmed with four times the limit before it is believed."""
    a = with_timeout(lambda: f(False))
    if _timeout(a):
        # a limit hit on a tiny input is usually a full garbage-collection pass of the worker (it inherits the runner's
        # whole case list) falling into the parse: confirm with four times the limit before it counts as an observation
        a = with_timeout(lambda: f(False), secs=12)
    b = with_timeout(lambda: f(True))
    if _timeout(b):
        b = with_timeout(lambda: f(True), secs=12)
    return a, b


def build(gtext, cfg, memo):
    use_repo()
    from textx import metamodel_from_str

    return metamodel_from_str(gtext, memoization=memo, **cfg)


def load(mm, text):
    def f():
        return dump_model(mm.model_from_str(text))

    o = outcome(f)
    if "err" in o:
        e = o["err"]
        o = {"err": [e["cls"], e["line"], e["col"]]}
    return o


def first_load(gtext, cfg, memo, text, want_nodes):
    """Compile the grammar afresh and load `text` as the very first input of the new meta-model.
    Returns {"load": model dump | error, "parse": {"ok": tree} | {"nomatch": pos, ..} | {"other": ..} | None,
    "same": the compiled parser model equals `want_nodes` (node numbers of the tree are comparable)}."""
    use_repo()
    from textx.exceptions import TextXError, TextXSyntaxError

    mm = build(gtext, cfg, memo)
    bp = mm._parser_blueprint
    nodes, top, comments, objs = peg.dump_parser(bp)
    ids = {id(o): i for i, o in enumerate(objs)}
    eof_ids = [i for i, o in enumerate(objs) if any(c.__name__ == "EndOfFile" for c in type(o).__mro__)]
    got = []
    orig = bp.clone

    def clone():
        got.append(orig())
        return got[-1]

    bp.clone = clone  # the parser which model_from_str is going to use (for its parse tree)
    pa = None
    try:
        m = mm.model_from_str(text)
        lo = {"ok": dump_model(m)}
    except TextXSyntaxError as e:
        lo = {"err": [type(e).__name__, e.line, e.col]}
        pa = {"nomatch": getattr(e.__cause__, "position", None), "line": e.line, "col": e.col}
    except TextXError as e:
        lo = {"err": [type(e).__name__, getattr(e, "line", None), getattr(e, "col", None)]}
    except RecursionError:
        lo = {"other": "RecursionError"}
        pa = {"other": "RecursionError"}
    except Exception as e:
        lo = {"other": type(e).__name__, "msg": str(e)[:300]}
    finally:
        del bp.clone

    def fix(t):
        if t and t[0] == "t" and t[1] == -1 and t[3] == 0 and eof_ids:
            t[1] = eof_ids[0]
        elif t and t[0] in ("n", "l"):
            for c in t[-1]:
                fix(c)
        return t

    if pa is None:
        tree = getattr(got[0], "parse_tree", None) if got else None
        if tree is not None:
            pa = {"ok": fix(peg.tree_json(tree, ids))}
        elif "other" in lo:
            pa = {"other": lo["other"], "msg": lo.get("msg", "")[:200]}
    return {"load": lo, "parse": pa, "same": nodes == want_nodes, "hits": getattr(got[0], "cache_hits", 0) if got else 0}


def gram_request(g):
    """gen_grammar AST -> Lean `Gram` JSON for `Tx.compile` (None: a shape outside the modelled grammar syntax).
    A composite Comment rule (`comment_alts`) is written out as the three rules the rendering produces."""
    g2 = dict(g)
    if g.get("comment_alts"):
        a, b = g["comment_alts"]
        g2["comment"] = None
        g2["rules"] = list(g["rules"]) + [
            {"name": "Comment", "params": {}, "body": {"k": "alt", "xs": [{"k": "ref", "name": "CommentA"},
                                                                          {"k": "ref", "name": "CommentB"}]}},
            {"name": "CommentA", "params": {}, "body": {"k": "re", "v": a}},
            {"name": "CommentB", "params": {}, "body": {"k": "re", "v": b}}]
    try:
        return to_lean(g2)[0]
    except GramUnsupported:
        return None


def real_table(nodes, top, comments, objs, cfg):
    """the dumped real parser model in the canonical form of C01's compile tie (pre-order renumbering; kind, root,
    rule name, suppression, children, ws / skipws, separator, eolterm, text of the matches, attribute of assignment
    nodes).  With autokwd / ignore_case textX uses other matcher classes and rewrites the match texts: there the kind
    of a match (str / re) and its text are left out (`loose`)."""
    ns = [dict(nd) for nd in nodes]
    for nd, o in zip(ns, objs):
        if nd["k"] in ("str", "re"):
            nd["text"] = o.to_match
        if hasattr(o, "_attr_name"):
            nd["attr"] = o._attr_name
    return loosen(canon_table(ns, top, comments), cfg)


def loosen(table, cfg):
    if cfg.get("autokwd") or cfg.get("ignore_case"):
        for nd in table["nodes"]:
            if nd["k"] in ("str", "re"):
                nd["k"] = "match"
                nd["text"] = ""
    return table


def table_diff(rt, mt):
    """None, or where the real parser model differs from the one `Tx.compile` gives for the grammar"""
    if rt == mt:
        return None
    if len(mt["nodes"]) != len(rt["nodes"]):
        nt = lambda t: sum(1 for nd in t["nodes"] if nd["k"] not in ("str", "re", "match", "eof"))
        return (f"{len(rt['nodes'])} reachable nodes ({nt(rt)} non-terminals = memoized expressions) in the real parser "
                f"model, {len(mt['nodes'])} ({nt(mt)}) in the mirror")
    for i, (a, b) in enumerate(zip(rt["nodes"], mt["nodes"])):
        if a != b:
            return f"node {i} differs: real {a} mirror {b}"
    return f"top/comments differ: real {rt['top']},{rt['comments']} mirror {mt['top']},{mt['comments']}"


WS_STYLES = [("space", 4), ("wild", 5), ("tight", 1)]


def ws_sentences(g, rng, n_derived=3, n_mutated=2):
    """as gen_grammar.sentences, with more layouts that put varied whitespace (blank, tab, newline) between tokens:
    a clash of whitespace contexts needs whitespace in front of the token at which the contexts meet"""
    d = G.Deriver(g, rng)
    out = []
    for k in range(n_derived + n_mutated):
        toks = d.tokens()
        if k >= n_derived:
            toks = G.mutate(toks, rng)
        out.append(G.layout(toks, rng, G.comment_pool(g) or None, style=rng.weighted(WS_STYLES)))
    return out


def uniform_at(nodes, comments, skipws, ws):
    """the dumped parser model is in the class for which C19 is *proved* on the mirror (Peg.UniformAt / Peg.uniformAtB):
    no comment model, no eolterm, and every ws / skipws rule modifier restates the whitespace context (skipws, ws)
    of the meta-model.  (Recomputed here from the statement of the class; the Lean recogniser must agree.)"""
    if comments is not None:
        return False
    for nd in nodes:
        if nd.get("ws") is not None and nd["ws"] != ws:
            return False
        if nd.get("skipws") is not None and bool(nd["skipws"]) != bool(skipws):
            return False
        if nd.get("eol"):
            return False
    return True


def comment_shared(nodes, top, comments):
    """the comment model and the grammar proper share a memoized (= non-terminal) parsing expression"""
    if comments is None:
        return False

    def reach(r):
        seen, todo = set(), [r]
        while todo:
            i = todo.pop()
            if i not in seen:
                seen.add(i)
                nd = nodes[i]
                todo += list(nd.get("kids", [])) + ([nd["sep"]] if nd.get("sep") is not None else [])
        return seen

    return any(nodes[i]["k"] not in ("str", "re", "eof") for i in reach(top) & reach(comments))


def restate_modifiers(g, cfg, rng):
    """turn the rule modifiers of grammar g into modifiers that RESTATE the configuration of the meta-model (the class
    of parser models for which memoization is proved transparent): every rule with a modifier, and one or two more
    rules, get [skipws] / [noskipws] / [ws=".."] with exactly the values of cfg (textX defaults where cfg is silent).
    The ws value is written with literal tab / newline characters: textX normalises a value with backslash escapes to
    the order \\n \\r \\t space, which is another string than the default "\\t\\n\\r " (Arpeggio restores / compares ws
    as strings, and so does the class UniformAt)."""
    sk = cfg.get("skipws", True)
    ws = cfg.get("ws", "\t\n\r ")
    rules = g["rules"]
    extra = set(rng.sample(list(range(len(rules))), min(len(rules), rng.randint(1, 2))))
    for i, r in enumerate(rules):
        if r.get("params") or i in extra:
            ch = rng.choice(["skipws", "ws", "both"])
            r["params"] = {k: v for k, v in (("skipws", sk), ("ws", ws)) if ch in (k, "both")}
            if "ws" in r["params"]:
                r["params"]["wsq"] = '"'
    return g


def _drop_unreachable(gtext):
    """the grammar text (one rule per line, as rendered by gen_grammar) without the rules that can be reached neither
    from the first rule nor from the Comment rule"""
    import re

    lines = [ln for ln in gtext.split("\n") if ln.strip()]
    heads = [re.match(r"\s*(\w+)", ln).group(1) for ln in lines]
    body = {h: ln.split(":", 1)[1] if ":" in ln else "" for h, ln in zip(heads, lines)}
    seen, todo = set(), [h for h in heads[:1] + ["Comment"] if h in body]
    while todo:
        h = todo.pop()
        if h not in seen:
            seen.add(h)
            todo += [n for n in re.findall(r"[A-Za-z_]\w*", body[h]) if n in body]
    return "".join(ln + "\n" for h, ln in zip(heads, lines) if h in seen)


def _drop_unreachable_gram(g):
    """the grammar AST without the rules that cannot be reached from the first rule (the Comment rule is not among
    `rules`)"""
    rules = {r["name"]: r for r in g["rules"]}

    def refs(e):
        if isinstance(e, dict):
            if e.get("k") == "ref":
                yield e["name"]
            for v in e.values():
                yield from refs(v)
        elif isinstance(e, list):
            for x in e:
                yield from refs(x)

    seen, todo = set(), [g["rules"][0]["name"]]
    while todo:
        h = todo.pop()
        if h not in seen and h in rules:
            seen.add(h)
            todo += list(refs(rules[h]["body"]))
    return dict(g, rules=[r for r in g["rules"] if r["name"] in seen])


def _timeout(x):
    return isinstance(x, dict) and x.get("other") == "Timeout"


def _ne(a, b):
    """a != b as observations; a time-out is no observation at all, nor is a parse tree that could not be got hold
    of (None)"""
    if any(x is None or _timeout(x) for x in (a, b)):
        return False
    return a != b


def _nem(plain, memo):
    """observation without memoization != observation with memoization.  The plain parser running into the CPU-time
    limit (exponential backtracking) is no observation; the memoizing parser running into it where the plain parser
    finished is a difference."""
    if _timeout(memo) and plain is not None and not _timeout(plain):
        return True
    return _ne(plain, memo)


def _differs(d):
    return (_nem(d["load0"], d["load1"]) or _nem(d["parse0"], d["parse1"])
            or _nem(d["first0"]["load"], d["first1"]["load"]) or _nem(d["first0"]["parse"], d["first1"]["parse"]))


class Prop(Check):
    ID = "C19"
    LEAN_MODULE = "TextxVerif.Props.C19"
    THEOREMS = ["Peg.C19_posdet", "Peg.C19_partial", "Peg.C19_partial_agree", "Peg.C19_partial_accept",
                "Peg.C19_full_false", "Peg.parse_le", "Peg.plain_sim", "Peg.memo_sim",
                # round D19: constant whitespace context (modifiers restating it), converse termination, verdicts
                "Peg.C19_at", "Peg.C19_at_diverges", "Peg.C19_partial_at", "Peg.C19_converse_at",
                "Peg.C19_partial_agree_at", "Peg.C19_partial_accept_at", "Peg.C19_posdet_at", "Peg.C19_partial_warm_at",
                "Peg.C19_statement_false", "Peg.C19_comment_false", "Tx.C19_load_at", "Peg.uniformAtB_sound",
                "Peg.plain_sim_at", "Peg.memo_sim_at", "Peg.memo_rev", "Peg.memo_fin_plain", "Peg.bodyNode_ev",
                "Peg.parseLim_ev",
                # round V19: terminals are not memoized; an alias of a base type IS the base type's match
                "Peg.C19_match_not_memoized", "Tx.C19_alias_base_root", "Tx.C19_base_terminal"]
    DRIVER = "Drivers/PegTx.lean"      # Drivers/Peg.lean + op compile (Tx.compile on the grammar AST)
    QUICK_CASES = 250
    CASE_TIMEOUT = 20
    THOROUGH_CASES = 6000
    RULE = ("generated grammars (common/abstract/match rules, all operators, separators, eolterm, predicates, suppression, "
            "rule modifiers, Comment rule, alternatives reaching one rule at one position through different kinds of "
            "reference: plain / suppressed / assigned / under & and ! / optional / repeated; every 4th grammar: helper rules "
            "with different whitespace contexts (noskipws / skipws / ws=.. modifiers, none, eolterm repetition) reaching one "
            "rule at one position -- alias of a base type / match rule / alias, simple match rule, base type, non-terminal "
            "rule, alias of one -- and texts with varied whitespace) x metamodel ws/skipws/autokwd/"
            "ignore_case options x 5 texts (3 derived, 2 mutated, random order); each text parsed with memoization on and "
            "off, both in sequence with one pair of meta-models and as the first input of a freshly compiled pair, on the "
            "real code and on the Lean mirror; non-trivial = the memo cache was hit at least once while parsing the text")
    MODELLED = ("hand-modelled: Arpeggio's interpreter incl. memo cache, comment cache, ws/eolterm setters (Peg/Arp.lean, "
                "dependency mirrored statement by statement); tie X: parse tree / failure position of the mirror run on the "
                "dumped real parser model vs the real parser, memoization on and off; token matching (str compare, re.match) "
                "is an input table; tie X2 (round V19): the dumped real parser model vs Tx.compile (mirror of textx/lang.py) of the "
                "grammar AST, up to renumbering -- which expressions are non-terminals (memoized) is part of the model")

    def gen(self, rng, n, tier):
        for i in range(n):
            r = rng.fork(i)
            if i % 8 == 5:
                # the class of the theorem C19_at: no Comment rule, no eolterm, modifiers that restate the configuration
                # of the meta-model -- there memoization must be transparent without exception (no known finding applies)
                r2 = r.fork(1)
                gg = G.GrammarGen(r2, links=False, comment_p=0.0, eolterm=False, flavours=True)
                g = gg.grammar()
                cfg = r2.choice(CFGS)
                g = restate_modifiers(g, cfg, r2)
                texts = r2.shuffle(G.sentences(g, r2, 3, 2))
                yield {"grammar": G.render_grammar(g), "gram": g, "cfg": cfg, "texts": texts, "restating": True}
                continue
            gg = G.GrammarGen(r, links=False, composite_comment=True, flavours=True)
            g = gg.grammar()
            if i % 8 in (1, 3):
                # one rule at one position under several whitespace contexts (see GrammarGen.ws_modes); drawn from a
                # fork, after the grammar: the other three quarters of the cases are what they were before
                r3 = r.fork("wsmodes")
                gg.rng = r3
                g = gg.ws_modes(g)
                cfg = r3.choice(CFGS)
                texts = r3.shuffle(ws_sentences(g, r3, 3, 2))
                yield {"grammar": G.render_grammar(g), "gram": g, "cfg": cfg, "texts": texts}
                continue
            cfg = r.choice(CFGS)
            texts = r.shuffle(G.sentences(g, r, 3, 2))
            yield {"grammar": G.render_grammar(g), "gram": g, "cfg": cfg, "texts": texts}

    def impl(self, case):
        use_repo()
        global _FROZEN
        if not _FROZEN:
            # objects inherited from the runner (all cases of the run) are never garbage: keep the collector off them,
            # or every full collection inside a parse walks them again and eats the per-parse CPU limit
            import gc

            gc.collect()
            gc.freeze()
            _FROZEN = True
        o = outcome(lambda: (build(case["grammar"], case["cfg"], False), build(case["grammar"], case["cfg"], True)))
        if "ok" not in o:
            return {"grammar_error": o}
        mm0, mm1 = o["ok"]
        res = {"texts": []}
        try:
            p0 = mm0._parser_blueprint.clone()
            nodes, top, comments, objs = peg.dump_parser(p0)
            p1 = mm1._parser_blueprint.clone()
            nodes1, top1, comments1, objs1 = peg.dump_parser(p1)
        except peg.Unsupported as e:
            return {"unsupported": str(e)}
        res["nodes"], res["top"], res["comments"] = nodes, top, comments
        res["table"] = real_table(nodes, top, comments, objs, case["cfg"])
        res["same_model"] = (nodes == nodes1 and top == top1 and comments == comments1)
        res["skipws"], res["ws"] = bool(p0.skipws), p0.ws
        res["uniform_at"] = uniform_at(nodes, comments, res["skipws"], res["ws"])
        res["comment_shared"] = comment_shared(nodes, top, comments)
        res["modifiers"] = sum(1 for nd in nodes if nd.get("ws") is not None or nd.get("skipws") is not None)
        for t in case["texts"]:
            d = {"text": t}
            d["load0"], d["load1"] = memo_pair(lambda memo: load(mm1 if memo else mm0, t))
            qs = []

            def parse(memo):
                qs.append(mm1._parser_blueprint.clone() if memo else mm0._parser_blueprint.clone())
                return peg.real_parse(qs[-1], t, objs1 if memo else objs)

            d["parse0"], d["parse1"] = memo_pair(parse)
            d["hits"] = getattr(qs[-1], "cache_hits", 0)
            d["toks"] = peg.tok_tables(nodes, objs, t)
            for memo, f in enumerate(memo_pair(lambda memo: first_load(case["grammar"], case["cfg"], memo, t, nodes))):
                d[f"first{memo}"] = f if "load" in f else {"load": f, "parse": f, "same": False, "hits": 0}
            d["hits"] = max(d["hits"], d["first1"]["hits"])
            if _differs(d):
                # classifier input: memo run with the cache key extended by the whitespace context
                q2 = mm1._parser_blueprint.clone()
                for o_ in objs1:
                    o_._result_cache = CtxDict(q2)
                d["parse1ctx"] = peg.real_parse(q2, t, objs1)
                for o_ in objs1:
                    o_._result_cache = {}
                # ... second classifier: cache key extended by "inside _parse_comments"
                q4 = mm1._parser_blueprint.clone()
                for o_ in objs1:
                    o_._result_cache = CtxDict(q4, "comments")
                d["parse1cctx"] = with_timeout(lambda: peg.real_parse(q4, t, objs1))
                for o_ in objs1:
                    o_._result_cache = {}
                # ... and the disagreement must be reproducible from a clean cache state (not a stale-cache effect)
                q3 = mm1._parser_blueprint.clone()
                d["parse1fresh"] = with_timeout(lambda: peg.real_parse(q3, t, objs1))
            res["texts"].append(d)
        return res

    def model_req(self, case, obs):
        if "texts" not in obs:
            return None
        base = {"op": "parse", "nodes": obs["nodes"], "top": obs["top"], "comments": obs["comments"],
                "skipws": obs["skipws"], "ws": obs["ws"]}
        reqs = []
        for d in obs["texts"]:
            fuel = min(20000, 60 + 8 * (len(d["text"]) + 2) * (len(obs["nodes"]) + 2))
            for memo in (False, True):
                reqs.append({"input": d["text"], "toks": d["toks"], "memo": memo, "fuel": fuel})
        reqs.append({"op": "uniformAt"})
        gram = gram_request(case["gram"]) if case.get("gram") else None
        if gram is not None:
            reqs.append({"op": "compile", "gram": gram, "nodes": [], "toks": []})
        return {"op": "batch", "base": base, "reqs": reqs}

    @staticmethod
    def _same(real, model):
        if "ok" in real:
            return model.get("ok") == real["ok"]
        if "nomatch" in real:
            return model.get("nomatch") == real["nomatch"]
        if real.get("other") in ("RecursionError", "Timeout", "MemoryError"):
            return model.get("err") == "fuel"
        return False

    def compare(self, case, obs, out):
        if "outs" not in out:
            return f"model rejected the request: {out}"
        if not obs["same_model"]:
            return "memoization changes the compiled parser model"
        n = len(obs["texts"])
        ua = out["outs"][2 * n]
        tie = self.compile_tie(case, obs, out["outs"][2 * n + 1] if len(out["outs"]) > 2 * n + 1 else None)
        if tie:
            return tie
        if ua != {"uniformAt": obs.get("uniform_at")}:
            return f"class of the theorem C19_at: Lean recogniser {ua} vs statement of the class {obs.get('uniform_at')}"
        if case.get("restating") and not obs.get("uniform_at"):
            return "a grammar generated with restating modifiers compiles to a parser model outside the class UniformAt"
        for k, d in enumerate(obs["texts"]):
            if obs.get("uniform_at"):
                # C19_partial_accept_at on the mirror: plain run finished => the memoizing run gives the same outcome
                m0, m1 = out["outs"][2 * k], out["outs"][2 * k + 1]
                if m0.get("err") != "fuel" and m0 != m1:
                    return f"text {d['text']!r}: mirror in the proved class differs: {str(m0)[:200]} vs {str(m1)[:200]}"
            for j, key in enumerate(("parse0", "parse1")):
                m = out["outs"][2 * k + j]
                if not self._same(d[key], m):
                    return (f"text {d['text']!r} memo={bool(j)}: real {str(d[key])[:300]} vs mirror {str(m)[:300]}")
                f = d[f"first{j}"]
                if f["same"] and f["parse"] is not None and not self._same(f["parse"], m):
                    return (f"text {d['text']!r} memo={bool(j)}, first parse of a fresh meta-model: real "
                            f"{str(f['parse'])[:300]} vs mirror {str(m)[:300]}")
        return None

    _ties = {}

    def compile_tie(self, case, obs, comp=None):
        """tie X2: the real parser model is the one the mirror of textX's grammar compiler (`Tx.compile`) produces from
        the grammar AST, up to renumbering.  None = no reference (corpus case without AST, grammar shape outside the
        modelled syntax), "" = holds, else what differs.  `comp` = the driver's answer (asked for on demand, and cached
        per grammar, when classify needs it for a shrunk candidate)."""
        if not case.get("gram") or "table" not in obs:
            return None
        key = canon([case["gram"], case["cfg"], obs["table"]])
        if key not in self._ties:
            if comp is None:
                gram = gram_request(case["gram"])
                comp = run_driver(self.DRIVER, [{"op": "compile", "gram": gram}])[0] if gram is not None else {"error": "unsupported"}
            if "ok" in comp:
                m = comp["ok"]
                d = table_diff(obs["table"], loosen(canon_table(m["nodes"], m["top"], m["comments"]), case["cfg"]))
                self._ties[key] = "" if d is None else "compiled parser model vs Tx.compile of the grammar: " + d
            elif comp.get("error") == "unsupported":
                self._ties[key] = None
            else:
                self._ties[key] = f"grammar accepted by textX but Tx.compile says {str(comp)[:200]}"
        return self._ties[key]

    def oracle(self, case, obs):
        if "texts" not in obs:
            return None
        for d in obs["texts"]:
            if _nem(d["load0"], d["load1"]):
                return f"text {d['text']!r}: without memoization {str(d['load0'])[:200]}, with memoization {str(d['load1'])[:200]}"
            if _nem(d["parse0"], d["parse1"]):
                return f"text {d['text']!r}: parse differs: {str(d['parse0'])[:200]} vs {str(d['parse1'])[:200]}"
            f0, f1 = d["first0"], d["first1"]
            if _nem(f0["load"], f1["load"]):
                return (f"text {d['text']!r} as the first input of a fresh meta-model: without memoization "
                        f"{str(f0['load'])[:200]}, with memoization {str(f1['load'])[:200]}")
            if _nem(f0["parse"], f1["parse"]):
                return (f"text {d['text']!r} as the first input of a fresh meta-model: parse differs: "
                        f"{str(f0['parse'])[:200]} vs {str(f1['parse'])[:200]}")
        return None

    def classify(self, case, obs, failure):
        if "texts" not in obs:
            return None
        if obs.get("uniform_at"):
            # proved on the mirror (C19_at): within this class memoization is transparent; a whitespace-context clash
            # needs a modifier that changes the context.  Nothing excuses a difference here.
            return None
        if self.compile_tie(case, obs):
            # both findings are statements about Arpeggio run on the parser model which the grammar compiles to; which
            # expressions are non-terminals (and hence memoized at all) is textX's decision.  A parser model other than
            # the one the mirror of the grammar compiler gives is not what the findings describe: nothing is excused.
            return None
        bad = [d for d in obs["texts"] if _differs(d)]
        # the known finding does not depend on the history of the meta-model: the first parse of a fresh pair shows
        # exactly what the shared pair shows
        if bad and all(d["parse0"] != d["parse1"] and d.get("parse1ctx") == d["parse0"]
                       and d.get("parse1fresh") == d["parse1"]
                       and not _ne(d["first0"]["load"], d["load0"]) and not _ne(d["first1"]["load"], d["load1"])
                       and not _ne(d["first0"]["parse"], d["parse0"]) and not _ne(d["first1"]["parse"], d["parse1"])
                       for d in bad):
            return "C19-memo-key-ignores-ws-context"
        # second finding: a parsing expression shared by the Comment rule and the grammar proper is memoized under a key
        # that ignores whether the parser is inside _parse_comments
        if bad and obs.get("comment_shared") and all(
                d["parse0"] != d["parse1"] and d.get("parse1cctx") == d["parse0"]
                and d.get("parse1fresh") == d["parse1"]
                and not _ne(d["first0"]["load"], d["load0"]) and not _ne(d["first1"]["load"], d["load1"])
                and not _ne(d["first0"]["parse"], d["parse0"]) and not _ne(d["first1"]["parse"], d["parse1"])
                for d in bad):
            return "C19-memo-key-ignores-comment-context"
        return None

    def nontrivial(self, case, obs):
        return any(d.get("hits", 0) > 0 for d in obs.get("texts", []))

    def sample_view(self, case, obs):
        v = {"grammar": case["grammar"], "cfg": case["cfg"], "texts": case["texts"]}
        if "texts" in obs:
            v["outcomes"] = [[str(d["load0"])[:120], d["hits"]] for d in obs["texts"]]
        else:
            v["obs"] = obs
        return v

    def extra_evidence(self, cases, obs, outs):
        tot = sum(len(o.get("texts", [])) for o in obs)
        acc = sum(1 for o in obs for d in o.get("texts", []) if "ok" in d["load0"])
        gerr = sum(1 for o in obs if "grammar_error" in o)
        return {"texts": tot, "accepted_texts": acc, "grammar_errors": gerr,
                "first_parses_tied_to_mirror": sum(1 for o in obs for d in o.get("texts", []) for j in (0, 1)
                                                   if d[f"first{j}"]["same"] and d[f"first{j}"]["parse"] is not None),
                "grammars_with_suppressed_rule_refs": sum(1 for c in cases if __import__("re").search(r"\b[A-Z]\w*-", c["grammar"])),
                "models_in_proved_class": sum(1 for o in obs if o.get("uniform_at")),
                "models_in_proved_class_with_modifiers": sum(1 for o in obs if o.get("uniform_at") and o.get("modifiers")),
                "texts_in_proved_class_with_modifiers_and_cache_hits": sum(
                    1 for o in obs if o.get("uniform_at") and o.get("modifiers") for d in o.get("texts", []) if d.get("hits", 0) > 0),
                "grammars_with_modifiers": sum(1 for c in cases if "[" in c["grammar"].split(":")[0] or "skipws" in c["grammar"] or "ws=" in c["grammar"])}

    def shrink(self, case):
        for i in range(len(case["texts"])):
            if len(case["texts"]) > 1:
                yield dict(case, texts=[case["texts"][i]])
        if case.get("gram"):
            g2 = _drop_unreachable_gram(case["gram"])
            if len(g2["rules"]) < len(case["gram"]["rules"]):
                yield dict(case, gram=g2, grammar=G.render_grammar(g2))
            return
        g = _drop_unreachable(case["grammar"])
        if g != case["grammar"]:
            yield dict(case, grammar=g)
