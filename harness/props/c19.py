"""C19 — memoization never changes parse results.

Implementation: every generated grammar is compiled twice (memoization on/off)
and every text is loaded with both; outcomes (structural model dump, or error
position) must agree.  The Lean mirror of Arpeggio (Peg.Arp, with its
position-keyed memo cache) is run on the *dumped real parser model* for both
settings and compared with the real parse tree / failure position.

Known finding (Arpeggio, dependency): the memo cache key ignores the whitespace
context, so an expression reached under two whitespace modes may reuse a result
computed under the other one.  Classifier: the disagreement disappears when the
real parser is re-run with the cache key extended by (skipws, ws).
"""
from harness.core import Check, use_repo
from harness import gen_grammar as G
from harness import peg
from harness.txutil import dump_model, outcome, with_timeout

CFGS = [{}, {}, {"skipws": False}, {"ws": " "}, {"ws": " \t\n"}]


class CtxDict(dict):
    """dict keyed by position that silently extends the key by the parser's whitespace context."""

    def __init__(self, parser):
        super().__init__()
        self.parser = parser

    def _k(self, pos):
        return (pos, self.parser.skipws, self.parser._ws)

    def __getitem__(self, pos):
        return dict.__getitem__(self, self._k(pos))

    def __setitem__(self, pos, v):
        dict.__setitem__(self, self._k(pos), v)


def build(gtext, cfg, memo):
    use_repo()
    from textx import metamodel_from_str

    return metamodel_from_str(gtext, memoization=memo, **cfg)


def load(mm, text):
    def f():
        return dump_model(mm.model_from_str(text))

    o = outcome(f)
    if "err" in o:
        e = o["err"]
        o = {"err": [e["cls"], e["line"], e["col"]]}
    return o


class Prop(Check):
    ID = "C19"
    LEAN_MODULE = "TextxVerif.Props.C19"
    THEOREMS = ["Peg.C19_posdet", "Peg.C19_partial", "Peg.C19_partial_agree", "Peg.C19_partial_accept",
                "Peg.C19_full_false", "Peg.parse_le", "Peg.plain_sim", "Peg.memo_sim"]
    DRIVER = "Drivers/Peg.lean"
    QUICK_CASES = 250
    CASE_TIMEOUT = 20
    THOROUGH_CASES = 6000
    RULE = ("generated grammars (common/abstract/match rules, all operators, separators, eolterm, predicates, suppression, "
            "rule modifiers, Comment rule) x metamodel ws/skipws options x 5 texts (3 derived, 2 mutated); each text parsed "
            "with memoization on and off on the real code and on the Lean mirror; non-trivial = the memo cache was hit at "
            "least once while parsing the text")
    MODELLED = ("hand-modelled: Arpeggio's interpreter incl. memo cache, comment cache, ws/eolterm setters (Peg/Arp.lean, "
                "dependency mirrored statement by statement); tie X: parse tree / failure position of the mirror run on the "
                "dumped real parser model vs the real parser, memoization on and off; token matching (str compare, re.match) "
                "is an input table")

    def gen(self, rng, n, tier):
        for i in range(n):
            r = rng.fork(i)
            gg = G.GrammarGen(r, links=False, composite_comment=True)
            g = gg.grammar()
            cfg = r.choice(CFGS)
            texts = G.sentences(g, r, 3, 2)
            yield {"grammar": G.render_grammar(g), "cfg": cfg, "texts": texts}

    def impl(self, case):
        use_repo()
        o = outcome(lambda: (build(case["grammar"], case["cfg"], False), build(case["grammar"], case["cfg"], True)))
        if "ok" not in o:
            return {"grammar_error": o}
        mm0, mm1 = o["ok"]
        res = {"texts": []}
        try:
            p0 = mm0._parser_blueprint.clone()
            nodes, top, comments, objs = peg.dump_parser(p0)
            p1 = mm1._parser_blueprint.clone()
            nodes1, top1, comments1, objs1 = peg.dump_parser(p1)
        except peg.Unsupported as e:
            return {"unsupported": str(e)}
        res["nodes"], res["top"], res["comments"] = nodes, top, comments
        res["same_model"] = (nodes == nodes1 and top == top1 and comments == comments1)
        res["skipws"], res["ws"] = bool(p0.skipws), p0.ws
        for t in case["texts"]:
            d = {"text": t}
            d["load0"] = with_timeout(lambda: load(mm0, t))
            d["load1"] = with_timeout(lambda: load(mm1, t))
            q0 = mm0._parser_blueprint.clone()
            d["parse0"] = with_timeout(lambda: peg.real_parse(q0, t, objs))
            q1 = mm1._parser_blueprint.clone()
            d["parse1"] = with_timeout(lambda: peg.real_parse(q1, t, objs1))
            d["hits"] = getattr(q1, "cache_hits", 0)
            d["toks"] = peg.tok_tables(nodes, objs, t)
            if d["load0"] != d["load1"] or d["parse0"] != d["parse1"]:
                # classifier input: memo run with the cache key extended by the whitespace context
                q2 = mm1._parser_blueprint.clone()
                for o_ in objs1:
                    o_._result_cache = CtxDict(q2)
                d["parse1ctx"] = peg.real_parse(q2, t, objs1)
                for o_ in objs1:
                    o_._result_cache = {}
                # ... and the disagreement must be reproducible from a clean cache state (not a stale-cache effect)
                q3 = mm1._parser_blueprint.clone()
                d["parse1fresh"] = with_timeout(lambda: peg.real_parse(q3, t, objs1))
            res["texts"].append(d)
        return res

    def model_req(self, case, obs):
        if "texts" not in obs:
            return None
        base = {"op": "parse", "nodes": obs["nodes"], "top": obs["top"], "comments": obs["comments"],
                "skipws": obs["skipws"], "ws": obs["ws"]}
        reqs = []
        for d in obs["texts"]:
            fuel = min(20000, 60 + 8 * (len(d["text"]) + 2) * (len(obs["nodes"]) + 2))
            for memo in (False, True):
                reqs.append({"input": d["text"], "toks": d["toks"], "memo": memo, "fuel": fuel})
        return {"op": "batch", "base": base, "reqs": reqs}

    @staticmethod
    def _same(real, model):
        if "ok" in real:
            return model.get("ok") == real["ok"]
        if "nomatch" in real:
            return model.get("nomatch") == real["nomatch"]
        if real.get("other") in ("RecursionError", "Timeout", "MemoryError"):
            return model.get("err") == "fuel"
        return False

    def compare(self, case, obs, out):
        if "outs" not in out:
            return f"model rejected the request: {out}"
        if not obs["same_model"]:
            return "memoization changes the compiled parser model"
        for k, d in enumerate(obs["texts"]):
            for j, key in enumerate(("parse0", "parse1")):
                m = out["outs"][2 * k + j]
                if not self._same(d[key], m):
                    return (f"text {d['text']!r} memo={bool(j)}: real {str(d[key])[:300]} vs mirror {str(m)[:300]}")
        return None

    def oracle(self, case, obs):
        if "texts" not in obs:
            return None
        for d in obs["texts"]:
            if d["load0"] != d["load1"]:
                return f"text {d['text']!r}: without memoization {str(d['load0'])[:200]}, with memoization {str(d['load1'])[:200]}"
            if d["parse0"] != d["parse1"]:
                return f"text {d['text']!r}: parse differs: {str(d['parse0'])[:200]} vs {str(d['parse1'])[:200]}"
        return None

    def classify(self, case, obs, failure):
        if "texts" not in obs:
            return None
        bad = [d for d in obs["texts"] if d["load0"] != d["load1"] or d["parse0"] != d["parse1"]]
        if bad and all(d["parse0"] != d["parse1"] and d.get("parse1ctx") == d["parse0"]
                       and d.get("parse1fresh") == d["parse1"] for d in bad):
            return "C19-memo-key-ignores-ws-context"
        return None

    def nontrivial(self, case, obs):
        return any(d.get("hits", 0) > 0 for d in obs.get("texts", []))

    def sample_view(self, case, obs):
        v = {"grammar": case["grammar"], "cfg": case["cfg"], "texts": case["texts"]}
        if "texts" in obs:
            v["outcomes"] = [[str(d["load0"])[:120], d["hits"]] for d in obs["texts"]]
        else:
            v["obs"] = obs
        return v

    def extra_evidence(self, cases, obs, outs):
        tot = sum(len(o.get("texts", [])) for o in obs)
        acc = sum(1 for o in obs for d in o.get("texts", []) if "ok" in d["load0"])
        gerr = sum(1 for o in obs if "grammar_error" in o)
        return {"texts": tot, "accepted_texts": acc, "grammar_errors": gerr,
                "grammars_with_modifiers": sum(1 for c in cases if "[" in c["grammar"].split(":")[0] or "skipws" in c["grammar"] or "ws=" in c["grammar"])}

    def shrink(self, case):
        for i in range(len(case["texts"])):
            if len(case["texts"]) > 1:
                yield dict(case, texts=[case["texts"][i]])
