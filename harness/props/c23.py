"""C23 — invalid grammars are always reported as textX errors.

Implementation side: `metamodel_from_str(text, autokwd=…, ignore_case=…)` on
generated grammar texts; the observation is the outcome class (meta-model |
TextXSyntaxError | TextXSemanticError | TextXRegistrationError | TextXError |
any other exception with the place that raised it).

Streams (all choices from the run's PRNG):
  valid   grammars of harness/gen_grammar.py (links, modifiers, predicates, …)
  ast:*   one to three AST-level mutations of a valid grammar: undefined rule,
          dropped rule, duplicated rule, alias cycles / chains, alias graphs (rules whose
          body is one rule reference forming a random functional graph: tails into cycles,
          several tails, chains into real / base / undefined rules, entered from the root
          rule, from references in other rules or not at all), rule references redirected
          to arbitrary rules (recursion through ordinary / abstract rules), regular expressions drawn
          from the productions of Python's regex syntax (valid, or with one flaw: a
          repetition bound of every magnitude up to 10**30, reversed bounds, multiple /
          empty repeats, unbalanced groups and classes, bad escapes / groups / flags,
          conflicting flags, back-references, look-behinds, nesting deeper than the
          interpreter stack, character-level damage), string matches with generated
          escapes, bad rule parameters, modifiers on `?` / `=` / `?=`,
          `?=` twice / after `=` / inside a repetition, attribute `parent`, links to
          primitive types / unknown classes / unknown match rules / qualified names,
          `reference` statements, reserved rule names, `import`, `#` on single
          operands, rules named like base types, bad RREL, a `Comment` rule that is one
          rule reference (comments model re-read after reference resolution)
  tok:*   token-level mutations of a rendered grammar (drop / duplicate / swap /
          insert a token)
  free    grammars drawn directly from the productions of the grammar language
          with names from small pools (weird but mostly parseable)

Process state (the property says "any grammar text": in whatever state the process is): before a case the
module-level state of textX / Arpeggio (cached grammar parser `lang.textX_parsers`, `registration.languages` /
`metamodels`, the lazily built meta-models of registered languages, the `re` cache) is put back to "just imported";
30 % of the cases carry a `history` of 1-3 earlier calls of metamodel_from_str (the same text, a valid grammar that
loads a registered language, texts of every stream, texts the parser refuses, the same text with flipped options); every
call of the history is judged by the oracle, the last one additionally by the model - whose answer does not depend on
the history.  The model's inputs (parse tree, table of registered languages) are computed *after* the observation, so the
harness' own look at a language never builds it before textX needs it.  `reference` statements name the languages the
environment really registers (textX, questionnaire) with the namespace the grammar then uses (mutation `reflang`).

Lean side: the text is parsed with the grammar parser of the tree under test
(`ParserPython(lang.textx_model)`); the parse tree is converted into the typed
tree of `GramLoad.Grammar` (shape violations are reported, never patched) and
`GramLoad.compile` / `GramLoad.outcomes` give the outcome class
(Drivers/GramLoad.lean, op grammar_outcome; the answer also carries the syntactic
conditions of C23_classified — `bad_param`, `unregistered` — which `compare` holds
against the implementation's outcome: a TextXError needs the first, a
TextXRegistrationError the second).  One extra case (`isa-table`) compares the
exception subclass table of the model (`PyExc.isa`) with `issubclass`.  Whether a regex compiles (and the
class of the exception the regex engine raises when it does not: `re.error`,
OverflowError, RecursionError, ValueError, …) and whether the escapes of a string
decode is decided here with `re` / `codecs` (not through textX) and passed along.
"""
import copy
import os
import re

from harness import gen_grammar as G
from harness.core import Check, use_repo

# ---------------------------------------------------------------------------
# rendering (extended AST of gen_grammar: raw nodes, rich links, raw rule params, statements)
# ---------------------------------------------------------------------------
#   {"k":"raw","v":text}                       rendered verbatim
#   {"k":"link","cls":c,"rule":r|None,"sepch":":"|"|","rrel":text|None}
#   rule: {"name","params":{…}} or {"name","rawparams":[text…]}
#   grammar: {"stms":[text…],"rules":[…],"comment":src|None}


def render_expr(e, top=False):
    k = e["k"]
    if k == "raw":
        s = e["v"]
    elif k == "str":
        s = G.q(e["v"])
    elif k == "re":
        s = "/" + e["v"] + "/"
    elif k == "ref":
        s = e["name"]
    elif k == "link":
        s = "[" + e["cls"]
        if e.get("rule"):
            s += e.get("sepch", ":") + e["rule"]
            if e.get("rrel"):
                s += "|" + e["rrel"]
        s += "]"
    elif k == "seq":
        s = " ".join(render_expr(x) for x in e["xs"])
        if not top:
            s = "(" + s + ")"
    elif k == "alt":
        s = " | ".join(render_expr(x, top=(x["k"] == "seq" and not x.get("sup"))) for x in e["xs"])
        if not top:
            s = "(" + s + ")"
    elif k == "rep":
        x = e["x"]
        xs = render_expr(x)
        if x["k"] in ("rep", "pred", "asgn") or x.get("sup"):
            xs = "(" + xs + ")"
        s = xs + e["op"] + render_mods(e)
    elif k == "asgn":
        s = e["attr"] + e["op"] + render_expr(e["rhs"]) + render_mods(e)
    elif k == "pred":
        s = ("!" if e["neg"] else "&") + render_expr(e["x"])
    else:
        raise ValueError(k)
    if e.get("sup"):
        if k in ("seq", "alt") and top:
            s = "(" + s + ")"
        s += "-"
    return s


def render_mods(e):
    mods = []
    if e.get("sep"):
        mods.append(render_expr(e["sep"]))
    if e.get("eol"):
        mods.append("eolterm")
    for m in e.get("rawmods", []):
        mods.append(m)
    return "[" + " ".join(mods) + "]" if mods else ""


def render_grammar(g):
    out = list(g.get("stms", []))
    for r in g["rules"]:
        ps = []
        if "rawparams" in r:
            ps = list(r["rawparams"])
        else:
            p = r.get("params", {})
            if "skipws" in p:
                ps.append("skipws" if p["skipws"] else "noskipws")
            if "ws" in p:
                ps.append("ws=" + G.q(p["ws"]).replace("\\\\", "\\"))
        head = r["name"] + ("[" + ", ".join(ps) + "]" if ps else "")
        out.append(f"{head}: {render_expr(r['body'], top=True)};")
    if g.get("comment"):
        out.append(f"Comment: /{g['comment']}/;")
    return "\n".join(out) + "\n"


# ---------------------------------------------------------------------------
# pools
# ---------------------------------------------------------------------------
BAD_RE = [r"(", r"[a", r"*a", r"a{2,1}", r"(?P<n>a)(?P<n>b)", r"(?<=a+)b", r"\1", r"a)", r"(?z)", r"[b-a]", r"a**", r"\\N{x"]
BAD_STR = [r"'\xZZ'", r"'\u12zz'", r"'\N{no such name}'", r"'\U99999999'", r'"a\x4"', r"'k\u00'"]
ODD_STR = [r"'\n'", r"'\''", '"q"', r"'\q'", r"'\x41'", r"'\\'", "''", "'a b'", r"'Ab'", "'é'"]
BAD_PARAMS = ["ws", "nows", "split", "nosplit", "split=''", "foo", "noskipws='q'", "no", "skip", "ws=''", "skipws='a'",
              "split='.'", "nofoo", "WS='x'"]
BAD_RREL = ["^^", "a..b", "+x:a", "a.", "(a", "'x'", "~", "parent()", "a**", "+:a", ",a", "a,", "parent(1)", "a b"]
GOOD_RREL = ["a", "^a", "a.b", "a*", "^a*.b", "+m:a", "+p:a", "+mp:a.b", "parent(Model)", "~a", "'x'~a", "..a", ".",
             "(a,b)*.c", "(a)", "a,b", "^", "...", "+pm:^a,b"]
LANGS = ["textx", "textX", "foo", "no-such-lang", "x_y", "questionnaire"]
# languages registered in the environment of the check (entry points of the venv) with some of their class names; the
# names are only candidates for qualified references - what is registered and which classes exist is observed
# (`lang_table`) and handed to the model.  Their meta-models are built lazily, on the first lookup in a process.
REG_LANGS = {
    "textX": ["TextxModel", "TextxRule", "RuleName", "Sequence", "Choice", "Assignment", "RuleParam", "ImportStm", "ReferenceStm",
              "ID", "INT", "STRING"],
    "questionnaire": ["Questionnaire", "Question", "Type", "Choice", "ChoiceOption", "Free", "TextLine", "ID", "INT"],
}
TOKENS = ["A", "B", "Model", "R1", "R2", "INT", "ID", "STRING", "OBJECT", "BASETYPE", "NUMBER", "Comment", "x.Y",
          ":", ";", "|", "(", ")", "[", "]", "=", "+=", "*=", "?=", "*", "+", "?", "#", "-", "!", "&", ",", ".", "~", "^",
          "'a'", "'b'", "','", "''", "/x/", "/(/", r"/\d+/", "eolterm", "skipws", "noskipws", "ws", "ws='x'", "split",
          "a", "b", "name", "parent", "a=", "b+=", "c*=", "d?=", "[A]", "[Model]", "[A:ID]", "[A|ID]", "[A:ID|a]",
          "[A:ID|^a*.b]", "[A:ID|+m:a]", "[INT]", "[x.Y]", "import", "reference", "foo", "as", r"'\xZZ'", r"'\n'",
          "__asgn_x", "//c\n", "/*c*/", "/", "'", '"', "\t", "\r\n", "\u00e9", "\x00", "\ufeff", "/(?i)a/", "/a(?i)b/", "/a{4294967296}/", "/a{2,4294967294}/", "/(?a)(?u)a/",
          "'\u00e9'", "\u00c9: 'x';"]

TOKEN_RE = re.compile(
    r"""\s+|//[^\n]*|/\*.*?\*/|'(?:\\'|[^'])*'|"(?:\\"|[^"])*"|/(?:\\/|[^/\n])*/|[\w.]+|\+=|\*=|\?=|.""", re.S)


# ---------------------------------------------------------------------------
# process state: every case is observed after exactly the history it lists
# ---------------------------------------------------------------------------
# metamodel_from_str is not a function of its arguments alone: textX keeps process-wide state (the cached grammar
# parser `lang.textX_parsers` with the input / parse tree / error state of its last run, `registration.languages`,
# `registration.metamodels` and `TextXMetaMetaModel._metamodel` with the lazily built meta-models of registered
# languages, the regex cache of `re`).  The property quantifies over every grammar text in whatever state the process
# is in, so the state is part of the case: it is put back to "textX just imported" before a case and then produced by
# the case's own `history` (earlier calls of metamodel_from_str).  Same technique as the C20 / C22 / C05 checks
# (own copy: other properties' files are not imported).
_PRISTINE = None
_PLAINT = (int, bool, str, float, type(None), tuple, frozenset, bytes)


def _state_cells():
    import sys as _sys

    out = []
    for mname, mod in sorted(_sys.modules.items()):
        if mod is None or not (mname == "textx" or mname.startswith("textx.") or mname == "arpeggio"
                               or mname.startswith("arpeggio.")):
            continue
        for k, v in list(vars(mod).items()):
            if k.startswith("__"):
                continue
            if type(v) in (dict, list, set) or type(v) in _PLAINT or (
                    hasattr(v, "cache_clear") and getattr(v, "__module__", None) == mname):
                out.append((mod, mname, k, v))
            elif isinstance(v, type) and getattr(v, "__module__", None) == mname:
                for ck, cv in list(vars(v).items()):
                    if not ck.startswith("__") and (type(cv) in (dict, list, set) or type(cv) in _PLAINT):
                        out.append((v, f"{mname}.{v.__name__}", ck, cv))
    return out


def reset_process_state():
    """module-level / class-level plain state of the textX and Arpeggio modules, functools caches and the regex cache
    back to what they were when the code under test had just been imported"""
    global _PRISTINE
    use_repo()
    import arpeggio  # noqa: F401
    import textx  # noqa: F401
    import textx.lang  # noqa: F401
    import textx.metamodel  # noqa: F401
    import textx.model  # noqa: F401
    import textx.registration  # noqa: F401
    import textx.scoping  # noqa: F401
    import textx.scoping.providers  # noqa: F401

    re.purge()
    cells = _state_cells()
    if _PRISTINE is None:
        _PRISTINE = {}
        for owner, oname, k, v in cells:
            if not hasattr(v, "cache_clear"):
                _PRISTINE[(oname, k)] = (v, copy.copy(v))
        return
    for owner, oname, k, v in cells:
        if hasattr(v, "cache_clear"):
            v.cache_clear()
            continue
        ref = _PRISTINE.get((oname, k))
        if ref is None:
            continue
        saved = ref[1]
        if type(saved) in _PLAINT:
            if type(v) is not type(saved) or v != saved:
                setattr(owner, k, saved)
            continue
        if type(v) is not type(saved):          # a container rebound to something else (`languages = None` -> dict is the
            setattr(owner, k, copy.copy(saved))  # other direction and handled above)
            continue
        if ref[0] is not v:
            # the name was rebound to a new container (registration.clear_language_registrations): restore the content
            if type(v) is list:
                v[:] = saved
            else:
                v.clear()
                v.update(saved)
            continue
        if v == saved:
            continue
        if type(v) is list:
            v[:] = saved
        else:
            v.clear()
            v.update(saved)


def built_languages():
    """names of the registered languages whose meta-model exists in this process right now (read only)"""
    import textx.registration as reg

    out = []
    for k, v in list(reg.metamodels.items()):
        if type(v).__name__ == "TextXMetaMetaModel" and getattr(v, "_metamodel", None) is None:
            continue
        out.append(k)
    return sorted(out)


def tokenize(text):
    return [t for t in TOKEN_RE.findall(text) if not t.isspace()]


def join_tokens(toks):
    out = ""
    for t in toks:
        if out and not out.endswith("\n"):
            out += " "
        out += t
        if t in (";",) or t.startswith("//"):
            out += "\n"
    return out


# ---------------------------------------------------------------------------
# regular expressions drawn from the productions of Python's regex syntax
# ---------------------------------------------------------------------------
#   regex := branch ('|' branch)*     branch := piece+      piece := atom quant?
#   atom  := char | '.' | class | escape | anchor | group | back-reference
#   group := '(' regex ')' | '(?:' … | '(?P<n>' … | look-around | '(?P=n)' | '(?(1)a|b)' | '(?i:' … | '(?#…)' | '(?>' …
#   quant := '*' | '+' | '?' | '{m}' | '{m,}' | '{,n}' | '{m,n}'   each optionally lazy '?' or possessive '+'
# A regex is either generated valid, or valid with exactly one flaw of one of RE_FLAWS (every flaw sits on
# one production).  Numbers come from magnitude classes up to far beyond the regex engine's limits.
SMALL_N = [0, 1, 1, 2, 2, 3, 5, 10]
EDGE_N = [255, 256, 65535, 65536, 2 ** 31 - 1, 2 ** 31, 2 ** 32 - 2, 2 ** 32 - 1, 2 ** 32, 2 ** 32 + 1, 2 ** 63, 2 ** 64,
          10 ** 20, 10 ** 30]
RE_FLAWS = ["bound-edge", "bound-order", "multi-repeat", "empty-repeat", "open-group", "close-group", "open-class",
            "class-range", "bad-escape", "bad-group", "bad-flags", "flags-conflict", "backref", "lookbehind", "deep", "charmut"]
RE_SLASH_SAFE = re.compile(r"(?:\\[^\n]|[^/\\\n])*\Z")


class ReGen:
    CHARS = list("abcxyz019_ -:,;=<>!&#%@~") + ["é", "ß"]
    ESC_OK = [r"\d", r"\w", r"\s", r"\S", r"\D", r"\b", r"\B", r"\A", r"\Z", r"\.", r"\\", r"\/", r"\n", r"\t", r"\x41",
              r"\u00e9", r"\U0001F600", r"\N{DIGIT ONE}", r"\077", r"\0", r"\-", r"\(", r"\[", r"\*", r"\$"]
    ESC_BAD = [r"\q", r"\N{no such name}", r"\N", r"\N{", r"\x4", r"\xZZ", r"\u12", r"\U99999999", r"\U0000", r"\777", r"\400",
               r"\p{L}", r"\g<1>", r"\z", r"\e", r"\c", r"\i", r"\X", r"\R"]
    GROUP_BAD = ["(?P<1a>x)", "(?P<n>a)(?P<n>b)", "(?P=nope)", "(?P<n", "(?Px)", "(?", "(?<a)", "(?(9)a|b)", "(a)(?(1)a|b|c)",
                 "(?(x)a)", "(?#unterminated", "(?P>x)", "(?P<>x)", "(?P<é-1>x)", "(?(0)a)", "(?P=)", "(?(", "(?<", "(?'n'x)"]
    FLAGS_BAD = ["(?z)", "(?L)", "(?iz)", "(?i-)", "(?-i)", "(?i-i:a)", "(?au)", "(?a-u:x)", "(?-:a)", "(?L:a)", "(?aL:a)",
                 "(?i", "(?i:", "(?-a:x)", "(?ii)", "(?u-u:x)", "(?t)"]
    FLAGS_CONFLICT = ["(?a)(?u)", "(?u)(?a)", "(?a)(?iu)", "(?mu)(?a)", "(?a)(?u)(?i)"]
    LOOKBEHIND_BAD = ["(?<=a+)b", "(?<!a*)", "(?<=a|bc)", "(?<=a{1,2})", "(?<!(a)?)", "(?<=.*)", r"(?<=(?P<q>a)|b\1)"]
    NAMES = ["n", "id", "k1", "g"]

    def __init__(self, rng):
        self.r = rng
        self.ngroups = 0
        self.named = []

    def num(self, edge=False):
        return self.r.choice(EDGE_N if edge else SMALL_N)

    def bound(self, edge=False):
        r = self.r
        m, n = self.num(), self.num(edge)
        if not edge and m > n:
            m, n = n, m
        form = r.choice(["{n}", "{m,n}", "{m,n}", "{n,}", "{,n}"])
        return form.replace("m", str(m)).replace("n", str(n))

    def quant(self, edge=False):
        r = self.r
        q = self.bound(True) if edge else r.weighted([("*", 3), ("+", 3), ("?", 3), (self.bound(), 3)])
        return q + r.weighted([("", 8), ("?", 1), ("+", 1)])

    def cls(self):
        r = self.r
        items = []
        for _ in range(r.randint(1, 3)):
            items.append(r.choice(["a", "a-c", "0-9", "A-Z", r"\d", r"\w", r"\s", r"\]", r"\\", r"\-", "_", ".", "^", "$", "é",
                                   "x-z", r"\x41-\x5a", r"\/", "(", "*", r"\n", r"\u00e0-\u00ff", "[:alpha:]"]))
        return "[" + ("^" if r.chance(0.25) else "") + "".join(items) + "]"

    def group(self, d):
        r = self.r
        kind = r.weighted([("cap", 4), ("non", 3), ("named", 2), ("ahead", 1), ("nahead", 1), ("behind", 1), ("nbehind", 1),
                           ("nameref", 1), ("cond", 1), ("flags", 2), ("comment", 1), ("atomic", 1)])
        if kind == "cap":
            self.ngroups += 1
            return "(" + self.regex(d - 1) + ")"
        if kind == "non":
            return "(?:" + self.regex(d - 1) + ")"
        if kind == "named":
            free = [n for n in self.NAMES if n not in self.named]
            if not free:
                return "(?:" + self.regex(d - 1) + ")"
            nm = r.choice(free)
            self.named.append(nm)
            self.ngroups += 1
            return f"(?P<{nm}>" + self.regex(d - 1) + ")"
        if kind in ("ahead", "nahead"):
            return ("(?=" if kind == "ahead" else "(?!") + self.regex(d - 1) + ")"
        if kind in ("behind", "nbehind"):
            fixed = "".join(r.choice(["a", ".", r"\d", "[ab]", "x{2}", r"\."]) for _ in range(r.randint(1, 2)))
            return ("(?<=" if kind == "behind" else "(?<!") + fixed + ")"
        if kind == "nameref" and self.named:
            return f"(?P={r.choice(self.named)})"
        if kind == "cond" and self.ngroups:
            ref = str(r.randint(1, self.ngroups)) if not self.named or r.chance(0.6) else r.choice(self.named)
            return f"(?({ref})" + self.branch(0) + ("|" + self.branch(0) if r.chance(0.6) else "") + ")"
        if kind == "flags":
            on = "".join(r.sample(list("imsx"), r.randint(1, 2)))
            off = "-" + r.choice([c for c in "imsx" if c not in on]) if r.chance(0.3) else ""
            return f"(?{on}{off}:" + self.regex(d - 1) + ")"
        if kind == "comment":
            return "(?#" + r.choice(["c", "", "a b", "[", "*"]) + ")"
        return "(?>" + self.regex(d - 1) + ")"

    def atom(self, d):
        r = self.r
        c = r.weighted([("ch", 7), ("dot", 1), ("cls", 3), ("esc", 3), ("grp", 4 if d > 0 else 0), ("anchor", 1),
                        ("backref", 1 if self.ngroups else 0)])
        if c == "ch":
            return r.choice(self.CHARS)
        if c == "dot":
            return "."
        if c == "cls":
            return self.cls()
        if c == "esc":
            return r.choice(self.ESC_OK)
        if c == "grp":
            return self.group(d)
        if c == "anchor":
            return r.choice(["^", "$"])
        return "\\" + str(r.randint(1, self.ngroups))

    def piece(self, d):
        a = self.atom(d)
        if a in ("^", "$") or a[:2] in (r"\b", r"\B", r"\A", r"\Z") or a.startswith(("(?=", "(?!", "(?<", "(?#")):
            return a
        return a + (self.quant() if self.r.chance(0.35) else "")

    def branch(self, d):
        return "".join(self.piece(d) for _ in range(self.r.randint(1, 3)))

    def regex(self, d):
        return "|".join(self.branch(d) for _ in range(self.r.weighted([(1, 6), (2, 2), (3, 1)])))

    def valid(self):
        r = self.r
        pre = ""
        if r.chance(0.12):
            pre = "(?" + "".join(r.sample(list("imsxau"), 1) if r.chance(0.7) else r.sample(list("imsx"), 2)) + ")"
        return pre + self.regex(r.weighted([(0, 3), (1, 4), (2, 2)]))

    # --- one flaw -----------------------------------------------------------
    def flawed(self, flaw):
        r = self.r
        pieces = [self.piece(1) for _ in range(r.randint(0, 3))]
        at_start = False
        simple = r.choice(["a", ".", "[a-c]", r"\d", "(?:ab)", "(x|y)"])
        if flaw == "bound-edge":
            bad = simple + self.quant(edge=True)
        elif flaw == "bound-order":
            m = self.num() + 1
            bad = simple + "{" + str(m + r.choice([1, 2, 65536, 2 ** 32])) + "," + str(m) + "}"
        elif flaw == "multi-repeat":
            bad = simple + r.choice(["**", "*{2}", "{2}{3}", "+*", "??+", "{1,2}*", "?{2}", "+++"])
        elif flaw == "empty-repeat":
            bad = r.choice(["*a", "+", "?", "(*a)", "(?:+)", "a|*b", "{2}", "^*", "(?=a)*", "$+"])
            at_start = bad[0] in "*+?{"
        elif flaw == "open-group":
            bad = r.choice(["(", "(?:", "(?P<n>", "(?=", "(?i:", "(?>"]) + simple
        elif flaw == "close-group":
            bad = simple + ")"
        elif flaw == "open-class":
            bad = r.choice(["[a-c", "[", "[^", "[]", "[^]", r"[a\]", "[a-", "[[:alpha:]"])
        elif flaw == "class-range":
            bad = r.choice(["[c-a]", r"[\d-z]", r"[a-\d]", "[9-0]", r"[\w-\s]", r"[z-\x41]", "[--!]"])
        elif flaw == "bad-escape":
            bad = r.choice(self.ESC_BAD) + r.choice(["", "a", "+"])
        elif flaw == "bad-group":
            bad = r.choice(self.GROUP_BAD)
        elif flaw == "bad-flags":
            bad = r.choice(self.FLAGS_BAD)
            at_start = r.chance(0.5)
        elif flaw == "flags-conflict":
            bad = r.choice(self.FLAGS_CONFLICT)
            at_start = r.chance(0.8)
        elif flaw == "backref":
            bad = r.choice([r"\3", r"(a\1)", r"\10", r"\1(a)", r"(?P<k>a(?P=k))", r"(a)|\2", r"(?:a)\1", r"\99"])
        elif flaw == "lookbehind":
            bad = r.choice(self.LOOKBEHIND_BAD)
        elif flaw == "deep":
            n = r.choice([12, 60, 3000, 3000, 5000])
            op, cl = r.choice([("(", ")"), ("(?:", ")"), ("(?:", ")?"), ("(a|", ")")])
            bad = op * n + simple + cl * n
        else:  # charmut: character-level damage of a valid regex
            src = self.valid()
            for _ in range(r.randint(1, 2)):
                j = r.below(len(src) + 1)
                op = r.choice(["drop", "dup", "ins", "ins"])
                if op == "drop" and src:
                    j = min(j, len(src) - 1)
                    src = src[:j] + src[j + 1:]
                elif op == "dup" and src:
                    j = min(j, len(src) - 1)
                    src = src[:j] + src[j] + src[j:]
                else:
                    src = src[:j] + r.choice(list("()[]{}*+?|\\^$-,:<>=!P#") + ["(?", "{,", "\\\\"]) + src[j:]
            return src
        if at_start:
            return bad + "".join(pieces)
        j = r.below(len(pieces) + 1)
        return "".join(pieces[:j]) + bad + "".join(pieces[j:])


def gen_regex(rng, flaw_p=0.6):
    """(source, flaw | None); the source can stand between the slashes of a regex match"""
    gen = ReGen(rng)
    # the flaws the regex engine answers with another exception class than re.error are drawn more often
    flaw = rng.weighted([(f, 3 if f in ("bound-edge", "deep", "flags-conflict") else 1) for f in RE_FLAWS]) if rng.chance(flaw_p) else None
    for _ in range(4):
        src = gen.flawed(flaw) if flaw else gen.valid()
        if src and RE_SLASH_SAFE.match(src) and not src.startswith(("/", "*")):  # `//`, `/*` would open a comment
            return src, flaw
    return r"\w+", None


# ---------------------------------------------------------------------------
# string matches with generated escape sequences
# ---------------------------------------------------------------------------
STR_ESC_OK = [r"\n", r"\t", r"\\", r"\a", r"\b", r"\f", r"\r", r"\v", r"\x41", r"\x7f", r"\xff", r"\u0041", r"\u00e9", r"\uffff",
              r"\ud800", r"\udfff", r"\U0001F600", r"\U0010FFFF", r"\U00000041", r"\N{DIGIT ONE}", r"\N{LATIN SMALL LETTER A}",
              r"\N{dash}", r"\0", r"\7", r"\77", r"\377", r"\400", r"\777", r"\q", r"\8", r"\N", r"\N{}", r"\x", r"\u", r"\ "]
STR_ESC_BAD = [r"\xZZ", r"\x4", r"\x4g", r"\u12zz", r"\u12", r"\u00", r"\uD8", r"\U99999999", r"\U00110000", r"\UFFFFFFFF",
               r"\U0000", r"\Uzzzzzzzz", r"\N{no such name}", r"\N{ }", r"\N{LATIN}", r"\N{1}", r"\x-1", r"\u+041", r"\U-0000041"]


def gen_str_literal(rng, bad_p=0.6):
    """a string match in grammar syntax; with `bad_p` one of its escape sequences is malformed"""
    quote = rng.choice("'\"")
    parts = [rng.choice(["a", "b", "k", " ", "x1", "é", "", "-", "if"] + STR_ESC_OK[:20]) for _ in range(rng.randint(0, 3))]
    esc = rng.choice(STR_ESC_BAD) if rng.chance(bad_p) else rng.choice(STR_ESC_OK)
    parts.insert(rng.below(len(parts) + 1), esc)
    if parts[-1].endswith("\\") or (len(parts[-1]) < 10 and parts[-1][:2] in (r"\U", r"\u", r"\x")):
        parts.append("z")  # the closing quote must not become part of an escape
    body = "".join(parts).replace(quote, "")
    return quote + body + quote


# ---------------------------------------------------------------------------
# AST walking helpers
# ---------------------------------------------------------------------------
def subexprs(e, acc=None, parent=None, key=None):
    """every (node, parent-container, key) below e, pre-order"""
    acc = acc if acc is not None else []
    acc.append((e, parent, key))
    for f in ("x", "rhs", "sep"):
        if isinstance(e.get(f), dict):
            subexprs(e[f], acc, e, f)
    for i, x in enumerate(e.get("xs", [])):
        subexprs(x, acc, e["xs"], i)
    return acc


def all_nodes(g):
    out = []
    for r in g["rules"]:
        out += [(n, p if p is not None else r, k if p is not None else "body") for (n, p, k) in subexprs(r["body"])]
    return out


def replace(p, k, new):
    p[k] = new


# ---------------------------------------------------------------------------
# AST-level mutations
# ---------------------------------------------------------------------------
def m_undef_ref(g, rng):
    refs = [(n, p, k) for (n, p, k) in all_nodes(g) if n["k"] == "ref"]
    if refs:
        n, p, k = rng.choice(refs)
        n["name"] = rng.choice(["Undef", "R9", "model", "Id", "EOF"])
    else:
        g["rules"][0]["body"] = {"k": "ref", "name": "Undef"}


def m_drop_rule(g, rng):
    if len(g["rules"]) > 1:
        del g["rules"][rng.randint(1, len(g["rules"]) - 1)]
    else:
        m_undef_ref(g, rng)


def m_dup_rule(g, rng):
    r = copy.deepcopy(rng.choice(g["rules"]))
    if rng.chance(0.5):
        r["body"] = rng.choice([{"k": "str", "v": "dup"}, {"k": "ref", "name": rng.choice(g["rules"])["name"]},
                                {"k": "asgn", "attr": "z", "op": "=", "rhs": {"k": "ref", "name": "INT"}, "sep": None, "eol": False}])
    g["rules"].insert(rng.randint(0, len(g["rules"])), r)


def m_alias_cycle(g, rng):
    names = [r["name"] for r in g["rules"]]
    kind = rng.choice(["self", "cycle", "chain-undef", "chain-ok", "self-sup", "cycle-new"])
    if kind in ("self", "self-sup"):
        r = rng.choice(g["rules"])
        r["body"] = {"k": "ref", "name": r["name"]}
        if kind == "self-sup":
            r["body"]["sup"] = True
    elif kind == "cycle" and len(names) >= 2:
        pick = rng.sample(g["rules"], rng.randint(2, min(4, len(names))))
        for i, r in enumerate(pick):
            r["body"] = {"k": "ref", "name": pick[(i + 1) % len(pick)]["name"]}
            if rng.chance(0.2):
                r["params"] = {}
    elif kind == "chain-undef":
        pick = rng.sample(g["rules"], rng.randint(1, min(3, len(names))))
        for i, r in enumerate(pick):
            r["body"] = {"k": "ref", "name": pick[i + 1]["name"] if i + 1 < len(pick) else "Undef"}
    elif kind == "chain-ok" and len(names) >= 2:
        order = rng.shuffle(list(range(len(g["rules"]))))
        pick = [g["rules"][i] for i in order[: rng.randint(2, min(4, len(names)))]]
        for i, r in enumerate(pick[:-1]):
            r["body"] = {"k": "ref", "name": pick[i + 1]["name"]}
    else:
        k = rng.randint(1, 3)
        new = [f"Z{i}" for i in range(k)]
        for i, nm in enumerate(new):
            g["rules"].append({"name": nm, "params": {}, "body": {"k": "ref", "name": new[(i + 1) % k]}})
        if rng.chance(0.5):
            g["rules"][0]["body"] = {"k": "seq", "xs": [g["rules"][0]["body"], {"k": "ref", "name": new[0]}]}


def _alias_edges(rng, nodes, real):
    """targets of the alias rules `nodes`: a functional graph of one of several shapes"""
    k = len(nodes)
    shape = rng.weighted([("rho", 4), ("two-tails", 2), ("random", 4), ("chain", 2), ("cycle", 1)])
    outside = lambda: rng.weighted([(rng.choice(real) if real else "Undef", 5), (rng.choice(G.BASE + ["OBJECT"]), 2), ("Undef", 2),
                                    (rng.choice(["x.Y", "textx.TextxRule", "__base__.INT"]), 1)])
    if shape == "rho" and k >= 2:
        t = rng.randint(1, k - 1)                      # tail nodes[0:t], cycle nodes[t:]
        tgt = [nodes[i + 1] for i in range(k - 1)] + [nodes[t]]
    elif shape == "two-tails" and k >= 3:
        c = rng.randint(1, k - 2)                      # cycle nodes[0:c], the others lead into it (directly or one after another)
        tgt = [nodes[(i + 1) % c] for i in range(c)]
        for i in range(c, k):
            tgt.append(rng.choice(nodes[:i]))
    elif shape == "chain":
        tgt = [nodes[i + 1] for i in range(k - 1)] + [outside() if rng.chance(0.6) else rng.choice(nodes)]
    elif shape == "cycle":
        tgt = [nodes[(i + 1) % k] for i in range(k)]
    else:
        shape = "random"
        tgt = [rng.choice(nodes) if rng.chance(0.75) else outside() for _ in range(k)]
    return shape, tgt


def _ref_in_context(rng, name, real_names):
    """a reference to rule `name` in one of the syntactic positions a rule reference can take"""
    ref = {"k": "ref", "name": name}
    c = rng.weighted([("plain", 4), ("asgn", 3), ("rep", 2), ("pred", 1), ("sup", 1), ("link", 1), ("group", 1)])
    if c == "asgn":
        return {"k": "asgn", "attr": rng.choice(["x", "al", "name"]), "op": rng.choice(["=", "+=", "*=", "?="]), "rhs": ref,
                "sep": None, "eol": False}
    if c == "rep":
        return {"k": "rep", "op": rng.choice("*+?#"), "x": ref, "sep": None, "eol": False}
    if c == "pred":
        return {"k": "seq", "xs": [{"k": "pred", "neg": rng.chance(0.5), "x": ref}, {"k": "str", "v": "p"}]}
    if c == "sup":
        return dict(ref, sup=True)
    if c == "link":
        return {"k": "asgn", "attr": "lk", "op": rng.choice(["=", "+="]),
                "rhs": {"k": "link", "cls": rng.choice(real_names) if real_names else "OBJECT", "rule": name, "rrel": None,
                        "sepch": rng.choice([":", "|"])}, "sep": None, "eol": False}
    if c == "group":
        return {"k": "alt", "xs": [ref, {"k": "str", "v": "g"}]}
    return ref


def m_alias_graph(g, rng):
    """Rules whose body is a single rule reference, forming a random functional graph: tails leading into
    cycles, several tails into one cycle, chains that end in a real / base / undefined rule; the rules are new or
    take over existing rules (keeping the references other rules have to them), stand anywhere in the grammar
    (also first: the walk of the second pass then starts inside the graph) and are referenced from other rules in
    every syntactic position, or not at all."""
    k = rng.weighted([(2, 2), (3, 4), (4, 3), (5, 2), (6, 1), (8, 1)])
    old = rng.shuffle(list(range(len(g["rules"]))))
    nodes, take = [], {}
    for i in range(k):
        if old and rng.chance(0.3):
            j = old.pop()
            nm = g["rules"][j]["name"]
            if nm in nodes:
                nm = f"Z{i}"
            else:
                take[nm] = j
        else:
            nm = f"Z{i}"
        nodes.append(nm)
    real = [r["name"] for i, r in enumerate(g["rules"]) if i not in take.values()]
    shape, tgt = _alias_edges(rng, nodes, real)
    new_rules = []
    for nm, t in zip(nodes, tgt):
        body = {"k": "ref", "name": t}
        deco = rng.weighted([("none", 14), ("paren", 2), ("sup", 1), ("params", 1), ("pred", 1), ("rep", 1)])
        rule = {"name": nm, "params": {}, "body": body}
        if deco == "paren":
            rule["body"] = {"k": "raw", "v": "(" * rng.randint(1, 2) + t}
            rule["body"]["v"] += ")" * rule["body"]["v"].count("(")
        elif deco == "sup":
            body["sup"] = True
        elif deco == "params":
            rule["params"] = {"skipws": rng.chance(0.5)}
        elif deco == "pred":
            rule["body"] = {"k": "seq", "xs": [{"k": "pred", "neg": True, "x": body}, {"k": "str", "v": "p"}]}
        elif deco == "rep":
            rule["body"] = {"k": "rep", "op": rng.choice("*+?"), "x": body, "sep": None, "eol": False}
        if nm in take:
            g["rules"][take[nm]] = rule
        else:
            new_rules.append(rule)
    for rule in rng.shuffle(new_rules):
        g["rules"].insert(rng.randint(0, len(g["rules"])), rule)
    hosts = [r for r in g["rules"] if r["name"] not in nodes]
    if hosts:
        for _ in range(rng.weighted([(0, 2), (1, 5), (2, 2)])):
            host = rng.choice(hosts)
            node = _ref_in_context(rng, rng.choice(nodes[:2]) if rng.chance(0.6) else rng.choice(nodes), real)
            if rng.chance(0.3):
                host["body"] = {"k": "alt", "xs": [host["body"], node]}
            else:
                host["body"] = {"k": "seq", "xs": [host["body"], node] if rng.chance(0.7) else [node, host["body"]]}
    return shape


def m_rewire(g, rng):
    """Recursive rule definitions through ordinary rules: rule references are redirected to arbitrary rules of the
    grammar (backwards, to the rule itself, to the root), so abstract rules inherit from each other in cycles, rules are
    left / right / mutually recursive, and single alternatives point back to their ancestors."""
    names = [r["name"] for r in g["rules"]]
    refs = [(n, p, k) for (n, p, k) in all_nodes(g) if n["k"] == "ref" and n["name"] in names]
    if not refs:
        r = rng.choice(g["rules"])
        r["body"] = {"k": "alt", "xs": [{"k": "ref", "name": rng.choice(names)}, r["body"]]}
        return
    for n, _p, _k in rng.sample(refs, min(len(refs), rng.randint(1, 4))):
        n["name"] = rng.choice(names)
    if rng.chance(0.4):
        # a rule that is nothing but a choice of rules (an abstract rule), pointing anywhere
        r = rng.choice(g["rules"])
        r["body"] = {"k": "alt", "xs": [{"k": "ref", "name": rng.choice(names)} for _ in range(rng.randint(2, 3))]}


def _literal_slots(g):
    return [(n, p, k) for (n, p, k) in all_nodes(g) if n["k"] in ("str", "re")]


def m_bad_regex(g, rng):
    """an invalid regex from the fixed pool (kept: the classical witnesses)"""
    slots = _literal_slots(g)
    bad = {"k": "re", "v": rng.choice(BAD_RE)}
    if slots and rng.chance(0.8):
        n, p, k = rng.choice(slots)
        replace(p, k, bad)
    else:
        g["rules"][-1]["body"] = {"k": "seq", "xs": [g["rules"][-1]["body"], bad]}


def m_regex(g, rng):
    """a regex drawn from the regex productions (valid, or with one flaw) in one of the places a regex match can
    stand: instead of a literal (rule bodies, separators of repeat modifiers), at the end of a rule, as the right-hand
    side of an assignment, as a new match rule, as the Comment rule"""
    src, _flaw = gen_regex(rng)
    node = {"k": "re", "v": src}
    slots = _literal_slots(g)
    where = rng.weighted([("slot", 6 if slots else 0), ("append", 2), ("asgn", 2), ("rule", 2), ("comment", 1), ("sep", 1)])
    if where == "slot":
        n, p, k = rng.choice(slots)
        replace(p, k, node)
    elif where == "append":
        r = rng.choice(g["rules"])
        r["body"] = {"k": "seq", "xs": [r["body"], node]}
    elif where == "asgn":
        r = rng.choice(g["rules"])
        a = {"k": "asgn", "attr": rng.choice(["v", "val", "a"]), "op": rng.choice(["=", "+=", "?="]), "rhs": node, "sep": None, "eol": False}
        r["body"] = {"k": "seq", "xs": [r["body"], a]}
    elif where == "rule":
        g["rules"].append({"name": "Rx", "params": {}, "body": node})
        r = rng.choice(g["rules"][:-1])
        r["body"] = {"k": "seq", "xs": [r["body"], {"k": "rep", "op": "?", "x": {"k": "ref", "name": "Rx"}, "sep": None, "eol": False}]}
    elif where == "comment":
        if not any(r["name"] == "Comment" for r in g["rules"]):
            g["comment"] = src
    else:
        r = rng.choice(g["rules"])
        r["body"] = {"k": "seq", "xs": [r["body"], {"k": "rep", "op": rng.choice("*+"), "x": {"k": "str", "v": "s"}, "sep": node,
                                                    "eol": rng.chance(0.2)}]}


def m_bad_escape(g, rng):
    slots = _literal_slots(g)
    c = rng.below(10)
    bad = {"k": "raw", "v": gen_str_literal(rng) if c < 5 else rng.choice(BAD_STR if c < 8 else ODD_STR)}
    if slots and rng.chance(0.8):
        n, p, k = rng.choice(slots)
        replace(p, k, bad)
    else:
        g["rules"][-1]["body"] = {"k": "seq", "xs": [bad, g["rules"][-1]["body"]]}


def m_bad_param(g, rng):
    r = rng.choice(g["rules"])
    ps = [rng.choice(BAD_PARAMS) for _ in range(rng.randint(1, 2))]
    if rng.chance(0.3):
        ps.insert(rng.below(len(ps) + 1), rng.choice(["skipws", "noskipws", "ws=' '"]))
    r["rawparams"] = ps


def m_bad_mods(g, rng):
    nodes = all_nodes(g)
    kind = rng.choice(["opt", "asgn", "asgn-new", "opt-new", "odd"])
    reps = [(n, p, k) for (n, p, k) in nodes if n["k"] == "rep" and n["op"] == "?"]
    asg = [(n, p, k) for (n, p, k) in nodes if n["k"] == "asgn" and n["op"] in ("=", "?=")]
    sep = {"k": "str", "v": ","}
    if kind == "opt" and reps:
        rng.choice(reps)[0]["sep"] = sep
    elif kind == "asgn" and asg:
        n = rng.choice(asg)[0]
        if rng.chance(0.5):
            n["sep"] = sep
        else:
            n["eol"] = True
    elif kind == "odd":
        cands = [(n, p, k) for (n, p, k) in nodes if n["k"] in ("rep", "asgn")]
        if cands:
            rng.choice(cands)[0]["rawmods"] = [rng.choice(["','", "eolterm", "/x/", "/(/", r"'\xZZ'", "';' ','", "eolterm eolterm"])
                                               for _ in range(rng.randint(1, 2))]
        else:
            kind = "opt-new"
    if kind in ("asgn-new",) or (kind == "asgn" and not asg):
        a = {"k": "asgn", "attr": "m", "op": rng.choice(["=", "?="]), "rhs": {"k": "ref", "name": "INT"}, "sep": sep, "eol": False}
        g["rules"][0]["body"] = {"k": "seq", "xs": [g["rules"][0]["body"], a]}
    if kind in ("opt-new",) or (kind == "opt" and not reps):
        a = {"k": "rep", "op": "?", "x": {"k": "str", "v": "o"}, "sep": sep, "eol": rng.chance(0.3)}
        g["rules"][-1]["body"] = {"k": "seq", "xs": [a, g["rules"][-1]["body"]]}


def m_bool_asgn(g, rng):
    kind = rng.choice(["twice", "after", "before", "inrep", "inrep-plus", "bool-list"])
    r = rng.choice(g["rules"])
    attr = rng.choice(["a", "b", "flag"])
    mk = lambda op: {"k": "asgn", "attr": attr, "op": op, "rhs": rng.choice([{"k": "str", "v": "f"}, {"k": "ref", "name": "INT"}]),
                     "sep": None, "eol": False}
    if kind == "twice":
        new = [mk("?="), mk("?=")]
    elif kind == "after":
        new = [mk(rng.choice(["=", "+="])), mk("?=")]
    elif kind == "before":
        new = [mk("?="), mk(rng.choice(["=", "+=", "*="]))]
    elif kind == "inrep":
        new = [{"k": "rep", "op": rng.choice(["*", "+"]), "x": {"k": "seq", "xs": [{"k": "str", "v": "r"}, mk("?=")]}, "sep": None, "eol": False}]
    elif kind == "inrep-plus":
        new = [{"k": "rep", "op": "+", "x": {"k": "rep", "op": rng.choice(["?", "#"]), "x": {"k": "seq", "xs": [{"k": "str", "v": "r"}, mk("?=")]},
                                             "sep": None, "eol": False}, "sep": None, "eol": False}]
    else:
        new = [{"k": "rep", "op": rng.choice(["?", "#"]), "x": {"k": "seq", "xs": [{"k": "str", "v": "r"}, mk("?=")]}, "sep": None, "eol": False}]
    if rng.chance(0.5):
        r["body"] = {"k": "seq", "xs": [r["body"]] + new}
    else:
        r["body"] = {"k": "alt", "xs": [r["body"], {"k": "seq", "xs": new + [{"k": "str", "v": "t"}]}]}


def m_parent_attr(g, rng):
    asg = [(n, p, k) for (n, p, k) in all_nodes(g) if n["k"] == "asgn"]
    if asg and rng.chance(0.7):
        rng.choice(asg)[0]["attr"] = "parent"
    else:
        r = rng.choice(g["rules"])
        r["body"] = {"k": "seq", "xs": [r["body"], {"k": "asgn", "attr": "parent", "op": rng.choice(["=", "+=", "?="]),
                                                    "rhs": {"k": "ref", "name": "ID"}, "sep": None, "eol": False}]}


def m_link(g, rng):
    names = [r["name"] for r in g["rules"]]
    kind = rng.choice(["prim", "unknown-cls", "unknown-rule", "qualified", "ok-rule", "rrel", "bad-rrel", "base-ns", "object"])
    link = {"k": "link", "cls": rng.choice(names), "rule": None, "rrel": None, "sepch": rng.choice([":", "|"])}
    if kind == "prim":
        link["cls"] = rng.choice(G.BASE + ["STRICTFLOAT", "BASETYPE"])
    elif kind == "unknown-cls":
        link["cls"] = rng.choice(["Nope", "model", "Id"])
    elif kind == "unknown-rule":
        link["rule"] = rng.choice(["Nope", "id", "FQN"])
    elif kind == "qualified":
        link["cls"] = rng.choice(["x.A", "foo.Model", "textx.TextxRule", "textx.Nope", "t.TextxRule", "a.b.C", "__base__.INT",
                                  "__base__.Nope", "None.Model", "." + names[0]][:9])
        if rng.chance(0.6):
            g.setdefault("stms", []).append(_reference_stm(rng))
    elif kind == "ok-rule":
        link["rule"] = rng.choice(["ID", "INT", "STRING"] + names)
    elif kind == "rrel":
        link["rule"] = rng.choice(["ID", "FQN", "STRING"])
        link["rrel"] = rng.choice(GOOD_RREL)
        if link["rule"] == "FQN" and rng.chance(0.8):
            g["rules"].append({"name": "FQN", "rawparams": rng.choice([["split='.'"], ["split='/'"], []]),
                               "body": {"k": "re", "v": r"\w+(\.\w+)*"}})
    elif kind == "bad-rrel":
        link["rule"] = "ID"
        link["rrel"] = rng.choice(BAD_RREL)
    elif kind == "base-ns":
        link["cls"] = "__base__." + rng.choice(["INT", "OBJECT", "Nope"])
    else:
        link["cls"] = "OBJECT"
    a = {"k": "asgn", "attr": rng.choice(["a", "l", "name"]), "op": rng.choice(["=", "+=", "*=", "?="]), "rhs": link, "sep": None, "eol": False}
    r = rng.choice(g["rules"])
    r["body"] = {"k": "seq", "xs": [r["body"], a] if rng.chance(0.5) else [a, r["body"]]}


def _reference_stm(rng):
    lang = rng.choice(LANGS)
    alias = rng.choice([None, None, "t", "x", "foo", "textx"])
    return f"reference {lang}" + (f" as {alias}" if alias else "")


def m_reference(g, rng):
    g.setdefault("stms", []).append(_reference_stm(rng))
    if rng.chance(0.7):
        nm = rng.choice(["textx.TextxRule", "t.TextxRule", "x.Foo", "foo.Bar", "textx.Nope", "foo.INT", "t.ID"])
        node = rng.choice([{"k": "ref", "name": nm},
                           {"k": "asgn", "attr": "q", "op": "=", "rhs": {"k": "ref", "name": nm}, "sep": None, "eol": False},
                           {"k": "asgn", "attr": "q", "op": "=", "rhs": {"k": "link", "cls": nm, "rule": None, "rrel": None}, "sep": None, "eol": False}])
        r = rng.choice(g["rules"])
        r["body"] = {"k": "seq", "xs": [r["body"], node]}


def _reflang_parts(rng):
    """(`reference` statement, namespace the grammar can use, class-name candidates of the language)"""
    if rng.chance(0.85):
        lang = rng.choice(sorted(REG_LANGS))
        classes = REG_LANGS[lang]
        written = rng.weighted([(lang, 5), (lang.lower(), 3), (lang.upper(), 1), (lang.capitalize(), 1)])
    else:
        written = rng.choice(["foo", "no-such-lang", "x_y", "textx2"])
        classes = ["Model", "Foo", "ID"]
    alias = rng.weighted([(None, 4), ("t", 3), ("x", 1), ("q", 1), (written.swapcase(), 1)])
    return f"reference {written}" + (f" as {alias}" if alias else ""), alias or written, classes


def m_reflang(g, rng):
    """A grammar that uses another registered language: `reference <language> [as alias]` and qualified names that
    use the namespace the statement really declares, for classes the language has and for classes it does not have, in
    every position a rule name / class name can stand.  The meta-model of the referenced language is built on demand
    *during* the second pass of this grammar (a nested meta-model construction); with `then` another defect of the
    grammar is reported after that lookup (undefined rule, unknown class, circular reference, `?=` misuse)."""
    stm, ns, classes = _reflang_parts(rng)
    g.setdefault("stms", []).append(stm)
    if rng.chance(0.15):
        g["stms"].append(_reflang_parts(rng)[0])      # a second language (or the same one twice, other alias)
    names = [r["name"] for r in g["rules"]]
    for _ in range(rng.weighted([(1, 5), (2, 3), (3, 1)])):
        cls = rng.weighted([(rng.choice(classes), 6), ("Nope", 3), (rng.choice(names), 1), ("nope.Nope", 1)])
        nm = ns + "." + cls
        if rng.chance(0.1):
            nm = rng.choice(["zz", ns.swapcase(), "__base__"]) + "." + cls     # a namespace nobody declared
        c = rng.weighted([("ctx", 6), ("link-cls", 3), ("alias-rule", 2), ("alt-rule", 1)])
        if c == "ctx":
            node = _ref_in_context(rng, nm, names)
        elif c == "link-cls":
            node = {"k": "asgn", "attr": rng.choice(["q", "l"]), "op": rng.choice(["=", "+=", "*="]),
                    "rhs": {"k": "link", "cls": nm, "rule": rng.choice([None, None, "ID", ns + ".ID"]), "rrel": None,
                            "sepch": rng.choice([":", "|"])}, "sep": None, "eol": False}
        elif c == "alias-rule":
            g["rules"].insert(rng.randint(1, len(g["rules"])), {"name": "Imp", "params": {}, "body": {"k": "ref", "name": nm}})
            node = _ref_in_context(rng, "Imp", names)
        else:
            g["rules"].insert(rng.randint(1, len(g["rules"])),
                              {"name": "Imp", "params": {}, "body": {"k": "alt", "xs": [{"k": "ref", "name": nm},
                                                                                         {"k": "ref", "name": rng.choice(names)}]}})
            node = _ref_in_context(rng, "Imp", names)
        host = rng.choice(g["rules"][: rng.choice([1, len(g["rules"])])])
        host["body"] = {"k": "seq", "xs": [host["body"], node] if rng.chance(0.7) else [node, host["body"]]}
    then = rng.weighted([(None, 5), ("undef", 3), ("cls", 2), ("cycle", 2), ("bool", 1)])
    last = g["rules"][-1]
    if then == "undef":
        last["body"] = {"k": "seq", "xs": [last["body"], {"k": "ref", "name": "Undef"}]}
    elif then == "cls":
        last["body"] = {"k": "seq", "xs": [last["body"], {"k": "asgn", "attr": "u", "op": "=", "rhs":
                                                          {"k": "link", "cls": "Nope", "rule": None, "rrel": None}, "sep": None, "eol": False}]}
    elif then == "cycle":
        g["rules"].append({"name": "Loop", "params": {}, "body": {"k": "ref", "name": "Loop"}})
        last["body"] = {"k": "seq", "xs": [last["body"], {"k": "ref", "name": "Loop"}]}
    elif then == "bool":
        last["body"] = {"k": "seq", "xs": [last["body"], {"k": "asgn", "attr": "bb", "op": "?=", "rhs": {"k": "str", "v": "b"}, "sep": None, "eol": False},
                                           {"k": "asgn", "attr": "bb", "op": "=", "rhs": {"k": "ref", "name": "INT"}, "sep": None, "eol": False}]}


def m_reserved_name(g, rng):
    nm = rng.choice(["__asgn_x", "__asgn", "__asgn_plain", "__asgn_optional", "__asg", "_asgn_x", "sep", "Model"])
    if rng.chance(0.5):
        old = rng.choice(g["rules"])
        oldname = old["name"]
        old["name"] = nm
        for (n, p, k) in all_nodes(g):
            if n["k"] == "ref" and n["name"] == oldname and rng.chance(0.7):
                n["name"] = nm
    else:
        g["rules"].append({"name": nm, "params": {}, "body": rng.choice([{"k": "str", "v": "z"},
                                                                         {"k": "seq", "xs": [{"k": "str", "v": "y"}, {"k": "str", "v": "z"}]}])})
        if rng.chance(0.5):
            g["rules"][0]["body"] = {"k": "seq", "xs": [g["rules"][0]["body"], {"k": "ref", "name": nm}]}


def m_import(g, rng):
    g.setdefault("stms", []).insert(0, "import " + rng.choice(["foo", "a.b", "types"]))


def m_hash_single(g, rng):
    x = rng.choice([{"k": "ref", "name": "INT"}, {"k": "str", "v": "h"}, {"k": "seq", "xs": [{"k": "str", "v": "h"}]},
                    {"k": "asgn", "attr": "h", "op": "=", "rhs": {"k": "ref", "name": "INT"}, "sep": None, "eol": False},
                    {"k": "rep", "op": "*", "x": {"k": "str", "v": "h"}, "sep": None, "eol": False},
                    {"k": "ref", "name": rng.choice(g["rules"])["name"]},
                    {"k": "alt", "xs": [{"k": "str", "v": "h"}, {"k": "str", "v": "i"}]},
                    {"k": "pred", "neg": True, "x": {"k": "str", "v": "h"}}])
    node = {"k": "rep", "op": "#", "x": x, "sep": rng.choice([None, {"k": "str", "v": ","}]), "eol": False}
    if rng.chance(0.3):
        node["sup"] = True
    r = rng.choice(g["rules"])
    r["body"] = rng.choice([node, {"k": "seq", "xs": [r["body"], node]}])


def m_base_named(g, rng):
    nm = rng.choice(G.BASE + ["OBJECT", "BASETYPE", "Comment", "STRICTFLOAT", "EOF"])
    body = rng.choice([{"k": "str", "v": "z"}, {"k": "ref", "name": nm}, {"k": "ref", "name": "ID"},
                       {"k": "asgn", "attr": "v", "op": "=", "rhs": {"k": "ref", "name": "INT"}, "sep": None, "eol": False},
                       {"k": "ref", "name": rng.choice(g["rules"])["name"]}])
    g["rules"].insert(rng.randint(0, len(g["rules"])), {"name": nm, "params": {}, "body": body})
    if nm == "Comment":
        g["comment"] = None


def m_comment_alias(g, rng):
    """the comments model: a `Comment` rule that is one rule reference (since fix f957bf6 the second pass reads
    `metamodel["Comment"]._tx_peg_rule` again after the references are resolved) — to a new match rule, through a chain of
    aliases, to an existing rule, to a base type, to nothing, to itself, into a cycle, or written with a qualified name"""
    g["rules"] = [r for r in g["rules"] if r["name"] != "Comment"]
    g["comment"] = None
    kind = rng.choice(["line", "line", "chain", "existing", "base", "undef", "self", "cycle", "qualified", "sup", "params"])
    line = {"name": "LineC", "params": {}, "body": {"k": "re", "v": r"\/\/.*$"}}
    new = []
    if kind == "line":
        new = [{"name": "Comment", "params": {}, "body": {"k": "ref", "name": "LineC"}}, line]
    elif kind == "chain":
        k = rng.randint(1, 3)
        names = ["Comment"] + [f"C{i}" for i in range(k)] + ["LineC"]
        new = [{"name": a, "params": {}, "body": {"k": "ref", "name": b}} for a, b in zip(names, names[1:])] + [line]
    elif kind == "existing":
        new = [{"name": "Comment", "params": {}, "body": {"k": "ref", "name": rng.choice(g["rules"])["name"]}}]
    elif kind == "base":
        new = [{"name": "Comment", "params": {}, "body": {"k": "ref", "name": rng.choice(G.BASE + ["OBJECT"])}}]
    elif kind == "undef":
        new = [{"name": "Comment", "params": {}, "body": {"k": "ref", "name": "Undef"}}]
    elif kind == "self":
        new = [{"name": "Comment", "params": {}, "body": {"k": "ref", "name": "Comment"}}]
    elif kind == "cycle":
        new = [{"name": "Comment", "params": {}, "body": {"k": "ref", "name": "C0"}},
               {"name": "C0", "params": {}, "body": {"k": "ref", "name": rng.choice(["Comment", "C0"])}}]
    elif kind == "qualified":
        new = [{"name": "Comment", "params": {}, "body": {"k": "ref", "name": rng.choice(["__base__.ID", "x.Y", "t.TextxRule"])}}]
        if rng.chance(0.5):
            g.setdefault("stms", []).append(_reference_stm(rng))
    elif kind == "sup":
        new = [{"name": "Comment", "params": {}, "body": {"k": "ref", "name": "LineC", "sup": True}}, line]
    else:
        new = [{"name": "Comment", "rawparams": [rng.choice(["noskipws", "ws=' '", "ws"])], "body": {"k": "ref", "name": "LineC"}},
               line]
    if rng.chance(0.3):
        rng_first = new + g["rules"][1:]
        g["rules"] = g["rules"][:1] + rng_first
    else:
        g["rules"] = g["rules"] + new
    if rng.chance(0.3) and kind not in ("undef", "self", "cycle"):
        # somebody also uses the Comment rule as an ordinary rule
        g["rules"][0]["body"] = {"k": "seq", "xs": [g["rules"][0]["body"], {"k": "ref", "name": "Comment"}]}


def m_nest(g, rng):
    r = rng.choice(g["rules"])
    e = r["body"]
    for _ in range(rng.randint(3, 25)):
        e = {"k": "seq", "xs": [e]} if rng.chance(0.7) else {"k": "alt", "xs": [e, {"k": "str", "v": "n"}]}
    r["body"] = e


AST_MUTATIONS = [
    ("undef-ref", m_undef_ref, 3), ("drop-rule", m_drop_rule, 2), ("dup-rule", m_dup_rule, 3), ("alias", m_alias_cycle, 3),
    ("alias-graph", m_alias_graph, 7), ("rewire", m_rewire, 3), ("bad-regex", m_bad_regex, 1), ("regex", m_regex, 6), ("bad-escape", m_bad_escape, 3), ("bad-param", m_bad_param, 4), ("bad-mods", m_bad_mods, 3),
    ("bool-asgn", m_bool_asgn, 4), ("parent", m_parent_attr, 1), ("link", m_link, 6), ("reference", m_reference, 3), ("reflang", m_reflang, 5),
    ("reserved", m_reserved_name, 2), ("import", m_import, 1), ("hash", m_hash_single, 2), ("base-named", m_base_named, 2),
    ("nest", m_nest, 1), ("comment-alias", m_comment_alias, 3),
]


# ---------------------------------------------------------------------------
# free generator: straight from the productions of the grammar language
# ---------------------------------------------------------------------------
class Free:
    NAMES = ["A", "B", "C", "D", "A", "B", "C", "INT", "ID", "STRING", "OBJECT", "NUMBER", "Comment", "FLOAT", "BOOL", "A.B", "t.TextxRule", "Undef"]
    ATTRS = ["a", "b", "name", "x", "a", "b"]
    STRS = ["'a'", "'b'", "','", "''", r"'\n'", '"q"', r"'\''", "'if'", "'a b'"] * 3 + BAD_STR[:2]
    RES = ["/x/", r"/\d+/", r"/\//", "/a|b/", "/[a-c]+/"] * 4 + ["/(/", "/[a/"]
    PARAMS = ["skipws", "noskipws", "ws='x'", "split='.'", "ws='\\n'", "ws=\"\\t \""] * 3 + BAD_PARAMS

    def __init__(self, rng):
        self.r = rng
        self.alias_p = rng.choice([0, 0, 0.15, 0.5, 0.8])
        self.NAMES = list(Free.NAMES)

    def smatch(self):
        r = self.r
        if r.chance(0.08):
            return "/" + gen_regex(r)[0] + "/" if r.chance(0.6) else gen_str_literal(r, bad_p=0.4)
        return r.choice(self.STRS) if r.chance(0.6) else r.choice(self.RES)

    def mods(self):
        return "[" + " ".join(self.r.choice([self.smatch(), "eolterm"]) for _ in range(self.r.randint(1, 2))) + "]"

    def objref(self):
        r = self.r
        s = "[" + r.choice(self.NAMES + ["x.Y", "__base__.INT"])
        if r.chance(0.5):
            s += r.choice([":", "|"]) + r.choice(self.NAMES)
            if r.chance(0.5):
                s += "|" + r.choice(GOOD_RREL + BAD_RREL[:3])
        return s + "]"

    def asgn(self):
        r = self.r
        rhs = r.choice([self.smatch(), r.choice(self.NAMES), self.objref()])
        s = r.choice(self.ATTRS) + r.weighted([("=", 5), ("+=", 2), ("*=", 2), ("?=", 2)]) + rhs
        if r.chance(0.15):
            s += self.mods()
        return s

    def expr(self, d):
        r = self.r
        if r.chance(0.35):
            return self.asgn()
        p = r.choice(["", "", "", "", "!", "&"])
        c = r.below(100)
        if c < 40:
            x = self.smatch()
        elif c < 75 or d <= 0:
            x = r.choice(self.NAMES)
        else:
            x = "(" + self.choice(d - 1) + ")"
        return p + x

    def rexpr(self, d):
        r = self.r
        s = self.expr(d)
        if r.chance(0.35):
            s += r.choice("*?+#")
            if r.chance(0.2):
                s += self.mods()
        if r.chance(0.1):
            s += "-"
        return s

    def seq(self, d):
        return " ".join(self.rexpr(d) for _ in range(self.r.randint(1, 3)))

    def choice(self, d):
        return " | ".join(self.seq(d) for _ in range(self.r.choice([1, 1, 2, 3])))

    def rule(self):
        r = self.r
        s = r.choice(["A", "B", "C", "D", "A", "B", "C", "D", "INT", "Comment", "ID", "__asgn_r"])
        if r.chance(0.2):
            s += "[" + ", ".join(r.choice(self.PARAMS) for _ in range(r.randint(1, 2))) + "]"
        if self.alias_p and r.chance(self.alias_p):
            # a rule defined by one rule reference (the rules of such a grammar form chains, cycles, tails into cycles)
            t = r.choice(["A", "B", "C", "D", "A", "B", "C", "D", "INT", "Undef", "Comment"])
            return s + ": " + r.weighted([(t, 8), ("(" + t + ")", 1), (t + "-", 1)]) + ";"
        return s + ": " + self.choice(2) + ";"

    def grammar(self):
        r = self.r
        pre = ""
        if r.chance(0.03):
            pre += "import foo\n"
        if r.chance(0.15):
            pre += _reference_stm(r) + "\n"
        elif r.chance(0.12):
            # a referenced language and names that use the namespace it declares
            stm, ns, classes = _reflang_parts(r)
            pre += stm + "\n"
            self.NAMES += [ns + "." + r.choice(classes + ["Nope"]) for _ in range(4)]
        return pre + "\n".join(self.rule() for _ in range(r.randint(1, 7 if self.alias_p else 5))) + "\n"


# ---------------------------------------------------------------------------
# parse tree of the grammar parser -> typed tree of GramLoad.Grammar
# ---------------------------------------------------------------------------
def python_isa_table():
    """issubclass(C, H) for the exception classes of GramLoad.PyExc and the handler classes of GramLoad.Handler
    (`re.error` by its module name `error`; `other` is represented by `Exception` itself)"""
    classes = {"KeyError": KeyError, "AttributeError": AttributeError, "TypeError": TypeError, "IndexError": IndexError,
               "RecursionError": RecursionError, "AssertionError": AssertionError, "UnicodeDecodeError": UnicodeDecodeError,
               "error": re.error, "OverflowError": OverflowError, "ValueError": ValueError, "Exception": Exception}
    handlers = {"Exception": Exception, "ValueError": ValueError, "KeyError": KeyError, "error": re.error}
    return {c: {h: issubclass(cv, hv) for h, hv in handlers.items()} for c, cv in classes.items()}


class ShapeError(Exception):
    pass


_GP = {}


def grammar_parser():
    """the grammar parser of the tree under test, built like language_from_str builds it"""
    if "p" not in _GP:
        use_repo()
        from arpeggio import ParserPython
        from textx import lang

        _GP["p"] = ParserPython(lang.textx_model, comment_def=lang.comment, ignore_case=False, reduce_tree=False)
    return _GP["p"]


def _kids(n, *names):
    from arpeggio import NonTerminal

    if not isinstance(n, NonTerminal):
        raise ShapeError(f"{n.rule_name}: terminal where a non-terminal was expected")
    return [c for c in n if not (c.rule_name == "" and getattr(c, "suppress", False))]


def _lit(n, ic):
    """simple_match -> L"""
    import codecs

    from textx import lang

    ks = _kids(n)
    if len(ks) != 1:
        raise ShapeError("simple_match")
    c = ks[0]
    if c.rule_name == "str_match":
        raw = _kids(c)[0].value[1:-1]
        ok = True
        if "\\" in raw:
            try:
                lang.ESCAPE_SEQUENCE_RE.sub(lambda m: codecs.decode(m.group(0), "unicode-escape"), raw)
            except ValueError:
                ok = False
        return {"k": "str", "ok": ok}
    if c.rule_name == "re_match":
        src = c.value[1:-1]
        exc = None
        try:
            import warnings

            with warnings.catch_warnings():
                warnings.simplefilter("ignore")
                re.compile(src, re.MULTILINE | (re.IGNORECASE if ic else 0))
        except Exception as e:  # the class of the refusal is an input of the model (the handler must catch every one)
            exc = ("error" if isinstance(e, re.error) else "RecursionError" if isinstance(e, RecursionError)
                   else "OverflowError" if isinstance(e, OverflowError) else "ValueError" if isinstance(e, ValueError)
                   else "other")
        return {"k": "re", "ok": exc is None, "exc": exc}
    raise ShapeError("simple_match child " + c.rule_name)


def _mods(n, ic):
    out = []
    for c in _kids(n):
        if c.rule_name == "simple_match":
            out.append({"k": "sep", "l": _lit(c, ic)})
        elif c.rule_name == "" and c.value == "eolterm":
            out.append({"k": "eol"})
        else:
            raise ShapeError("repeat_modifiers child " + c.rule_name)
    if not out:
        raise ShapeError("empty repeat_modifiers")
    return out


def _rhs(n, ic):
    ks = _kids(n)
    c = ks[0]
    mods = None
    if len(ks) == 2 and ks[1].rule_name == "repeat_modifiers":
        mods = _mods(ks[1], ic)
    elif len(ks) != 1:
        raise ShapeError("assignment_rhs")
    if c.rule_name == "simple_match":
        return {"k": "lit", "l": _lit(c, ic)}, mods
    if c.rule_name != "reference":
        raise ShapeError("assignment_rhs child " + c.rule_name)
    r = _kids(c)[0]
    if r.rule_name == "rule_ref":
        return {"k": "ref", "n": r.value}, mods
    if r.rule_name != "obj_ref":
        raise ShapeError("reference child " + r.rule_name)
    ks = _kids(r)
    out = {"k": "obj", "cls": ks[0].value, "rule": None, "rrel": False}
    if ks[0].rule_name != "class_name":
        raise ShapeError("obj_ref")
    if len(ks) > 1:
        if ks[1].value not in (":", "|") or ks[2].rule_name != "obj_ref_rule" or len(ks) > 4:
            raise ShapeError("obj_ref tail")
        out["rule"] = ks[2].value
        if len(ks) == 4:
            if ks[3].rule_name != "rrel_expression":
                raise ShapeError("obj_ref rrel")
            out["rrel"] = True
    return out, mods


def _expr(n, ic):
    ks = _kids(n)
    if len(ks) == 1 and ks[0].rule_name == "assignment":
        a = _kids(ks[0])
        if len(a) != 3 or a[0].rule_name != "attribute" or a[1].rule_name != "assignment_op" or a[2].rule_name != "assignment_rhs":
            raise ShapeError("assignment")
        rhs, mods = _rhs(a[2], ic)
        return {"k": "asgn", "a": a[0].value, "op": _kids(a[1])[0].value, "rhs": rhs, "m": mods}
    pred = None
    if len(ks) == 2 and ks[0].rule_name == "syntactic_predicate":
        pred = _kids(ks[0])[0].value
        ks = ks[1:]
    if len(ks) != 1:
        raise ShapeError("expression")
    c = ks[0]
    if c.rule_name == "simple_match":
        return {"k": "lit", "pr": pred, "l": _lit(c, ic)}
    if c.rule_name == "rule_ref":
        return {"k": "ref", "pr": pred, "n": c.value}
    if c.rule_name == "bracketed_choice":
        b = _kids(c)
        if len(b) != 1 or b[0].rule_name != "choice":
            raise ShapeError("bracketed_choice")
        return {"k": "grp", "pr": pred, "c": _choice(b[0], ic)}
    raise ShapeError("expression child " + c.rule_name)


def _rexpr(n, ic):
    ks = _kids(n)
    out = {"e": _expr(ks[0], ic), "r": None, "s": False}
    rest = ks[1:]
    if rest and rest[0].rule_name == "repeat_operator":
        ro = _kids(rest[0])
        rep = {"op": ro[0].value, "m": None}
        if len(ro) == 2:
            rep["m"] = _mods(ro[1], ic)
        elif len(ro) != 1:
            raise ShapeError("repeat_operator")
        out["r"] = rep
        rest = rest[1:]
    if rest and rest[0].rule_name == "" and rest[0].value == "-":
        out["s"] = True
        rest = rest[1:]
    if rest:
        raise ShapeError("repeatable_expr tail")
    return out


def _choice(n, ic):
    seqs = _kids(n)
    if not seqs or any(s.rule_name != "sequence" for s in seqs):
        raise ShapeError("choice")
    return [[_rexpr(x, ic) for x in _kids(s)] for s in seqs]


def to_tree(pt, ic):
    ks = _kids(pt)
    stms, rules = [], []
    for c in ks:
        if c.rule_name == "import_or_reference_stm":
            s = _kids(c)[0]
            if s.rule_name == "import_stm":
                stms.append(["imp"])
            else:
                parts = _kids(s)
                alias = None
                if len(parts) == 2:
                    alias = _kids(parts[1])[0].value
                stms.append(["ref", parts[0].value, alias])
        elif c.rule_name == "textx_rule":
            rk = _kids(c)
            rule = {"n": rk[0].value, "p": None}
            if rk[0].rule_name != "rule_name":
                raise ShapeError("textx_rule")
            body = rk[1]
            if len(rk) == 3:
                ps = []
                for p in _kids(rk[1]):
                    pk = _kids(p)
                    ps.append([pk[0].value, _kids(pk[1])[0].value[1:-1] if len(pk) == 2 else None])
                rule["p"] = ps
                body = rk[2]
            elif len(rk) != 2:
                raise ShapeError("textx_rule children")
            if body.rule_name != "textx_rule_body":
                raise ShapeError("textx_rule body")
            rule["b"] = _choice(body, ic)
            rules.append(rule)
        elif c.rule_name == "EOF":
            pass
        else:
            raise ShapeError("textx_model child " + c.rule_name)
    if not rules:
        raise ShapeError("no rule")
    return {"stms": stms, "rules": rules}


def lang_table(tree):
    """registered languages named in `reference` statements -> class names of their meta-model (None: not registered)"""
    from textx.exceptions import TextXRegistrationError

    out = {}
    for s in tree["stms"]:
        if s[0] == "ref" and s[1] not in out:
            try:
                from textx.registration import language_description, metamodel_for_language

                language_description(s[1])
                mm = metamodel_for_language(s[1])
                mm = getattr(mm, "metamodel", mm) if type(mm).__name__ == "TextXMetaMetaModel" else mm
                out[s[1]] = sorted({c.__name__ for c in mm})
            except TextXRegistrationError:
                out[s[1]] = None
    return out


def qualified_uses(tree, langs):
    """registered languages of the `reference` statements whose namespace some qualified name of the grammar uses
    (coverage statistic: the grammars during whose second pass the meta-model of another language is looked up)"""
    ns = {}
    for st in tree["stms"]:
        if st[0] == "ref" and langs.get(st[1]) is not None:
            ns[st[2] or st[1]] = st[1]
    if not ns:
        return []
    names = []

    def choice(c):
        for seq in c:
            for x in seq:
                e = x["e"]
                if e["k"] == "ref":
                    names.append(e["n"])
                elif e["k"] == "grp":
                    choice(e["c"])
                elif e["k"] == "asgn":
                    if e["rhs"]["k"] == "ref":
                        names.append(e["rhs"]["n"])
                    elif e["rhs"]["k"] == "obj":
                        names.append(e["rhs"]["cls"])
                        if e["rhs"]["rule"]:
                            names.append(e["rhs"]["rule"])

    for r in tree["rules"]:
        choice(r["b"])
    return sorted({ns[n.rsplit(".", 1)[0]] for n in names if "." in n and n.rsplit(".", 1)[0] in ns})


def paren_depth(text):
    d = m = 0
    for t in tokenize(text):
        if t == "(":
            d += 1
            m = max(m, d)
        elif t == ")":
            d -= 1
    return m


def regex_outcomes(tree):
    """compile outcome ("ok" or the exception class) of every regex literal of a typed tree"""
    out = []

    def lit(l):
        if l["k"] == "re":
            out.append(l["exc"] or "ok")

    def mods(ms):
        for m in ms or []:
            if m["k"] == "sep":
                lit(m["l"])

    def choice(c):
        for seq in c:
            for x in seq:
                e = x["e"]
                if e["k"] == "asgn":
                    if e["rhs"]["k"] == "lit":
                        lit(e["rhs"]["l"])
                    mods(e["m"])
                elif e["k"] == "lit":
                    lit(e["l"])
                elif e["k"] == "grp":
                    choice(e["c"])
                if x["r"]:
                    mods(x["r"]["m"])

    for r in tree["rules"]:
        choice(r["b"])
    return out


def alias_shape(tree):
    """shape of the graph of the rules whose body is one plain rule reference (coverage statistic only):
    "rho" = some chain of such rules runs into a cycle that does not contain its first rule, "cycle", "chain"
    (two or more such rules one after another, ending outside), "single" or None"""
    nxt = {}
    for r in tree["rules"]:
        b = r["b"]
        while len(b) == 1 and len(b[0]) == 1 and b[0][0]["e"]["k"] == "grp" and b[0][0]["r"] is None and b[0][0]["e"]["pr"] is None:
            b = b[0][0]["e"]["c"]
        if r["p"] is None and len(b) == 1 and len(b[0]) == 1 and b[0][0]["e"]["k"] == "ref" and b[0][0]["r"] is None \
                and b[0][0]["e"]["pr"] is None:
            nxt[r["n"]] = b[0][0]["e"]["n"]     # a later rule of the same name replaces the earlier one
    best = None
    rank = {None: 0, "single": 1, "chain": 2, "cycle": 3, "rho": 4}
    for start in nxt:
        seen = [start]
        cur = nxt[start]
        while cur in nxt and cur not in seen:
            seen.append(cur)
            cur = nxt[cur]
        if cur in seen:
            sh = "cycle" if cur == start else "rho"
        else:
            sh = "chain" if len(seen) > 1 else "single"
        if rank[sh] > rank[best]:
            best = sh
    return best


def ref_chain_depth(tree):
    """length of the longest chain of rules each of which references the next (cycles are cut): the depth the
    recursive `_resolve_rule` reaches on the grammar"""
    refs = {}

    def choice(c, acc):
        for seq in c:
            for x in seq:
                e = x["e"]
                if e["k"] == "ref":
                    acc.add(e["n"])
                elif e["k"] == "grp":
                    choice(e["c"], acc)
                elif e["k"] == "asgn":
                    if e["rhs"]["k"] == "ref":
                        acc.add(e["rhs"]["n"])
                    elif e["rhs"]["k"] == "obj":
                        acc.add(e["rhs"]["rule"] or "ID")

    for r in tree["rules"]:
        acc = set()
        choice(r["b"], acc)
        refs[r["n"]] = sorted(acc)
    depth, state = {}, {}
    for root in refs:                      # iterative DFS: the grammar may be deeper than this interpreter's stack
        if root in depth:
            continue
        stack = [(root, iter(refs[root]))]
        state[root] = 1
        while stack:
            n, it = stack[-1]
            for m in it:
                if m in refs and m not in state:
                    state[m] = 1
                    stack.append((m, iter(refs[m])))
                    break
            else:
                stack.pop()
                state[n] = 2
                depth[n] = 1 + max([depth.get(m, 0) for m in refs[n] if state.get(m) == 2 and m != n] or [0])
    return max(depth.values() or [0])


OUT_NAMES = {"TextXSyntaxError": "syntax", "TextXSemanticError": "semantic", "TextXRegistrationError": "registration",
             "TextXError": "txerror"}
IMPORT_MSG = '"import" statement can not be used if meta-model is loaded from string.'


class Prop(Check):
    ID = "C23"
    LEAN_MODULE = "TextxVerif.Props.C23"
    THEOREMS = [
        "GramLoad.C23_total",
        "GramLoad.C23_only_import",
        "GramLoad.C23_import",
        "GramLoad.C23_any_order",
        "GramLoad.C23_compile_in_outcomes",
        "GramLoad.C23_alias_fuel",
        "GramLoad.C23_alias_fuel_irrelevant",
        "GramLoad.C23_parse_failure",
        "GramLoad.C23_unfixed_alias_false",
        "GramLoad.C23_regex_any_exception",
        "GramLoad.C23_narrow_handler_false",
        "GramLoad.C23_start_only_alias_false",
        "GramLoad.C23_comments_model_total",
        "GramLoad.C23_classified",
        "GramLoad.C23_registration_needs_unregistered",
        "GramLoad.C23_registration_only_reference",
        "GramLoad.C23_txerror_needs_bad_param",
        "GramLoad.C23_bad_param_value_spec",
        "GramLoad.C23_txerror_first_param",
        "GramLoad.C23_named_classes",
        "GramLoad.C23_named_classes_compile",
        "GramLoad.C23_handlers_spec",
        "GramLoad.C23_except_exception_catches_all",
    ]
    DRIVER = "Drivers/GramLoad.lean"
    QUICK_CASES = 1400
    THOROUGH_CASES = 30000
    PROCS_QUICK = min(2, int(os.environ.get("VERIF_PROCS", "2")))
    PROCS_THOROUGH = int(os.environ.get("VERIF_PROCS", "4"))
    CASE_TIMEOUT = 20
    RULE = ("grammar texts: valid generated grammars (gen_grammar), 1-3 AST-level mutations of them (21 operators: undefined / "
            "dropped / duplicated rules, alias cycles, alias graphs (single-reference rules forming random functional graphs: "
            "tails into cycles, several tails, chains into real / base / undefined rules; entered from the root rule, from "
            "references in every syntactic position, or not at all), rule references redirected to arbitrary rules (recursion through ordinary and abstract rules), regexes drawn from the productions of the regex syntax "
            "(valid or with one of 16 flaws, repetition bounds of every magnitude up to 10**30, nesting beyond the interpreter "
            "stack) in every place a regex match can stand, generated string escapes, bad rule parameters and modifiers, bool "
            "assignments, `parent`, links, reference statements, reserved names, import, `#`, base-type names, nesting, Comment rule as a rule reference), "
            "token-level mutations, and grammars drawn from the productions of the grammar language; `reference` statements to the "
            "languages registered in the environment (textX, questionnaire: meta-model built on demand during the second pass) "
            "with qualified names in the declared namespace; process state: each case starts from freshly imported textX, 30 % "
            "after a generated history of 1-3 earlier metamodel_from_str calls (same text, language-loading grammar, any stream, "
            "parser-refused text, flipped options), every call judged; non-trivial = the text "
            "gets past the grammar parser and the visitor or the second pass reports an error (an error path inside "
            "lang.py / metamodel.py is exercised)")
    MODELLED = ("hand-modelled: TextXVisitor first pass (rule names, rule params, string / regex matches, obj refs, assignments, "
                "repeat operators, textx_rule incl. _update_attr_multiplicities, import / reference statements), second pass "
                "(_resolve_rule_refs with alias chains, the two reads of the comments model, attribute reads of _determine_rule_types, _resolve_cls_refs, "
                "TextXMetaModel.__getitem__/__contains__) in an explicit error monad (GramLoad.lean); inputs of the model computed "
                "by Python itself: the parse tree (grammar parser of the tree under test), re.compile outcome of every regex literal "
                "(compiles, or the class of the exception the regex engine raises: re.error / OverflowError / RecursionError / "
                "ValueError / other) and unicode-escape validity of string literals, the registered languages; not exhibited: interpreter stack depth (deep nesting: known finding), RREL "
                "sub-trees (opaque), order in which the second pass meets several bad references (model gives the set)")
    ASSUMPTIONS = [
        "the typed tree GramLoad.Grammar is the shape of the parse trees of lang.textx_model (the converter rejects any other shape)",
        "re.compile raises only subclasses of Exception (the model covers every class: C23_regex_any_exception), "
        "codecs.decode only ValueError subclasses; Python warnings are not turned into errors; the subclass table the "
        "handler specs use (PyExc.isa, C23_handlers_spec) is compared with issubclass of the running interpreter on every run",
        "metamodel_from_str is called with a str and no file_name, classes, or debug",
        "process state beyond the module-level / class-level plain attributes of the textx and arpeggio modules, functools "
        "caches and the re cache (what reset_process_state restores) does not influence metamodel_from_str; histories are "
        "sequences of metamodel_from_str calls only (no models parsed, no registrations changed by the user)",
        "CPython recursion limit is not reached (nesting depth of generated grammars <= 40; deeper: known finding KF-C23-1; "
        "chains of rule references of generated grammars <= 20 rules; some hundred: known finding KF-C23-2)",
    ]

    # ---- generation -------------------------------------------------------
    def base_grammar(self, rng):
        gg = G.GrammarGen(rng, nrules=rng.randint(1, 5), links=rng.chance(0.6))
        g = gg.grammar()
        g["stms"] = []
        return g

    def one_text(self, r):
        """one grammar text of one of the streams -> (text, origin)"""
        kind = r.weighted([("valid", 12), ("ast", 50), ("tok", 18), ("free", 20)])
        return self._text_of_kind(r, kind)

    def _text_of_kind(self, r, kind):
        if kind == "free":
            return Free(r).grammar(), "free"
        g = self.base_grammar(r)
        origin = "valid"
        if kind == "ast" or (kind == "tok" and r.chance(0.3)):
            names = []
            for _ in range(r.weighted([(1, 6), (2, 3), (3, 1)])):
                nm, fn, _w = r.weighted([((a, b, c), c) for (a, b, c) in AST_MUTATIONS])
                fn(g, r)
                names.append(nm)
            origin = "ast:" + "+".join(names)
        text = render_grammar(g)
        if kind == "tok":
            toks = tokenize(text)
            ops = []
            for _ in range(r.weighted([(1, 6), (2, 3), (3, 1)])):
                op = r.choice(["drop", "dup", "swap", "ins", "ins"])
                ops.append(op)
                if not toks:
                    toks = [r.choice(TOKENS)]
                    continue
                j = r.below(len(toks))
                if op == "drop":
                    del toks[j]
                elif op == "dup":
                    toks.insert(j, toks[j])
                elif op == "swap" and len(toks) > 1:
                    k = (j + 1) % len(toks)
                    toks[j], toks[k] = toks[k], toks[j]
                else:
                    toks.insert(j, r.choice(TOKENS))
            text = join_tokens(toks)
            origin = ("tok:" if origin == "valid" else origin + "|tok:") + "+".join(ops)
        return text, origin

    def history(self, r, text, opts):
        """Earlier calls of metamodel_from_str in the same process (oldest first).  A step is: the case's own text
        (the same grammar loaded twice; its first load may have failed), a valid grammar that uses one of the
        registered languages (its meta-model then exists before the case needs it), any text of the four streams
        (valid / mutated / token-damaged / free: the cached grammar parser and the registries are left behind by a
        load that succeeded or failed at any stage), a text the grammar parser refuses, or the case's text with the
        options flipped."""
        steps = []
        for i in range(r.weighted([(1, 6), (2, 3), (3, 1)])):
            rr = r.fork(f"step{i}")
            k = rr.weighted([("same", 3), ("warm", 3), ("any", 6), ("reflang", 2), ("nomatch", 1), ("flip", 1)])
            o = {"autokwd": rr.chance(0.2), "ignore_case": rr.chance(0.2)}
            if k == "same":
                steps.append({"text": text, "opts": dict(opts), "kind": k})
            elif k == "flip":
                steps.append({"text": text, "opts": {"autokwd": not opts.get("autokwd"), "ignore_case": not opts.get("ignore_case")},
                              "kind": k})
            elif k == "warm":
                stm, ns, classes = _reflang_parts(rr)
                steps.append({"text": f"{stm}\nW: w+={ns}.{rr.choice(classes)} 'w';\n", "opts": o, "kind": k})
            elif k == "reflang":
                g = self.base_grammar(rr)
                m_reflang(g, rr)
                steps.append({"text": render_grammar(g), "opts": o, "kind": k})
            elif k == "nomatch":
                steps.append({"text": rr.choice(["", "A: ;", "A 'a';", "A: 'a'", "reference\nA: 'a';", "A: (b=INT;", "\x00"]), "opts": o,
                              "kind": k})
            else:
                t, _origin = self.one_text(rr)
                steps.append({"text": t, "opts": o, "kind": k})
        return steps

    def gen(self, rng, n, tier):
        yield {"text": "", "opts": {}, "origin": "isa-table", "isa_table": True}
        for i in range(n):
            r = rng.fork(f"case{i}")
            kind = r.weighted([("valid", 12), ("ast", 50), ("tok", 18), ("free", 20)])
            opts = {"autokwd": r.chance(0.2), "ignore_case": r.chance(0.2)}
            text, origin = self._text_of_kind(r, kind)
            case = {"text": text, "opts": opts, "origin": origin}
            # the state of the process is part of the case: nothing loaded before (most cases), or a history
            if r.fork("hist?").chance(0.3):
                case["history"] = self.history(r.fork("history"), text, opts)
            yield case

    # ---- implementation ---------------------------------------------------
    def impl(self, case):
        use_repo()
        from arpeggio import NoMatch

        if case.get("isa_table"):
            # the subclass table the handler specs (C23_handlers_spec) rest on, from the running interpreter
            return {"tree": None, "langs": {}, "out": "ok", "isa_table": python_isa_table()}
        text, opts = case["text"], case.get("opts", {})
        ic = bool(opts.get("ignore_case"))
        obs = {"tree": None, "langs": {}}
        # The observation comes first and starts from the state "textX just imported": what this worker process did
        # before (earlier cases, the harness' own look at the registered languages) must neither hide nor fake a
        # failure.  The history of the case is produced by the case itself.
        reset_process_state()
        steps = []
        for st in case.get("history") or []:
            so = {}
            self._observe(st["text"], st.get("opts") or {}, so)
            steps.append(so)
        try:
            obs["built_before"] = built_languages()
        except Exception as e:  # the registry of another shape: reported with the evidence, never fatal
            obs["built_before"] = ["?" + type(e).__name__]
        self._observe(text, opts, obs)
        # the model's input (computed after the observation, with the harness' own parser object): parse tree of the
        # grammar parser, typed; registered languages
        try:
            pt = grammar_parser().parse(text)
            try:
                obs["tree"] = to_tree(pt, ic)
                obs["langs"] = lang_table(obs["tree"])
            except ShapeError as e:
                obs["shape_error"] = str(e)
        except NoMatch:
            obs["tree"] = None
        except RecursionError:
            obs["parse_recursion"] = True
        for st, so in zip(case.get("history") or [], steps):
            # only what the oracle needs for a step: is an `import` statement in the text (the documented exception)
            so["has_import"] = False
            if so.get("out") == "py:AssertionError":
                try:
                    spt = grammar_parser().parse(st["text"])
                    so["has_import"] = any(c.rule_name == "import_or_reference_stm" and _kids(c)[0].rule_name == "import_stm"
                                           for c in _kids(spt))
                except Exception:
                    pass
        if steps:
            obs["steps"] = steps
        return obs

    def _observe(self, text, opts, obs):
        """one call of metamodel_from_str -> obs["out"] (+ exc / msg / has_msg / where)"""
        import traceback
        import warnings

        from textx import metamodel_from_str
        from textx.exceptions import TextXError

        ic = bool(opts.get("ignore_case"))
        try:
            with warnings.catch_warnings():
                warnings.simplefilter("ignore")  # FutureWarning / DeprecationWarning of re / codecs: not printed, never raised
                mm = metamodel_from_str(text, autokwd=bool(opts.get("autokwd")), ignore_case=ic)
            obs["out"] = "ok" if type(mm).__name__ == "TextXMetaModel" else "py:returned " + type(mm).__name__
        except TextXError as e:
            obs["out"] = OUT_NAMES.get(type(e).__name__, "txerror:" + type(e).__name__)
            obs["exc"] = type(e).__name__
            msg = getattr(e, "message", None)
            obs["has_msg"] = bool(isinstance(msg, str) and msg.strip() and str(e).strip())
            obs["msg"] = str(e)[:160]
        except BaseException as e:  # noqa: the property is about every other exception type
            if isinstance(e, (KeyboardInterrupt, SystemExit, GeneratorExit)) or type(e).__name__ in ("CaseTimeout", "_Timeout"):
                raise
            obs["out"] = "py:" + type(e).__name__
            obs["exc"] = type(e).__name__
            obs["msg"] = str(e)[:160]
            tb = traceback.extract_tb(e.__traceback__)
            fr = [f for f in tb if "/textx/" in f.filename]
            if fr:
                obs["where"] = f"{fr[-1].filename.split('/textx/')[-1]}:{fr[-1].name}"
        return obs

    # ---- model --------------------------------------------------------------
    def model_req(self, case, obs):
        if "isa_table" in obs:
            return {"op": "isa_table"}
        if "shape_error" in obs or obs.get("parse_recursion"):
            return None
        if obs["tree"] is None:
            return {"op": "parse_failed"}
        return {"op": "grammar_outcome", "g": obs["tree"], "langs": obs["langs"]}

    def compare(self, case, obs, out):
        if "err" in out:
            return f"model rejected the request: {out}"
        if "isa_table" in obs:
            if out.get("table") != obs["isa_table"]:
                diff = [(c, h) for c, row in obs["isa_table"].items() for h, v in row.items()
                        if out.get("table", {}).get(c, {}).get(h) is not v]
                return f"exception hierarchy: issubclass differs from PyExc.isa at {diff}"
            return None
        got = obs["out"]
        if not (got == out["out"] or got in out["alts"]):
            return f"outcome class: implementation {got} ({obs.get('msg', '')!r}), model {out['out']} (possible: {out['alts']})"
        # the syntactic conditions of C23_classified, checked against the implementation's outcome directly
        if "bad_param" in out:
            if got == "txerror" and not out["bad_param"]:
                return ("TextXError raised although no rule parameter lacks its string value "
                        f"(C23_txerror_needs_bad_param; {obs.get('msg', '')!r})")
            if got == "registration" and not out["unregistered"]:
                return ("TextXRegistrationError raised although every referenced language is registered "
                        f"(C23_registration_needs_unregistered; {obs.get('msg', '')!r})")
            if (got not in ("ok", "syntax", "semantic") and not got.startswith("py:")
                    and not out["bad_param"] and not out["unregistered"]):
                return f"outcome {got} outside ok / syntax / semantic although C23_named_classes applies"
        return None

    # ---- direct oracle ------------------------------------------------------
    def oracle(self, case, obs):
        if "isa_table" in obs:
            return None
        if "shape_error" in obs:
            return ("the parse tree of the grammar parser does not have the shape the model is stated for: "
                    + obs["shape_error"])
        # every call of the case's history is a grammar text given to metamodel_from_str as well
        for i, so in enumerate(obs.get("steps") or []):
            o = so.get("out", "")
            if o.startswith("py:") and not (o == "py:AssertionError" and so.get("msg") == IMPORT_MSG and so.get("has_import")):
                return (f"history step {i}: metamodel_from_str raised {so.get('exc')} ({so.get('msg', '')!r}"
                        f"{' in ' + so['where'] if so.get('where') else ''}), not a TextXError")
            if o != "ok" and not o.startswith("py:") and not so.get("has_msg"):
                return f"history step {i}: {so.get('exc')} raised without a message"
        after = f" (after {len(obs['steps'])} earlier call(s) in the process)" if obs.get("steps") else ""
        out = obs["out"]
        if out == "ok":
            return None
        if out.startswith("py:"):
            tree = obs.get("tree")
            if (out == "py:AssertionError" and obs.get("msg") == IMPORT_MSG and tree and ["imp"] in tree["stms"]):
                return None  # the documented exception: import in a grammar given as a string
            return (f"metamodel_from_str raised {obs.get('exc')} ({obs.get('msg', '')!r}"
                    f"{' in ' + obs['where'] if obs.get('where') else ''}), not a TextXError{after}")
        if not obs.get("has_msg"):
            return f"{obs.get('exc')} raised without a message{after}"
        return None

    def nontrivial(self, case, obs):
        return obs.get("tree") is not None and obs.get("out") != "ok"

    def classify(self, case, obs, failure):
        # KF-C23-1: stack exhaustion of the recursive-descent grammar parser / visitor on deep nesting
        if (obs.get("out") == "py:RecursionError" or obs.get("parse_recursion")) and paren_depth(case["text"]) >= 45:
            return "KF-C23-1"
        # KF-C23-2: stack exhaustion of the recursive `_resolve_rule` / `_determine_rule_type` on a chain of some hundred
        # rules each referencing the next
        if obs.get("out") == "py:RecursionError" and obs.get("tree") and ref_chain_depth(obs["tree"]) >= 150:
            return "KF-C23-2"
        return None

    def shrink(self, case):
        hist = case.get("history") or []
        if hist:
            yield {k: v for k, v in case.items() if k != "history"}
            if len(hist) > 1:
                for i in range(len(hist)):
                    yield dict(case, history=hist[:i] + hist[i + 1:], origin="shrunk")
            # a step as the case itself, after the steps before it (the failure may sit in the history)
            for i in range(len(hist) - 1, -1, -1):
                c = dict(case, text=hist[i]["text"], opts=hist[i].get("opts") or {}, history=hist[:i], origin="shrunk")
                if not hist[:i]:
                    del c["history"]
                yield c
        toks = tokenize(case["text"])
        lines = case["text"].split("\n")
        if len(lines) > 2:
            for i in range(len(lines)):
                yield dict(case, text="\n".join(lines[:i] + lines[i + 1:]), origin="shrunk")
        n = len(toks)
        chunk = max(1, n // 4)
        while chunk >= 1:
            for i in range(0, n, chunk):
                yield dict(case, text=join_tokens(toks[:i] + toks[i + chunk:]), origin="shrunk")
            chunk //= 2
        if case.get("opts", {}).get("autokwd") or case.get("opts", {}).get("ignore_case"):
            yield dict(case, opts={"autokwd": False, "ignore_case": False}, origin="shrunk")
        # inside a long literal (a regex / string match is one token): drop chunks of its source
        for i, t in enumerate(toks):
            if len(t) > 4 and t[0] in "/'\"" and t[-1] == t[0]:
                body = t[1:-1]
                m = len(body)
                chunk = max(1, m // 2)
                budget = 40
                while chunk >= 1 and budget > 0:
                    for j in range(0, m, chunk):
                        budget -= 1
                        yield dict(case, text=join_tokens(toks[:i] + [t[0] + body[:j] + body[j + chunk:] + t[0]] + toks[i + 1:]),
                                   origin="shrunk")
                        if budget <= 0:
                            break
                    chunk //= 2

    def sample_view(self, case, obs):
        return {"text": case["text"][:400], "opts": case.get("opts"), "origin": case.get("origin"),
                "history": [(st.get("kind"), st["text"][:80]) for st in case.get("history") or []],
                "impl": {k: v for k, v in obs.items() if k not in ("tree", "langs")}}

    def extra_search(self, rng, tier, broken):
        return list(self.gen(rng, 3000, tier))

    def extra_evidence(self, cases, obs, model_outs):
        dist, origin, where = {}, {}, {}
        parsed = 0
        for c, o in zip(cases, obs):
            if not isinstance(o, dict) or "out" not in o:
                continue
            dist[o["out"]] = dist.get(o["out"], 0) + 1
            k = c.get("origin", "?").split(":")[0].split("|")[0]
            origin[k] = origin.get(k, 0) + 1
            if o.get("tree") is not None:
                parsed += 1
                if o["out"] != "ok":
                    site = re.sub(r"[\"'(].*", "", re.sub(r"^\S+:\d+:\d+: ", "", o.get("msg", "")))[:40].strip()
                    where[site] = where.get(site, 0) + 1
        multi = sum(1 for m in model_outs if isinstance(m, dict) and len(m.get("alts", [])) > 1)
        regex, alias = {}, {}
        for o in obs:
            if isinstance(o, dict) and o.get("tree"):
                for cls in regex_outcomes(o["tree"]):
                    regex[cls] = regex.get(cls, 0) + 1
                sh = alias_shape(o["tree"])
                if sh:
                    alias[sh] = alias.get(sh, 0) + 1
        lazy, hist = {}, {"cases_with_history": 0, "steps": 0}
        for c, o in zip(cases, obs):
            if not isinstance(o, dict) or "out" not in o:
                continue
            if c.get("history"):
                hist["cases_with_history"] += 1
                hist["steps"] += len(c["history"])
                for st, so in zip(c["history"], o.get("steps") or []):
                    key = "step:" + st.get("kind", "?") + ":" + so.get("out", "?").split(":")[0]
                    hist[key] = hist.get(key, 0) + 1
            if o.get("tree"):
                used = qualified_uses(o["tree"], o.get("langs") or {})
                for lang in used:
                    key = (f"{lang.lower()}:{'built-before' if lang.lower() in (o.get('built_before') or []) else 'cold'}:"
                           + o["out"].split(":")[0])
                    lazy[key] = lazy.get(key, 0) + 1
        return {"distribution": dist, "streams": origin, "texts_past_the_parser": parsed, "error_sites": where,
                "histories": hist, "qualified_uses_of_registered_languages": lazy,
                "second_pass_order_open": multi, "regex_literals_by_compile_outcome": regex,
                "grammars_by_alias_graph_shape": alias}
