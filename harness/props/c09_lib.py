"""C09, second world: textX's *own* scope providers that answer Postponed.

The table-driven provider of `c09.py` decides by a table when to postpone; here the decision is made by
library code: `textx.scoping.providers.ExtRelativeName` / `RelativeName` walk model paths through references
(`parent` -> class -> `extends` -> base classes ...; `inst.type.methods`) and answer Postponed while a reference
on the way is pending (`resolve_model_path` -> `needs_to_be_resolved`).  The references on the way (`extends`,
`type`, `inst`) are resolved by a table-driven provider (plain name, optional waits), so arbitrary dependency
structures (cycles through inheritance, references that never resolve) can be combined with the library's walk.

Grammar: classes with multiple inheritance and methods, a method `calls` methods of its class or its bases
(`ExtRelativeName("parent", "methods", "extends")`), instances of classes, and calls `inst.meth` resolved by
`RelativeName("inst.type.methods")` or `ExtRelativeName("inst.type", "methods", "extends")`.
Method names come from a small pool with substring coincidences (run/runner, go/gopher, x/xx) and are overridden
along the chains: the providers collect *propositions* by substring and filter for the exact name afterwards.

Case format:
  {"kind": "lib", "meth": "rel"|"ext", "deps": [[K, [K1, ...]], ...],
   "files": [{"imports": [i, ...], "decls": [DECL, ...]}, ...]}
  DECL = {"k": "class", "name": N, "ext": [[K, class name], ...], "methods": [{"name": N, "calls": [[K, method name], ...]}, ...]}
       | {"k": "inst", "name": N, "type": [K, class name]}
       | {"k": "call", "name": N, "inst": [K, inst name], "meth": [K, method name]}
Meaning (what the providers compute when nothing is postponed): linearisation of class C = C, its bases in the
order written, then the linearisations' tails of the bases one after the other (`get_list_of_concatenated_objects`);
a call of name n resolves to the first method named exactly n in the linearisation (of the method's class resp.
the instance's class; `rel`: the instance's class only).  A library reference is ready when every reference on
its way is resolved: all `extends` references of all classes of the linearisation (+ `inst` and `type`).
"""
import os
import re
import shutil
import tempfile

from harness.core import use_repo

GRAMMAR = r"""
Model: imports*=Import pads*=Pad decls*=Decl;
Pad: 'pad' name=ID;
Import: 'import' importURI=STRING;
Decl: Class | Inst | Call;
Class: 'class' name=ID ('extends' extends+=[Class][','])? '{' methods*=Method '}';
Method: 'def' name=ID ('calls' calls+=[Method][','])?;
Inst: 'inst' name=ID ':' type=[Class];
Call: 'call' name=ID inst=[Inst] '.' meth=[Method];
"""
LINES = 1000  # file i starts with LINES * i empty lines: the line of an error position tells the file
# attribute numbers (objects are numbered over all files, attributes within their class)
ATTR_NO = {"extends": 0, "calls": 0, "type": 0, "inst": 0, "meth": 1}
NAMES = ["run", "runner", "go", "gopher", "x", "xx", "stop", "op"]


class NonTermination(Exception):
    pass


def file_order(files):
    order, seen = [], set()

    def go(i):
        if i in seen:
            return
        seen.add(i)
        order.append(i)
        for j in files[i]["imports"]:
            go(j)

    go(0)
    return order


def render(i, f):
    """text of file i and its reference attributes in textual order:
    [{"file", "obj": (decl, method or -1), "cls", "attr", "list", "refs": [[K, position, name]...]}]"""
    text = "\n" * (LINES * i) + "".join(f'import "f{j}.m"\n' for j in f["imports"])
    text += f"pad p{i}\n"  # an empty file would yield a str model (outside C09)
    attrs = []

    def ref(k, name, rec):
        nonlocal text
        rec["refs"].append([k, len(text), name])
        text += name

    for n, d in enumerate(f["decls"]):
        if d["k"] == "class":
            text += f"class {d['name']} "
            if d["ext"]:
                rec = {"file": i, "obj": (n, -1), "cls": "Class", "attr": "extends", "list": True, "refs": []}
                text += "extends "
                for j, (k, name) in enumerate(d["ext"]):
                    text += " , " if j else ""
                    ref(k, name, rec)
                attrs.append(rec)
            text += " {\n"
            for mi, m in enumerate(d["methods"]):
                text += f"  def {m['name']}"
                if m["calls"]:
                    rec = {"file": i, "obj": (n, mi), "cls": "Method", "attr": "calls", "list": True, "refs": []}
                    text += " calls "
                    for j, (k, name) in enumerate(m["calls"]):
                        text += " , " if j else ""
                        ref(k, name, rec)
                    attrs.append(rec)
                text += "\n"
            text += "}\n"
        elif d["k"] == "inst":
            rec = {"file": i, "obj": (n, -1), "cls": "Inst", "attr": "type", "list": False, "refs": []}
            text += f"inst {d['name']} : "
            ref(d["type"][0], d["type"][1], rec)
            text += "\n"
            attrs.append(rec)
        else:
            r1 = {"file": i, "obj": (n, -1), "cls": "Call", "attr": "inst", "list": False, "refs": []}
            r2 = {"file": i, "obj": (n, -1), "cls": "Call", "attr": "meth", "list": False, "refs": []}
            text += f"call {d['name']} "
            ref(d["inst"][0], d["inst"][1], r1)
            text += " . "
            ref(d["meth"][0], d["meth"][1], r2)
            text += "\n"
            attrs += [r1, r2]
    return text, attrs


def case_attrs(case):
    return [a for i, f in enumerate(case["files"]) for a in render(i, f)[1]]


def file_refs(case, i):
    return [k for a in render(i, case["files"][i])[1] for k, _, _ in a["refs"]]


def order(case):
    return [r for i in file_order(case["files"]) for r in file_refs(case, i)]


class World:
    """the meaning of a lib case: who is who, what every reference waits for and what it resolves to"""

    def __init__(self, case):
        self.case = case
        files = case["files"]
        self.reach = file_order(files)
        self.classes, self.insts = {}, {}
        for i in self.reach:
            for n, d in enumerate(files[i]["decls"]):
                if d["k"] == "class":
                    self.classes.setdefault(d["name"], (i, n, d))
                elif d["k"] == "inst":
                    self.insts.setdefault(d["name"], (i, n, d))
        self.attrs = [a for a in case_attrs(case) if a["file"] in self.reach]
        self.objno = {}
        for a in case_attrs(case):
            self.objno.setdefault((a["file"], a["obj"]), len(self.objno))
        self.place = {}  # K -> attribute record
        for a in self.attrs:
            for k, _, _ in a["refs"]:
                self.place[k] = a
        self.table = {k: list(ds) for k, ds in case.get("deps", [])}
        self.waits, self.target = {}, {}
        for a in self.attrs:
            for k, _, name in a["refs"]:
                self.waits[k], self.target[k] = self._meaning(a, name, k)

    def linear(self, cname):
        """linearisation as `get_list_of_concatenated_objects` builds it (names; None if the chain never ends)"""
        out = []

        def walk(names, depth):
            if depth > 40:
                raise RecursionError
            known = [n for n in names if n in self.classes]
            out.extend(known)
            for n in known:
                walk([x for _, x in self.classes[n][2]["ext"]], depth + 1)

        walk([cname], 0)
        return out

    def _ext_refs(self, cnames):
        return {k for c in cnames for k, _ in self.classes[c][2]["ext"]}

    def _lookup(self, cnames, name):
        for c in cnames:
            for mi, m in enumerate(self.classes[c][2]["methods"]):
                if m["name"] == name:
                    return ("M", c, mi)
        return None

    def _meaning(self, a, name, k):
        files = self.case["files"]
        d = files[a["file"]]["decls"][a["obj"][0]]
        if a["attr"] == "extends" or a["attr"] == "type":
            return set(self.table.get(k, [])), (("C", name) if name in self.classes else None)
        if a["attr"] == "inst":
            return set(self.table.get(k, [])), (("I", name) if name in self.insts else None)
        if a["attr"] == "calls":
            lin = self.linear(d["name"])
            return self._ext_refs(lin), self._lookup(lin, name)
        # Call.meth
        want = {d["inst"][0]}
        inst = self.insts.get(d["inst"][1])
        if inst is None:
            return None, None  # waits for a reference that fails: never asked successfully
        want.add(inst[2]["type"][0])
        cname = inst[2]["type"][1]
        if cname not in self.classes:
            return None, None
        lin = self.linear(cname) if self.case.get("meth") == "ext" else [cname]
        if self.case.get("meth") == "ext":
            want |= self._ext_refs(lin)
        return want, self._lookup(lin, name)

    def queries(self, k):
        """the waits of a library reference as resolver queries: [(file, object number, attribute number)]"""
        a = self.place[k]
        d = self.case["files"][a["file"]]["decls"][a["obj"][0]]
        out = []

        def cls_q(cnames):
            for c in cnames:
                i, n, cd = self.classes[c]
                if cd["ext"]:
                    out.append((i, self.objno[(i, (n, -1))], 0))

        if a["attr"] == "calls":
            cls_q(self.linear(d["name"]))
        elif a["attr"] == "meth":
            out.append((a["file"], self.objno[(a["file"], a["obj"])], 0))
            i, n, inst = self.insts[d["inst"][1]]
            out.append((i, self.objno[(i, (n, -1))], 0))
            if self.case.get("meth") == "ext":
                cls_q(self.linear(inst["type"][1]))
        return out

    def fixpoint(self):
        """(derivable references, of these the ones that find nothing): references whose provider answers None end
        the load with 'Unknown object' as soon as they are ready"""
        refs = [k for a in self.attrs for k, _, _ in a["refs"]]
        lfp, changed = set(), True
        while changed:
            changed = False
            for r in refs:
                w = self.waits[r]
                if r not in lfp and w is not None and w <= lfp and all(x in self.place for x in w):
                    lfp.add(r)
                    changed = True
        return lfp, {r for r in lfp if self.target[r] is None}


# --------------------------------------------------------------------------
# implementation side
# --------------------------------------------------------------------------
def impl(case):
    use_repo()
    from textx import metamodel_from_str
    from textx.exceptions import TextXError
    from textx.scoping import Postponed
    from textx.scoping.providers import ExtRelativeName, PlainNameImportURI, RelativeName

    files = case["files"]
    texts = [render(i, f) for i, f in enumerate(files)]
    nrefs = sum(len(a["refs"]) for _, attrs in texts for a in attrs)
    limit = (nrefs + 3) * (nrefs + 1) + 5
    byplace = {(f"f{i}.m", pos): k for i, (_, attrs) in enumerate(texts) for a in attrs for k, pos, _ in a["refs"]}
    table = {k: ds for k, ds in case.get("deps", [])}
    log, calls, done = [], [0], set()
    from textx import get_model

    def rid(obj, obj_ref):
        return byplace.get((os.path.basename(get_model(obj)._tx_filename or ""), obj_ref.position))

    def count():
        calls[0] += 1
        if calls[0] > limit:
            raise NonTermination(f"provider called more than {limit} times")

    def logged(k, res):
        if type(res) is Postponed:
            log.append(["postponed", k])
        elif res is not None:
            log.append(["resolved", k])
            done.add(k)
        return res

    def models_of(obj):
        m = get_model(obj)
        ms = [m]
        if hasattr(m, "_tx_model_repository"):
            ms += [x for x in m._tx_model_repository.all_models if x is not m]
        return ms

    def plain(obj, attr, obj_ref):
        count()
        k = rid(obj, obj_ref)
        if any(d not in done for d in table.get(k, [])):
            return logged(k, Postponed())
        for m in models_of(obj):
            for d in m.decls:
                if d.name == obj_ref.obj_name and type(d).__name__ == obj_ref.cls.__name__:
                    return logged(k, d)
        return None

    def wrap(lib):
        def provider(obj, attr, obj_ref):
            count()
            return logged(rid(obj, obj_ref), lib(obj, attr, obj_ref))

        return provider

    mm = metamodel_from_str(GRAMMAR)
    meth = (ExtRelativeName("inst.type", "methods", "extends") if case.get("meth") == "ext"
            else RelativeName("inst.type.methods"))
    mm.register_scope_providers({
        "*.*": PlainNameImportURI(),
        "Class.extends": plain, "Inst.type": plain, "Call.inst": plain,
        "Method.calls": wrap(ExtRelativeName("parent", "methods", "extends")),
        "Call.meth": wrap(meth),
    })
    tmp = tempfile.mkdtemp(prefix="c09l_")
    try:
        for i, (text, _) in enumerate(texts):
            with open(os.path.join(tmp, f"f{i}.m"), "w") as fh:
                fh.write(text)
        try:
            model = mm.model_from_file(os.path.join(tmp, "f0.m"))
            out = {"outcome": "ok", "pending": []}
            allm = [model]
            if hasattr(model, "_tx_model_repository"):
                allm += [m for m in model._tx_model_repository.all_models if m is not model]
            byfile = {os.path.basename(m._tx_filename): m for m in allm}

            def ident(x):
                t = type(x).__name__
                if t == "Class":
                    return ["C", x.name]
                if t == "Inst":
                    return ["I", x.name]
                if t == "Method":
                    return ["M", x.parent.name, x.parent.methods.index(x)]
                return ["?", t]

            values = []
            for a in case_attrs(case):
                m = byfile.get(f"f{a['file']}.m")
                if m is None:
                    values.append("file-not-loaded")
                    continue
                o = m.decls[a["obj"][0]]
                if a["obj"][1] >= 0:
                    o = o.methods[a["obj"][1]]
                v = getattr(o, a["attr"], None)
                if a["list"]:
                    values.append([ident(x) for x in v] if isinstance(v, list) else "not-a-list")
                else:
                    values.append(None if v is None else ident(v))
            out["values"] = values
        except NonTermination as e:
            out = {"outcome": "nonterm", "msg": str(e)}
        except TextXError as e:
            msg = str(e)
            if "Unresolvable cross references" in msg:
                named = re.findall(r'"(\w+)" of class "\w+" at \((\d+), (\d+)\)', msg)
                out = {"outcome": "unresolvable", "pending": sorted(_ids_at(texts, named)), "named": len(named)}
            elif "Unknown object" in msg:
                m = re.search(r'Unknown object "(\w+)"', msg)
                out = {"outcome": "unknown", "name": m.group(1) if m else None, "line": getattr(e, "line", None),
                       "col": getattr(e, "col", None)}
            else:
                out = {"outcome": "error", "msg": msg[:200], "type": type(e).__name__}
        except RecursionError as e:
            out = {"outcome": "other", "type": "RecursionError", "msg": str(e)[:100]}
        except Exception as e:
            out = {"outcome": "other", "type": type(e).__name__, "msg": str(e)[:200]}
    finally:
        shutil.rmtree(tmp, ignore_errors=True)
    out["seq"] = [r[1] for r in log if r[0] == "resolved"]
    out["postponed"] = sum(1 for r in log if r[0] == "postponed")
    return out


def _ids_at(texts, named):
    """reference ids for the (name, line, col) triples of an error message (line // LINES = file)"""
    out = []
    for name, line, col in named:
        line, col = int(line), int(col)
        i = (line - 1) // LINES
        hit = "?" + name
        if i < len(texts):
            text, attrs = texts[i]
            for a in attrs:
                for k, pos, nm in a["refs"]:
                    ln = text.count("\n", 0, pos) + 1
                    cl = pos - (text.rfind("\n", 0, pos) + 1) + 1
                    if (ln, cl, nm) == (line, col, name):
                        hit = k
        out.append(hit)
    return out


def unknown_ref(case, obs):
    """the reference an 'Unknown object' error is about (by name and position), or None"""
    if obs.get("line") is None:
        return None
    texts = [render(i, f) for i, f in enumerate(case["files"])]
    ids = _ids_at(texts, [(obs.get("name") or "", obs["line"], obs["col"])])
    return ids[0] if isinstance(ids[0], int) else None


# --------------------------------------------------------------------------
# oracle / model request
# --------------------------------------------------------------------------
def oracle(case, obs):
    try:
        w = World(case)
    except RecursionError:
        return None  # inheritance cycle: outside this check (the generator makes none)
    lfp, nothing = w.fixpoint()
    refs = order(case)
    dead = sorted(set(refs) - lfp)
    if obs["outcome"] == "nonterm":
        return "loading does not terminate: " + obs["msg"]
    if obs["outcome"] in ("error", "other"):
        return f"unexpected failure {obs.get('type')}: {obs.get('msg')}"
    if nothing:
        # a reference that is ready but names nothing: 'Unknown object' about one of them is the only right answer
        if obs["outcome"] != "unknown":
            return (f"references {sorted(nothing)} become ready and name nothing, but the load ended with "
                    f"{obs['outcome']} {obs.get('pending', '')}")
        k = unknown_ref(case, obs)
        if k is not None and k not in nothing:
            return (f"'Unknown object \"{obs.get('name')}\"' reported for reference {k}, which resolves to "
                    f"{w.target.get(k)} once the references {sorted(w.waits.get(k) or [])} it waits for are resolved")
        return None
    if obs["outcome"] == "unknown":
        k = unknown_ref(case, obs)
        return (f"'Unknown object \"{obs.get('name')}\"' (reference {k}) although every reference names an existing "
                f"object: reference {k} resolves to {w.target.get(k)} once {sorted(w.waits.get(k) or [])} are resolved")
    if not dead:
        if obs["outcome"] != "ok":
            return f"every reference is resolvable in some order but loading failed naming {obs['pending']}"
        for a, v in zip(case_attrs(case), obs["values"]):
            want = [list(w.target[k]) for k, _, _ in a["refs"]]
            where = f"{a['cls']}.{a['attr']} of declaration {a['obj']} in file {a['file']}"
            if a["list"]:
                if v != want:
                    return f"list {where} = {v}, but its references in the order written resolve to {want}"
            elif v != want[0]:
                return f"reference {where} resolved to {v}, expected {want[0]}"
    else:
        if obs["outcome"] == "ok":
            return f"references {dead} can never resolve but loading succeeded"
        if sorted(obs["pending"], key=str) != sorted(dead, key=str):
            return f"error names {sorted(obs['pending'], key=str)}, unresolvable are exactly {dead}"
    return None


def model_req(case, obs):
    try:
        w = World(case)
    except RecursionError:
        return None
    lfp, nothing = w.fixpoint()
    if nothing or any(w.target[k] is None for k in lfp):
        return None  # a provider answering None is outside the loop model
    forder = w.reach
    slot = {f: n for n, f in enumerate(forder)}
    files = []
    for f in forder:
        files.append([[k, w.objno[(a["file"], a["obj"])], ATTR_NO[a["attr"]]]
                      for a in w.attrs if a["file"] == f for k, _, _ in a["refs"]])
    waits = []
    for a in w.attrs:
        for k, _, _ in a["refs"]:
            if a["attr"] in ("calls", "meth"):
                if w.waits[k] is None:
                    ws = [[0, 99999]]
                else:
                    ws = [[1, slot[f], o, n] for f, o, n in w.queries(k)]
                    ws = [x for n, x in enumerate(ws) if x not in ws[:n]]
            else:
                ws = [[0, d] for d in w.table.get(k, [])]
            if ws:
                waits.append([k, ws])
    lists = [[[k, pos] for k, pos, _ in a["refs"]] for a in case_attrs(case) if a["list"]]
    seen = {"obs_seq": obs["seq"]} if obs.get("outcome") in ("ok", "unresolvable") else {}
    return {"op": "resolveq", "files": files, "waits": waits, "lists": lists, **seen}


def list_ids(case, obs):
    """the observed list attributes as reference ids (what the model answers): the n-th occurrence of a target in the
    list stands for the n-th reference of the attribute with that target"""
    w = World(case)
    out = []
    for a, v in zip(case_attrs(case), obs["values"]):
        if not a["list"]:
            continue
        pool = [(k, list(w.target[k]) if w.target.get(k) else None) for k, _, _ in a["refs"]]
        ids = []
        for x in v if isinstance(v, list) else []:
            hit = next((k for k, t in pool if t == x and k not in ids), None)
            ids.append(hit if hit is not None else "?" + str(x))
        out.append(ids)
    return out


# --------------------------------------------------------------------------
# generator / shrinking
# --------------------------------------------------------------------------
def gen_one(rng):
    ncls = rng.randint(2, 4)
    cnames = [f"C{n}" for n in range(ncls)]
    nxt = [0]

    def new():
        nxt[0] += 1
        return nxt[0] - 1

    # inheritance: acyclic along a hidden rank (independent of the textual order)
    rank = rng.shuffle(cnames)
    bases = {}
    for pos, c in enumerate(rank):
        bases[c] = rng.sample(rank[:pos], rng.randint(1, min(2, pos))) if pos and rng.chance(0.75) else []
    pool = rng.sample(NAMES, rng.randint(2, 5))
    methods = {c: rng.sample(pool, rng.randint(0, min(2, len(pool)))) for c in cnames}
    if not any(methods.values()):
        methods[rank[0]] = [pool[0]]

    def linear(c):
        out = []

        def walk(names):
            out.extend(names)
            for n in names:
                walk(bases[n])

        walk([c])
        return out

    classes = {}
    for c in cnames:
        visible = [m for x in linear(c) for m in methods[x]]
        ms = []
        for name in methods[c]:
            calls = []
            if visible and rng.chance(0.55):
                for _ in range(rng.weighted([(1, 3), (2, 1)])):
                    # mostly a name that exists somewhere up the chain; rarely any name of the pool (may name nothing)
                    calls.append(rng.choice(visible) if rng.chance(0.95) else rng.choice(pool))
            ms.append({"name": name, "calls": calls})
        classes[c] = {"k": "class", "name": c, "ext": list(bases[c]), "methods": ms}
    decls = [classes[c] for c in rng.shuffle(cnames)]
    insts = []
    for n in range(rng.randint(0, 2)):
        insts.append({"k": "inst", "name": f"i{n}", "type": rng.choice(cnames)})
    calls = []
    meth = rng.choice(["rel", "ext"])
    for n in range(rng.randint(0, 2) if insts else 0):
        i = rng.choice(insts)
        vis = [m for x in (linear(i["type"]) if meth == "ext" else [i["type"]]) for m in methods[x]]
        if not vis:
            continue
        calls.append({"k": "call", "name": f"c{n}", "inst": i["name"], "meth": rng.choice(vis)})
    for d in insts + calls:
        decls.insert(rng.randint(0, len(decls)), d)
    # files
    nfiles = rng.weighted([(1, 4), (2, 4), (3, 2)])
    files = [{"imports": [], "decls": []} for _ in range(nfiles)]
    for d in decls:
        files[rng.below(nfiles)]["decls"].append(d)
    for j in range(1, nfiles):
        files[rng.below(j)]["imports"].append(j)
    if nfiles > 1 and rng.chance(0.4):
        a, b = rng.below(nfiles), rng.below(nfiles)
        if a != b and b not in files[a]["imports"]:
            files[a]["imports"].append(b)
    # reference ids in textual order of the files
    plain = []
    for f in files:
        for d in f["decls"]:
            if d["k"] == "class":
                d["ext"] = [[new(), b] for b in d["ext"]]
                plain += [k for k, _ in d["ext"]]
                for m in d["methods"]:
                    m["calls"] = [[new(), c] for c in m["calls"]]
            elif d["k"] == "inst":
                d["type"] = [new(), d["type"]]
                plain.append(d["type"][0])
            else:
                d["inst"] = [new(), d["inst"]]
                d["meth"] = [new(), d["meth"]]
                plain.append(d["inst"][0])
    # waits of the plain references: none (most), a DAG, or anything (cycles through library references included)
    deps = {}
    style = rng.weighted([("none", 5), ("dag", 3), ("any", 2)])
    allids = list(range(nxt[0]))
    if style == "dag":
        hidden = rng.shuffle(plain)
        for pos, k in enumerate(hidden):
            if pos and rng.chance(0.5):
                deps[k] = rng.sample(hidden[:pos], rng.randint(1, min(2, pos)))
    elif style == "any":
        for k in plain:
            if rng.chance(0.4):
                deps[k] = rng.sample(allids, rng.randint(1, min(2, len(allids))))
    return {"kind": "lib", "meth": meth, "deps": [[k, deps[k]] for k in sorted(deps)], "files": files}


def shrink(case):
    import copy

    def mk(files, deps=None):
        used = {k for i in range(len(files)) for k in file_refs({"files": files}, i)}
        ds = case["deps"] if deps is None else deps
        ds = [[k, [d for d in v if d in used]] for k, v in ds if k in used]
        return {"kind": "lib", "meth": case.get("meth", "rel"), "deps": [[k, v] for k, v in ds if v], "files": files}

    files = case["files"]
    # one file
    if len(files) > 1:
        yield mk([{"imports": [], "decls": [d for f in files for d in f["decls"]]}])
    for fi, f in enumerate(files):
        for n, d in enumerate(f["decls"]):
            # drop a declaration nobody names
            fs = copy.deepcopy(files)
            del fs[fi]["decls"][n]
            yield mk(fs)
            if d["k"] == "class":
                for mi, m in enumerate(d["methods"]):
                    fs = copy.deepcopy(files)
                    del fs[fi]["decls"][n]["methods"][mi]
                    yield mk(fs)
                    for ci in range(len(m["calls"])):
                        fs = copy.deepcopy(files)
                        del fs[fi]["decls"][n]["methods"][mi]["calls"][ci]
                        yield mk(fs)
                for ei in range(len(d["ext"])):
                    fs = copy.deepcopy(files)
                    del fs[fi]["decls"][n]["ext"][ei]
                    yield mk(fs)
    for n, (k, ds) in enumerate(case["deps"]):
        for d in ds:
            yield mk(files, case["deps"][:n] + [[k, [x for x in ds if x != d]]] + case["deps"][n + 1:])
    if case.get("meth") == "ext":
        c = mk(files)
        c["meth"] = "rel"
        yield c
