"""C03 — rule kinds determine what objects a model contains.

Case = a generated grammar (rule graph with chains / cycles of abstract rules,
mixed alternatives of match and common references, nested choices, a few
optional / repeated parts) + texts derived from it (and mutated ones).
Grammar families: free rule graphs, "flow" grammars (one common rule is the only
source of non-match-ness, which has to travel through towers / sparse graphs of
nested cycles against the visiting order: the kind fixpoint needs up to 6 changing
passes), layered value grammars (value-like abstract rules over all base types
behind multi-token match rules), templates; half of the derived base type tokens
are the values Python treats as false (0, 0.0, False, '').

Implementation side (real textX from the tree under test): `_tx_type` and
`_tx_inh_by` of every rule, and for every accepted text the Arpeggio parse
tree, the model (objects with their classes, attribute values) and the
`textx_isinstance` matrix (every object x every class).

Model side (Lean, `Drivers/RuleTypes.lean`): the rule skeleton is read off the
*resolved parser model* (`cls._tx_peg_rule`, `cls._tx_attrs`), i.e. the input
of `_determine_rule_types`; the parse trees are the ones Arpeggio produced.
The model answers kinds, inheritance lists, the isinstance relation and the
value `process_node` builds.

Direct oracle (no model): decides the property from the grammar *as written*
(the case's AST): has-assignments, least fixpoint of "references a non-match
rule", alternatives expanded from the AST, the documented result of an
abstract rule evaluated on the parse tree, reachability for isinstance.
"""
import os
import signal

from harness.core import Check, use_repo


class _Timeout(BaseException):
    """a parse that takes too long (PEG backtracking without memoization is exponential on some grammars)"""


def _on_alarm(*_):
    raise _Timeout()


class time_limit:
    def __init__(self, seconds):
        self.seconds = seconds

    def __enter__(self):
        try:
            self.old = signal.signal(signal.SIGALRM, _on_alarm)
            signal.setitimer(signal.ITIMER_REAL, self.seconds)
            self.armed = True
        except ValueError:  # not in the main thread: no limit
            self.armed = False

    def __exit__(self, *a):
        if self.armed:
            signal.setitimer(signal.ITIMER_REAL, 0)
            signal.signal(signal.SIGALRM, self.old)
        return False

ALL_BASE = ["ID", "STRING", "BOOL", "INT", "FLOAT", "STRICTFLOAT", "NUMBER", "BASETYPE"]
BASE = ALL_BASE  # the base types the generated grammars reference (rules of the model grammar)
# base types by weight: every one is referenced; the regex ones dominate
USED_BASE = [("INT", 5), ("ID", 4), ("BOOL", 3), ("STRING", 3), ("FLOAT", 2), ("NUMBER", 1), ("STRICTFLOAT", 1),
             ("BASETYPE", 1)]
KF1 = "C03-KF1"


# --------------------------------------------------------------------------
# grammar AST helpers
# --------------------------------------------------------------------------
def e_kind(e):
    return next(iter(e))


def render_expr(e, ctx="top"):
    k = e_kind(e)
    if k == "lit":
        return "'" + e["lit"] + "'"
    if k == "ref":
        return e["ref"]
    if k == "seq":
        s = " ".join(render_expr(x, "seq") for x in e["seq"])
        return "(" + s + ")" if ctx in ("rep",) else s
    if k == "alt":
        s = " | ".join(render_expr(x, "alt") for x in e["alt"])
        return s if ctx == "top" else "(" + s + ")"
    if k in ("opt", "star", "plus"):
        op = {"opt": "?", "star": "*", "plus": "+"}[k]
        return "(" + render_expr(e[k], "top") + ")" + op
    if k == "asg":
        attr, op, rhs = e["asg"]
        return attr + op + render_expr(rhs, "rep")
    raise ValueError(k)


def render_grammar(case):
    return "\n".join(f"{r['name']}: {render_expr(r['body'])};" for r in case["rules"]) + "\n"


def has_asg(e):
    k = e_kind(e)
    if k == "asg":
        return True
    if k in ("seq", "alt"):
        return any(has_asg(x) for x in e[k])
    if k in ("opt", "star", "plus"):
        return has_asg(e[k])
    return False


def refs_of(e):
    k = e_kind(e)
    if k == "ref":
        return [e["ref"]]
    if k in ("seq", "alt"):
        return [r for x in e[k] for r in refs_of(x)]
    if k in ("opt", "star", "plus"):
        return refs_of(e[k])
    if k == "asg":
        return refs_of(e["asg"][2])
    return []


def documented(e):
    k = e_kind(e)
    if k in ("lit", "ref"):
        return True
    if k in ("seq", "alt"):
        return all(documented(x) for x in e[k])
    return False


def alternatives(e):
    """alternatives of a documented expression: lists of items ('lit'|rule name)"""
    k = e_kind(e)
    if k == "lit":
        return [[None]]
    if k == "ref":
        return [[e["ref"]]]
    if k == "alt":
        return [a for x in e["alt"] for a in alternatives(x)]
    if k == "seq":
        out = [[]]
        for x in e["seq"]:
            out = [a + b for a in out for b in alternatives(x)]
            if len(out) > 4096:
                raise OverflowError
        return out
    raise ValueError(k)


# --------------------------------------------------------------------------
# the documented semantics, computed from the grammar as written
# --------------------------------------------------------------------------
def spec_kinds(case):
    rules = {r["name"]: r["body"] for r in case["rules"]}
    common = {n for n, b in rules.items() if has_asg(b)}
    nonmatch = set(common)
    changed = True
    while changed:
        changed = False
        for n, b in rules.items():
            if n not in nonmatch and any(r in nonmatch for r in refs_of(b)):
                nonmatch.add(n)
                changed = True
    kinds = {}
    for n in rules:
        kinds[n] = "common" if n in common else ("abstract" if n in nonmatch else "match")
    return kinds


def spec_edges(case, kinds):
    """R -> set of first non-match references of R's alternatives, or None when
    R's body is outside the documented fragment"""
    edges = {}
    for r in case["rules"]:
        n = r["name"]
        if kinds[n] != "abstract":
            edges[n] = set()
            continue
        if not documented(r["body"]):
            edges[n] = None
            continue
        try:
            alts = alternatives(r["body"])
        except OverflowError:
            edges[n] = None
            continue
        s = set()
        for a in alts:
            for item in a:
                if item is not None and kinds.get(item, "match") != "match":
                    s.add(item)
                    break
        edges[n] = s
    return edges


def spec_reach(edges, start):
    """rules reachable from `start` in >= 0 steps; None if an undocumented body is on the way"""
    seen, todo = {start}, [start]
    while todo:
        x = todo.pop()
        e = edges.get(x, set())
        if e is None:
            return None
        for y in e:
            if y not in seen:
                seen.add(y)
                todo.append(y)
    return seen


def skel_other(b):
    """does a skeleton body contain an operator outside the documented fragment?"""
    if isinstance(b, str) or "r" in b:
        return False
    if "o" in b:
        return True
    return any(skel_other(x) for x in b.get("s", b.get("c", [])))


def skel_refs(b):
    """rules (indices into the skeleton) referenced in a skeleton body"""
    if isinstance(b, str):
        return []
    if "r" in b:
        return [b["r"]]
    if "o" in b:
        return [r for x in b["o"] for r in skel_refs(x)] if isinstance(b["o"], list) else skel_refs(b["o"])
    return [r for x in b.get("s", b.get("c", [])) for r in skel_refs(x)]


def strictly_documented(i, obs, seen=None):
    """the rule's body is in the documented fragment and so are, transitively, the bodies of the rules it references: such a
    rule cannot match the empty string, so each of its references leaves a child in the tree (a referenced rule that may match
    nothing -- `R3: R4* | R4?;` -- leaves none, and `Derives` says nothing about it)"""
    seen = set() if seen is None else seen
    if i in seen or not isinstance(i, int) or not (0 <= i < len(obs["skeleton"])):
        return True
    seen.add(i)
    body = obs["skeleton"][i]["body"]
    if skel_other(body):
        return False
    return all(strictly_documented(r, obs, seen) for r in skel_refs(body))


def abstract_nodes_documented(t, obs):
    """every abstract rule's node of the parse tree belongs to a rule whose resolved body is documented, transitively through
    the rules it references"""
    if "t" in t:
        return True
    if "n" in t and obs["kinds"].get(t["n"]) == "abstract":
        if not strictly_documented(obs["names"].index(t["n"]), obs):
            return False
    return all(abstract_nodes_documented(c, obs) for c in t["k"])


def tree_derives(t, obs):
    """independent reading of `Derives` / `WfTree`: the children of every abstract rule's node are those of one
    alternative of the rule's resolved body (match -> a terminal, reference -> that rule's node, or a terminal for a
    match rule; sequence, ordered choice; other operators derive nothing)"""
    if "t" in t:
        return True
    names = obs["names"]
    if "n" in t and obs["kinds"].get(t["n"]) == "abstract":
        kids = t["k"]

        def m(b, i):
            if b == "l":
                return {i + 1} if i < len(kids) and "t" in kids[i] else set()
            if "r" in b:
                if i >= len(kids):
                    return set()
                c = kids[i]
                if "n" in c:
                    return {i + 1} if c["n"] == names[b["r"]] else set()
                if "t" in c:
                    return {i + 1} if obs["kinds"].get(names[b["r"]]) == "match" else set()
                return set()
            if "s" in b:
                cur = {i}
                for x in b["s"]:
                    cur = {j for p in cur for j in m(x, p)}
                return cur
            if "c" in b:
                return {j for x in b["c"] for j in m(x, i)}
            return set()

        if len(kids) not in m(obs["skeleton"][names.index(t["n"])]["body"], 0):
            return False
    return all(tree_derives(c, obs) for c in t["k"])


def flat(t):
    """the matched text below a node"""
    if "t" in t:
        return t["t"]
    return "".join(flat(c) for c in t["k"])


def base_conv(rule, raw):
    """the Python value of a base type match (the documented conversions: INT -> int, FLOAT / STRICTFLOAT -> float,
    BOOL -> bool, STRING -> the text between the quotes with the escaped delimiter unescaped, otherwise the text);
    the conversion itself is C04's subject, here it only supplies the values the rule kinds pass around"""
    try:
        if rule == "INT":
            return int(raw)
        if rule in ("FLOAT", "STRICTFLOAT"):
            return float(raw)
        if rule == "BOOL":
            return raw == "1" or raw.lower() == "true"
        if rule == "STRING" and len(raw) >= 2:
            q = raw[0]
            return raw[1:-1].replace("\\" + q, q)
    except ValueError:
        pass
    return raw


def prim(v):
    return {"p": str(v), "ty": type(v).__name__}


def spec_eval(t, kinds, kf=False):
    """value of a parse tree node by the documented semantics (names, not indexes);
    kf=True: with the behaviour of the open finding C03-KF1 at exactly its class of nodes"""
    if "t" in t:
        # a simple match: the plain Python value of its base type / the matched text
        return prim(base_conv(t.get("r"), t["t"]))
    if "a" in t:
        raise ValueError("assignment node outside a common rule")
    kind = kinds.get(t["n"], "match")
    if kind == "match":
        # a match rule: the value of its only match, or the values of its matches joined as text
        if len(t["k"]) == 1:
            return spec_eval(t["k"][0], kinds, kf)
        return {"p": "".join(spec_eval(c, kinds, kf)["p"] for c in t["k"]), "ty": "str"}
    if kind == "common":
        attrs = {}
        for c in t["k"]:
            if "a" in c:
                attrs.setdefault(c["a"], []).extend(spec_eval(x, kinds, kf) for x in c["k"])
        return {"o": t["n"], "a": attrs}
    # abstract: first reference to a non-match rule of the alternative that matched - whatever that yields ...
    for c in t["k"]:
        if "n" in c and kinds.get(c["n"], "match") != "match":
            return spec_eval(c, kinds, kf)
    # ... else only match rules: the value of the single reference, or the concatenated text
    if len(t["k"]) == 1:
        return spec_eval(t["k"][0], kinds, kf)
    if kf:
        for c in t["k"]:
            if "n" in c:
                return spec_eval(c, kinds, kf)
    return {"p": flat(t), "ty": "str"}


def falsy(v):
    return "p" in v and v["p"] in FALSY.get(v.get("ty"), ())


FALSY = {"int": ("0",), "float": ("0.0", "-0.0"), "bool": ("False",), "str": ("",)}


def all_match_with_nonterminal(t, kinds):
    """does the tree contain an abstract-rule node with >= 2 children, all of match
    kind, one of them a non-terminal (the class of the open finding C03-KF1)"""
    if "t" in t:
        return False
    if "n" in t and kinds.get(t["n"], "match") == "abstract" and len(t["k"]) > 1:
        if all(("t" in c) or ("n" in c and kinds.get(c["n"], "match") == "match") for c in t["k"]) and any(
            "n" in c for c in t["k"]
        ):
            return True
    return any(all_match_with_nonterminal(c, kinds) for c in t["k"])


def sim_passes(case):
    """(changing passes, a pass whose only changes happened in nested calls) of the multi-pass kind fixpoint, replayed
    on the grammar as written - for the evidence only (how hard the generated rule graphs are for the fixpoint)"""
    rules = {r["name"]: r["body"] for r in case["rules"]}
    kind = {n: "match" for n in rules}
    passes, nested_only = 0, False
    while passes <= len(rules) + 1:
        visited, changes = set(), []

        def det(n, top):
            if n in visited or n not in rules:
                return
            visited.add(n)
            b = rules[n]
            if has_asg(b):
                if kind[n] != "common":
                    kind[n] = "common"
                    changes.append(top == n)
                return

            def walk(e):
                k = e_kind(e)
                if k == "ref":
                    det(e["ref"], top)
                    return kind.get(e["ref"], "match") != "match"
                if k in ("seq", "alt"):
                    return any(walk(x) for x in e[k])
                if k in ("opt", "star", "plus"):
                    return walk(e[k])
                return False

            if walk(b) and kind[n] != "abstract":
                kind[n] = "abstract"
                changes.append(top == n)

        for n in rules:
            det(n, n)
        if not changes:
            break
        passes += 1
        if passes > 1 and not any(changes):
            nested_only = True
    return passes, nested_only


def alias_cycle(case):
    alias = {r["name"]: r["body"]["ref"] for r in case["rules"] if e_kind(r["body"]) == "ref"}
    for n in alias:
        seen, x = set(), n
        while x in alias and x not in seen:
            seen.add(x)
            x = alias[x]
        if x in seen:
            return True
    return False


def has_empty_node(t):
    if "t" in t:
        return False
    return len(t["k"]) == 0 and "a" not in t or any(has_empty_node(c) for c in t["k"])


def has_abstract_node(t, kinds):
    if "t" in t:
        return False
    if "n" in t and kinds.get(t["n"], "match") == "abstract":
        return True
    return any(has_abstract_node(c, kinds) for c in t["k"])


def norm_val(v):
    """canonical form for messages: objects with attrs sorted by name, unassigned attrs dropped"""
    if "p" in v:
        return ["p", v["p"]]
    attrs = v["a"]
    if isinstance(attrs, list):
        d = {}
        for a, vs in attrs:
            d.setdefault(a, []).extend(vs)
        attrs = d
    return ["o", v["o"], sorted([a, [norm_val(x) for x in vs]] for a, vs in attrs.items() if vs)]


DEFAULTS = {"0", "", "False", "0.0"}


def attrs_dict(v):
    attrs = v["a"]
    if isinstance(attrs, list):
        d = {}
        for a, vs in attrs:
            d.setdefault(a, []).extend(vs)
        return d
    return attrs


def val_diff(want, got):
    """None if the implementation's value `got` (all attributes, unassigned ones with their
    defaults) is the value `want` (only the assignments that happened), else a description"""
    if "p" in want or "p" in got:
        if "p" in want and "p" in got and want["p"] == got["p"]:
            if "ty" in want and "ty" in got and want["ty"] != got["ty"]:
                return f"{want['ty']} {want['p']!r} expected, got {got['ty']} {got['p']!r}"
            return None
        return f"{norm_val(want)} expected, got {norm_val(got)}"
    if want["o"] != got["o"]:
        return f"object of {want['o']} expected, got object of {got['o']}"
    w, g = attrs_dict(want), attrs_dict(got)
    for a in sorted(set(w) | set(g)):
        wa, ga = w.get(a, []), g.get(a, [])
        if not wa:
            if ga == [] or (len(ga) == 1 and "p" in ga[0] and ga[0]["p"] in DEFAULTS):
                continue
            return f"{want['o']}.{a}: never assigned, but holds {[norm_val(x) for x in ga]}"
        if len(wa) != len(ga):
            return f"{want['o']}.{a}: {len(wa)} value(s) expected, got {len(ga)}"
        for x, y in zip(wa, ga):
            d = val_diff(x, y)
            if d:
                return d
    return None


def objects_of(v, out=None):
    out = [] if out is None else out
    if "o" in v:
        out.append(v["o"])
        attrs = v["a"].items() if isinstance(v["a"], dict) else v["a"]
        for _, vs in attrs:
            for x in vs:
                objects_of(x, out)
    return out


# --------------------------------------------------------------------------
# generator
# --------------------------------------------------------------------------
class Gen:
    def __init__(self, rng):
        self.rng = rng

    def grammar(self, tier):
        rng = self.rng
        n = rng.weighted([(2, 1), (3, 3), (4, 4), (5, 4), (6, 3), (7, 2), (8, 1)])
        intent = []
        for i in range(n):
            intent.append(rng.weighted([("C", 4), ("A", 5), ("M", 3)]))
        if "C" not in intent:
            intent[rng.below(n)] = "C"
        if rng.chance(0.7):
            intent[0] = "A"
        names = [f"R{i}" for i in range(n)]
        undocumented = rng.chance(0.15)
        rules = []
        for i in range(n):
            kind = intent[i]
            if kind == "C":
                body = self.common_body(i, names, intent)
            elif kind == "M":
                body = self.match_body(i, names, intent)
            else:
                body = self.abstract_body(i, names, intent, undocumented)
            rules.append({"name": names[i], "body": body})
        return rules

    def kw(self, i, j=0):
        return "#" + str(i) + "abcdefgh"[j]

    def match_item(self, i, names, intent):
        rng = self.rng
        ms = [names[j] for j in range(i + 1, len(names)) if intent[j] == "M"]
        c = rng.weighted([("lit", 4), ("base", 3), ("m", 3 if ms else 0)])
        if c == "lit":
            return {"lit": self.kw(i, rng.below(4))}
        if c == "base":
            return {"ref": rng.weighted(USED_BASE)}
        return {"ref": rng.choice(ms)}

    def match_body(self, i, names, intent):
        rng = self.rng
        shape = rng.weighted([("one", 3), ("seq", 4), ("alt", 3), ("alias", 1)])
        if shape == "one":
            return {"lit": self.kw(i)}
        if shape == "alias":
            ms = [names[j] for j in range(i + 1, len(names)) if intent[j] == "M"]
            return {"ref": rng.choice(ms)} if ms else {"ref": "INT"}
        if shape == "seq":
            return {"seq": [{"lit": self.kw(i)}] + [self.match_item(i, names, intent) for _ in range(rng.randint(1, 2))]}
        return {"alt": [{"lit": self.kw(i, 0)}, {"seq": [{"lit": self.kw(i, 1)}, self.match_item(i, names, intent)]}]}

    def any_ref(self, i, names, intent, forward_only):
        rng = self.rng
        if forward_only:
            cands = list(range(i + 1, len(names)))
        else:
            cands = list(range(len(names)))
        if not cands or rng.chance(0.15):
            return {"ref": rng.weighted(USED_BASE)}
        return {"ref": names[rng.choice(cands)]}

    def common_body(self, i, names, intent):
        rng = self.rng
        items = [{"lit": self.kw(i)}]
        nattr = rng.randint(1, 3)
        for a in range(nattr):
            op = rng.weighted([("=", 6), ("+=", 2), ("*=", 1)])
            rhs = self.any_ref(i, names, intent, False)
            asg = {"asg": [f"a{a}", op, rhs]}
            if rng.chance(0.15) and a > 0:
                items.append({"opt": {"seq": [{"lit": self.kw(i, 4 + a)}, asg]}})
            else:
                if rng.chance(0.3):
                    items.append({"lit": self.kw(i, 1 + a)})
                items.append(asg)
        if rng.chance(0.2):
            # a reference without assignment inside a common rule (result discarded)
            items.append(self.any_ref(i, names, intent, False))
        return {"seq": items}

    def abs_item(self, i, names, intent, first, undocumented, depth=0):
        """one element of an alternative of an abstract rule"""
        rng = self.rng
        c = rng.weighted([("lit", 3), ("fwd", 5), ("back", 2 if not first else 0), ("base", 1),
                          ("group", 2 if depth == 0 else 0), ("und", 3 if undocumented and depth == 0 else 0)])
        if c == "lit":
            return {"lit": self.kw(i, rng.below(6))}
        if c == "base":
            return {"ref": rng.weighted(USED_BASE)}
        if c == "fwd":
            return self.any_ref(i, names, intent, True)
        if c == "back":
            return {"ref": names[rng.below(i + 1)]}
        if c == "group":
            alts = []
            for _ in range(rng.randint(2, 3)):
                k = rng.randint(1, 2)
                seq = [self.abs_item(i, names, intent, first and j == 0, undocumented, 1) for j in range(k)]
                alts.append(seq[0] if k == 1 else {"seq": seq})
            return {"alt": alts}
        inner = self.abs_item(i, names, intent, first, False, 1)
        return {rng.choice(["opt", "star", "plus"]): inner}

    def value_body(self, i, names, intent):
        """`Value: STRING | FLOAT | BOOL | Object | Array | 'null';` of the documentation: every alternative a single
        reference (base type, later match rule, later rule of any kind) or a keyword, in any order"""
        rng = self.rng
        later = names[i + 1:]
        ms = [names[j] for j in range(i + 1, len(names)) if intent[j] == "M"]
        alts = []
        for _ in range(rng.weighted([(2, 3), (3, 4), (4, 3), (5, 1)])):
            c = rng.weighted([("base", 5), ("m", 2 if ms else 0), ("later", 4), ("lit", 1)])
            if c == "base":
                x = {"ref": rng.weighted(USED_BASE)}
            elif c == "m":
                x = {"ref": rng.choice(ms)}
            elif c == "later":
                x = {"ref": rng.choice(later)}
            else:
                x = {"lit": self.kw(i, rng.below(6))}
            if x not in alts:
                alts.append(x)
        return alts[0] if len(alts) == 1 else {"alt": alts}

    def value_grammar(self):
        """mixed alternatives of match and common references, layered: value rules (every alternative one reference:
        base types, match rules, common rules, other value rules) are referenced from abstract rules whose
        alternatives are sequences of keywords, multi-token match rules, base types, value rules and common rules
        in any order - so plain values (also the false ones) are what the *first non-match reference* yields."""
        rng = self.rng
        roles = ["E"] + (["E"] if rng.chance(0.5) else []) + ["M"] + (["M"] if rng.chance(0.4) else []) + ["V"] + \
                (["V"] if rng.chance(0.5) else []) + ["C"] + (["C"] if rng.chance(0.3) else [])
        if rng.chance(0.3):
            roles = rng.shuffle(roles)
        if rng.chance(0.5) or roles[0] != "E":
            roles = ["K"] + roles
        names = [f"R{i}" for i in range(len(roles))]
        # rules of one role, optionally only those defined after rule `after` (layered / value rules refer forward)
        of = lambda kind, after=-1: [names[j] for j in range(len(roles)) if roles[j] == kind and j > after]
        rules = []
        for i, role in enumerate(roles):
            if role == "K":
                # the container holds what the first layered rule yields (objects and plain values side by side)
                body = {"seq": [{"lit": self.kw(i)}, {"asg": ["a0", rng.choice(["+=", "+=", "=", "*="]), {"ref": of("E")[0]}]}]}
            elif role == "C":
                body = {"seq": [{"lit": self.kw(i)},
                                {"asg": ["a0", "=", {"ref": rng.choice([rng.weighted(USED_BASE)] + of("V"))}]}]}
            elif role == "M":
                body = rng.choice([{"seq": [{"lit": self.kw(i)}, {"lit": self.kw(i, 1)}]},
                                   {"seq": [{"lit": self.kw(i)}, {"ref": rng.weighted(USED_BASE)}]},
                                   {"seq": [{"lit": self.kw(i)}, {"ref": rng.weighted(USED_BASE)}, {"lit": self.kw(i, 1)}]},
                                   {"alt": [{"lit": self.kw(i)}, {"seq": [{"lit": self.kw(i, 1)}, {"ref": "INT"}]}]}])
            elif role == "V":
                alts = []
                pool = [("base", 8), ("m", 1), ("c", 3), ("v", 2 if of("V", i) else 0), ("lit", 1)]
                vbase = [("INT", 4), ("BOOL", 3), ("STRING", 3), ("FLOAT", 2), ("NUMBER", 2), ("STRICTFLOAT", 1), ("ID", 1),
                         ("BASETYPE", 1)]
                for _ in range(rng.weighted([(2, 3), (3, 4), (4, 3)])):
                    c = rng.weighted(pool)
                    x = {"base": lambda: {"ref": rng.weighted(vbase)}, "m": lambda: {"ref": rng.choice(of("M"))},
                         "c": lambda: {"ref": rng.choice(of("C"))}, "v": lambda: {"ref": rng.choice(of("V", i))},
                         "lit": lambda: {"lit": self.kw(i, rng.below(4))}}[c]()
                    if x not in alts:
                        alts.append(x)
                if not any(e_kind(x) == "ref" and x["ref"] in of("C") + of("V", i) for x in alts):
                    alts.insert(rng.below(len(alts) + 1), {"ref": rng.choice(of("C"))})
                body = alts[0] if len(alts) == 1 else {"alt": alts}
            else:
                alts = []
                item = {"lit": lambda: {"lit": self.kw(i, a)}, "m": lambda: {"ref": rng.choice(of("M"))},
                        "v": lambda: {"ref": rng.choice(of("V"))}, "c": lambda: {"ref": rng.choice(of("C"))},
                        "base": lambda: {"ref": rng.weighted(USED_BASE)}, "e": lambda: {"ref": rng.choice(of("E", i))}}
                for a in range(rng.weighted([(1, 2), (2, 4), (3, 3)])):
                    # keywords / match rules, then the reference that decides the result, then anything
                    seq = [item[rng.weighted([("lit", 2), ("m", 3)])]() for _ in range(rng.weighted([(0, 3), (1, 5), (2, 2)]))]
                    seq.append(item[rng.weighted([("v", 6), ("c", 2), ("base", 1), ("m", 1), ("e", 1 if of("E", i) else 0)])]())
                    seq += [item[rng.weighted([("lit", 2), ("m", 2), ("v", 2), ("c", 1)])]()
                            for _ in range(rng.weighted([(0, 6), (1, 3), (2, 1)]))]
                    if rng.chance(0.15) and len(seq) > 1:
                        seq = [{"alt": [seq[0], {"lit": self.kw(i, 6)}]}] + seq[1:]
                    alts.append(seq[0] if len(seq) == 1 else {"seq": seq})
                if of("E", i) and not any(r in of("E", i) for x in alts for r in refs_of(x)):
                    # every layered rule is reachable from the first one
                    alts.insert(rng.below(len(alts) + 1), rng.choice([{"ref": of("E", i)[0]},
                                {"seq": [{"ref": rng.choice(of("M"))}, {"ref": of("E", i)[0]}]}]))
                body = alts[0] if len(alts) == 1 else {"alt": alts}
            rules.append({"name": names[i], "body": body})
        return rules

    # ------------------------------------------------------------------ flow grammars
    def flow_grammar(self, tower):
        """One common rule C is the only source of non-match-ness; the abstract-to-be rules T0..Td-1 get it along
        a flow tree (T0 references C, every other Ti references its flow parent), while further references make
        the rule graph cyclic.  tower: parent(Ti) = Ti-1 and Ti also references Ti+1 - nested cycles; visited from
        T0, every Ti is examined while Ti-1 is in progress and still a match rule, so the kinds settle one rule
        per pass (d changing passes).  sparse: random flow tree, references down the tree and 0..2 anywhere.
        The definition order (= visiting order) is the flow order or a random permutation; references may stand
        first in an alternative when that is not left recursive; alias bodies, groups, match rules and keywords
        around the references vary."""
        rng = self.rng
        d = rng.weighted([(3, 4), (4, 3), (5, 2), (6, 1)]) if tower else rng.weighted([(3, 2), (4, 3), (5, 3), (6, 2)])
        # flow structure over flow indexes 0..d-1
        parent = {t: (t - 1 if tower or rng.chance(0.5) else rng.below(t)) for t in range(1, d)}
        extra = {t: [] for t in range(d)}
        for t in range(d):
            if tower:
                if t + 1 < d:
                    extra[t].append(t + 1)
                if rng.chance(0.15):
                    extra[t].append(rng.below(d))
            else:
                # mostly down the flow tree (a rule is then examined while its flow parent is in progress), some anywhere
                extra[t] += [c for c in range(t + 1, d) if parent[c] == t and rng.chance(0.7)]
                for _ in range(rng.weighted([(0, 4), (1, 4), (2, 1)])):
                    extra[t].append(rng.below(d))
        # definition order: roles = flow indexes, "C", optional match rule "M", optional common container "K" in front
        roles = list(range(d)) + ["C"]
        has_m = rng.chance(0.5)
        if has_m:
            roles.append("M")
        if not rng.chance(0.55):
            roles = rng.shuffle(roles)
        container = rng.chance(0.45) or roles[0] in ("C", "M")
        if container:
            roles = ["K"] + roles
        names = [f"R{i}" for i in range(len(roles))]
        pos = {r: i for i, r in enumerate(roles)}
        name_of = lambda role: names[pos[role]]
        left = {n: set() for n in names}  # rule -> rules that can stand leftmost in it

        def reaches(a, b):
            seen, todo = set(), [a]
            while todo:
                x = todo.pop()
                if x == b:
                    return True
                if x not in seen:
                    seen.add(x)
                    todo.extend(left.get(x, ()))
            return False

        rules = []
        for i, role in enumerate(roles):
            me = names[i]
            if role == "K":
                tgt = name_of(rng.below(d)) if rng.chance(0.8) else name_of(0)
                body = {"seq": [{"lit": self.kw(i)}, {"asg": ["a0", rng.choice(["+=", "+=", "="]), {"ref": tgt}]}]}
            elif role == "C":
                body = {"seq": [{"lit": self.kw(i)}, {"asg": ["a0", "=", {"ref": rng.weighted(USED_BASE)}]}]}
                if rng.chance(0.3):
                    body["seq"].append({"opt": {"asg": ["a1", "=", {"ref": name_of(rng.below(d))}]}})
            elif role == "M":
                body = rng.choice([{"seq": [{"lit": self.kw(i)}, {"lit": self.kw(i, 1)}]},
                                   {"seq": [{"lit": self.kw(i)}, {"ref": rng.weighted(USED_BASE)}]},
                                   {"alt": [{"lit": self.kw(i)}, {"seq": [{"lit": self.kw(i, 1)}, {"ref": "INT"}]}]}])
            else:
                t = role
                targets = [("C" if t == 0 else parent[t])] + extra[t]
                # the flow reference is not always the first alternative
                targets = rng.shuffle(targets) if rng.chance(0.6) else targets[1:] + targets[:1]
                alts = []
                for a, tg in enumerate(targets):
                    tn = name_of(tg)
                    kwa = {"lit": self.kw(i, a)}
                    form = rng.weighted([("bare", 4), ("kx", 3), ("kxk", 2), ("mx", 1 if has_m else 0), ("xk", 1),
                                         ("gx", 1)])
                    if form in ("bare", "xk") and (reaches(tn, me) or tn == me):
                        form = "kx"  # a leftmost reference that would be left recursive gets a keyword in front
                    if form in ("bare", "xk"):
                        left[me].add(tn)
                    if form == "bare":
                        alt = {"ref": tn}
                    elif form == "kx":
                        alt = {"seq": [kwa, {"ref": tn}]}
                    elif form == "kxk":
                        alt = {"seq": [kwa, {"ref": tn}, {"lit": self.kw(i, 7)}]}
                    elif form == "mx":
                        alt = {"seq": [{"ref": name_of("M")}, {"ref": tn}]}
                    elif form == "xk":
                        alt = {"seq": [{"ref": tn}, {"lit": self.kw(i, 7)}]}
                    else:
                        g = [kwa, {"ref": name_of("M")} if has_m else {"lit": self.kw(i, 6)}]
                        alt = {"seq": [{"alt": g}, {"ref": tn}]}
                    alts.append(alt)
                if rng.chance(0.25):  # a match-only alternative
                    alts.insert(rng.below(len(alts) + 1),
                                rng.choice([{"lit": self.kw(i, 5)}, {"seq": [{"lit": self.kw(i, 5)}, {"ref": rng.weighted(USED_BASE)}]}]))
                body = alts[0] if len(alts) == 1 else {"alt": alts}
            rules.append({"name": me, "body": body})
        return rules

    def abstract_body(self, i, names, intent, undocumented):
        rng = self.rng
        if rng.chance(0.08) and i + 1 < len(names):
            return {"ref": names[rng.randint(i + 1, len(names) - 1)]}  # A: B;
        if rng.chance(0.2) and i + 1 < len(names):
            return self.value_body(i, names, intent)
        alts = []
        for _ in range(rng.weighted([(1, 2), (2, 5), (3, 3)])):
            k = rng.weighted([(1, 4), (2, 4), (3, 3), (4, 1)])
            # an alternative that goes back to an earlier rule starts with a keyword (no left recursion)
            seq = []
            for j in range(k):
                seq.append(self.abs_item(i, names, intent, j == 0, undocumented))
            # back references are only generated at positions > 0; make position 0 consume input
            if any(e_kind(x) == "ref" and x["ref"] in names[: i + 1] for x in seq[1:]) and e_kind(seq[0]) != "lit":
                seq.insert(0, {"lit": self.kw(i, 6 + len(alts) % 2)})
            alts.append(seq[0] if len(seq) == 1 else {"seq": seq})
        return alts[0] if len(alts) == 1 else {"alt": alts}


TEMPLATES = [
    # (i) a multi-token match rule in front of the common rule
    lambda: [("R0", {"alt": [{"seq": [{"ref": "R1"}, {"ref": "R2"}]}, {"lit": "#x"}]}),
             ("R1", {"seq": [{"lit": "#"}, {"lit": "#"}]}), ("R2", {"asg": ["a", "=", {"ref": "INT"}]})],
    # (ii) A | A B
    lambda: [("R0", {"alt": [{"ref": "R1"}, {"seq": [{"ref": "R1"}, {"ref": "R2"}]}]}),
             ("R1", {"seq": [{"lit": "#a"}, {"asg": ["x", "=", {"ref": "INT"}]}]}),
             ("R2", {"seq": [{"lit": "#b"}, {"asg": ["y", "=", {"ref": "INT"}]}]})],
    # (iii) a cycle of abstract rules
    lambda: [("R0", {"alt": [{"ref": "R1"}, {"ref": "R2"}]}),
             ("R1", {"alt": [{"seq": [{"lit": "#k"}, {"ref": "R0"}]}, {"seq": [{"lit": "#z"}, {"ref": "R3"}]}]}),
             ("R2", {"seq": [{"lit": "#y"}, {"asg": ["y", "=", {"ref": "INT"}]}]}),
             ("R3", {"seq": [{"lit": "#w"}, {"asg": ["w", "=", {"ref": "INT"}]}]})],
    # (iv) nested choice with a match-only branch
    lambda: [("R0", {"seq": [{"lit": "#x"}, {"alt": [{"ref": "R1"}, {"ref": "R2"}]}, {"ref": "R3"}]}),
             ("R1", {"lit": "#b"}), ("R2", {"seq": [{"lit": "#c"}, {"asg": ["c", "=", {"ref": "INT"}]}]}),
             ("R3", {"seq": [{"lit": "#d"}, {"asg": ["d", "=", {"ref": "INT"}]}]})],
    # self reference
    lambda: [("R0", {"alt": [{"seq": [{"lit": "#p"}, {"ref": "R0"}]}, {"ref": "R1"}]}),
             ("R1", {"seq": [{"lit": "#b"}, {"asg": ["y", "=", {"ref": "INT"}]}]})],
    # alias chain into a cycle, container holding abstract results
    lambda: [("R0", {"seq": [{"lit": "#m"}, {"asg": ["xs", "+=", {"ref": "R1"}]}]}),
             ("R1", {"ref": "R2"}), ("R2", {"ref": "R3"}),
             ("R3", {"alt": [{"seq": [{"lit": "#q"}, {"ref": "R1"}]}, {"ref": "R4"}, {"seq": [{"ref": "R5"}, {"ref": "INT"}, {"ref": "R5"}]}]}),
             ("R4", {"seq": [{"lit": "#c"}, {"asg": ["v", "=", {"ref": "ID"}]}]}), ("R5", {"lit": "#s"})],
]


class Deriver:
    """sentences of a grammar by guided derivation with fuel"""

    INF = 10 ** 6

    def __init__(self, rules, rng):
        self.rules = {r["name"]: r["body"] for r in rules}
        self.rng = rng
        self.depth = {n: self.INF for n in self.rules}
        changed = True
        while changed:
            changed = False
            for n, b in self.rules.items():
                d = min(self.INF, 1 + self.d(b))
                if d < self.depth[n]:
                    self.depth[n] = d
                    changed = True

    def d(self, e):
        k = e_kind(e)
        if k == "lit":
            return 0
        if k == "ref":
            return self.depth.get(e["ref"], 0)
        if k == "seq":
            return max([self.d(x) for x in e["seq"]] or [0])
        if k == "alt":
            return min(self.d(x) for x in e["alt"])
        if k in ("opt", "star"):
            return 0
        if k == "plus":
            return self.d(e["plus"])
        attr, op, rhs = e["asg"]
        return 0 if op == "*=" else self.d(rhs)

    def gen(self, e, fuel, out):
        rng = self.rng
        k = e_kind(e)
        if len(out) > 20:
            fuel = 0
        if k == "lit":
            out.append(e["lit"])
        elif k == "ref":
            n = e["ref"]
            if n in TOKENS:
                out.append(self.token(n))
            else:
                self.gen(self.rules[n], fuel - 1, out)
        elif k == "seq":
            for x in e["seq"]:
                self.gen(x, fuel, out)
        elif k == "alt":
            ok = [x for x in e["alt"] if self.d(x) <= max(fuel, 0)]
            if not ok:
                m = min(self.d(x) for x in e["alt"])
                ok = [x for x in e["alt"] if self.d(x) == m]
            self.gen(rng.choice(ok), fuel, out)
        elif k == "opt":
            if self.d(e["opt"]) <= fuel and rng.chance(0.6):
                self.gen(e["opt"], fuel, out)
        elif k == "star":
            if self.d(e["star"]) <= fuel:
                for _ in range(rng.randint(0, 2)):
                    self.gen(e["star"], fuel, out)
        elif k == "plus":
            for _ in range(rng.randint(1, 2) if self.d(e["plus"]) <= fuel else 1):
                self.gen(e["plus"], fuel, out)
        else:
            attr, op, rhs = e["asg"]
            if op == "=":
                self.gen(rhs, fuel, out)
            else:
                lo = 1 if op == "+=" else 0
                reps = rng.randint(lo, 3) if self.d(rhs) <= fuel else lo
                for _ in range(reps):
                    self.gen(rhs, fuel, out)

    def token(self, base):
        """a token of a base type; about half are the values Python treats as false (0, 0.0, False, '')"""
        rng = self.rng
        if base == "BASETYPE":
            base = rng.choice(["NUMBER", "FLOAT", "BOOL", "ID", "STRING"])
        if base == "NUMBER":
            base = rng.choice(["STRICTFLOAT", "INT"])
        if base == "ID":
            return rng.weighted([("x" + str(rng.randint(0, 9)), 6), ("_", 1), ("false", 1), ("y_" + str(rng.randint(10, 20)), 1)])
        if rng.chance(0.5):
            return rng.choice(TOKENS[base][0])
        if base == "INT":
            return str(rng.randint(1, 99)) if rng.chance(0.85) else "-" + str(rng.randint(1, 9))
        return rng.choice(TOKENS[base][1])

    def sentence(self, root, fuel):
        if self.depth[root] >= self.INF:
            return None
        out = []
        self.gen({"ref": root}, max(fuel, self.depth[root]) + 1, out)
        return " ".join(out)


# base type -> (tokens whose value is false in Python, other tokens); FLOAT / STRICTFLOAT / INT texts are the
# canonical texts of their values except where marked (the conversion is C04's subject)
TOKENS = {
    "INT": (["0"], []),
    "ID": ([], []),
    "BOOL": (["false", "False", "0"], ["true", "True", "1"]),
    "STRING": (["''", '""'], ["'ab'", '"q"', "'it\\'s'", '"#0a"', "'0'"]),
    "FLOAT": (["0.0", "0"], ["1.5", "2.25", "7", "1e2"]),  # "0", "7", "1e2": not the canonical text of the value
    "STRICTFLOAT": (["0.0", "0."], ["3.5", ".5", "1e2"]),
    "NUMBER": ([], []),
    "BASETYPE": ([], []),
}


def mutate(text, rng):
    toks = text.split()
    if not toks:
        return "#?"
    c = rng.below(3)
    i = rng.below(len(toks))
    if c == 0:
        del toks[i]
    elif c == 1:
        toks.insert(i, toks[i])
    else:
        toks[i] = "#zz"
    return " ".join(toks)


# --------------------------------------------------------------------------
# the check
# --------------------------------------------------------------------------
class Prop(Check):
    ID = "C03"
    LEAN_MODULE = "TextxVerif.Props.C03"
    THEOREMS = [
        "RuleTypes.C03_kinds",
        "RuleTypes.C03_inh",
        "RuleTypes.C03_firstNM_alternatives",
        "RuleTypes.C03_isinstance_lists",
        "RuleTypes.C03_isinstance",
        "RuleTypes.C03_only_common",
        "RuleTypes.C03_match_plain",
        "RuleTypes.C03_result_first_nonmatch",
        "RuleTypes.C03_result_concat_terminals",
        "RuleTypes.C03_result_single_child",
        "RuleTypes.C03_derives_iff",
        "RuleTypes.C03_tree_iff",
        "RuleTypes.C03_children_alternative",
        "RuleTypes.C03_children_firstNM",
        "RuleTypes.C03_result_alternative",
        "RuleTypes.C03_result_spec",
        "RuleTypes.C03_result_instance",
        "RuleTypes.C03_result_instance_other_false",
        "RuleTypes.C03_inh_lower",
        "RuleTypes.C03_inh_upper",
        "RuleTypes.C03_isinstance_bounds",
        "RuleTypes.C03_result_all_match_partial",
        "RuleTypes.C03_result_all_match_full_false",
        "RuleTypes.C03_pinned_overapprox_false",
        "RuleTypes.C03_pinned_choice_false",
        "RuleTypes.C03_pinned_cycle_false",
        "RuleTypes.C03_pinned_result_false",
    ]
    DRIVER = "Drivers/RuleTypes.lean"
    QUICK_CASES = 380
    THOROUGH_CASES = 12000
    PROCS_QUICK = int(os.environ.get("VERIF_PROCS", "4"))
    PROCS_THOROUGH = int(os.environ.get("VERIF_PROCS", "16"))
    RULE = ("grammars of 2..9 rules with 3 (value family: 5) derived + 1 mutated text each, four families: free rule graphs "
            "(common / abstract / match by construction; forward and backward references, cycles and self references of "
            "abstract rules, alias rules, nested choices, mixed match/common alternatives, value-like rules, ~15% with "
            "optional / repeated parts), flow grammars (a single common rule whose non-match-ness travels through a "
            "tower of nested cycles or a sparse random graph against the definition order: 1..6 changing passes of the "
            "kind fixpoint, references also leftmost where not left recursive), value grammars (layers of value rules "
            "over all eight base types, multi-token match rules and common rules inside sequences), 6 templates; half of "
            "the INT / FLOAT / BOOL / STRING / NUMBER tokens are the values Python treats as false (0, 0.0, False, ''); "
            "non-trivial = the grammar loads, has an abstract rule, and an accepted text's parse tree contains an "
            "abstract rule's node")
    MODELLED = ("hand-modelled (RuleTypes.lean): lang.py _determine_rule_types (multi-pass fixpoint, per-pass visited set), "
                "_add_inherited_classes/_add_reffered_classes, model.py textx_isinstance (visited set), process_node "
                "rule-kind dispatch incl. which text is joined where (converted values inside a match rule, matched text "
                "for an abstract rule's simple matches); tie X: kinds, _tx_inh_by (ordered), isinstance matrix and model "
                "values vs the Lean driver fed with the resolved parser model and Arpeggio's parse tree; not exhibited: "
                "parsing itself (Arpeggio), the value conversion of base types (C04; supplied per terminal by the harness), "
                "attribute defaults")
    ASSUMPTIONS = [
        "the rule skeleton sent to the model is read from cls._tx_peg_rule / cls._tx_attrs after _resolve_rule_refs",
        "primitive values are compared by the text of the Python value (str(v)); the direct oracle also compares the Python "
        "type; the converted value of a base-type terminal is computed by the harness (base_conv: the documented "
        "conversions) and handed to the model as data",
        "isinstance oracle skipped for classes whose reachability passes an abstract rule with optional/repeated parts "
        "(outside the documented fragment; mirror correspondence still applies)",
    ]

    # ---------------------------------------------------------------- cases
    def gen(self, rng, n, tier):
        g = Gen(rng)
        for i in range(n):
            fam = "template"
            if i % 25 == 0:
                rules = [{"name": a, "body": b} for a, b in TEMPLATES[(i // 25) % len(TEMPLATES)]()]
            else:
                fam = rng.weighted([("free", 10), ("tower", 3), ("sparse", 3), ("value", 4)])
                rules = g.grammar(tier) if fam == "free" else g.value_grammar() if fam == "value" else \
                    g.flow_grammar(fam == "tower")
            case = {"rules": rules, "texts": []}
            d = Deriver(rules, rng)
            for t in range(5 if fam == "value" else 3):
                s = d.sentence(rules[0]["name"], 2 + t * 2)
                if s is not None and s not in case["texts"]:
                    case["texts"].append(s)
            if case["texts"] and rng.chance(0.7):
                case["texts"].append(mutate(rng.choice(case["texts"]), rng))
            elif not case["texts"]:
                case["texts"].append("#0a 1")
            yield case
        if tier == "thorough":
            yield from self.small_graphs()

    def small_graphs(self):
        """complete enumeration (kinds / inheritance lists / isinstance only): rules R0, R1 with 1..2 alternatives of
        1..2 items over {keyword, R0, R1, R2}, R2 a common rule"""
        items = [{"lit": "#k"}, {"ref": "R0"}, {"ref": "R1"}, {"ref": "R2"}]
        alts = [[a] for a in items] + [[a, b] for a in items for b in items]
        bodies = []
        for a in alts:
            bodies.append([a])
        for a in alts[::3]:
            for b in alts[1::2]:
                bodies.append([a, b])

        def mk(body):
            xs = [x[0] if len(x) == 1 else {"seq": x} for x in body]
            return xs[0] if len(xs) == 1 else {"alt": xs}

        r2 = {"name": "R2", "body": {"seq": [{"lit": "#c"}, {"asg": ["v", "=", {"ref": "INT"}]}]}}
        for b0 in bodies:
            for b1 in bodies[::2]:
                yield {"rules": [{"name": "R0", "body": mk(b0)}, {"name": "R1", "body": mk(b1)}, r2], "texts": [],
                       "static": True}

    # ------------------------------------------------------- implementation
    def impl(self, case):
        use_repo()
        import arpeggio
        from textx import metamodel_from_str, textx_isinstance
        from textx.exceptions import TextXError

        gtext = render_grammar(case)
        try:
            mm = metamodel_from_str(gtext)
        except TextXError as e:
            return {"load": "err", "type": type(e).__name__, "msg": str(e)[:200], "grammar": gtext}
        except RecursionError:
            return {"load": "other", "type": "RecursionError", "grammar": gtext}
        except Exception as e:
            return {"load": "other", "type": type(e).__name__, "msg": str(e)[:200], "grammar": gtext}
        names = [r["name"] for r in case["rules"]] + BASE
        idx = {n: i for i, n in enumerate(names)}
        obs = {"load": "ok", "grammar": gtext, "names": names}
        obs["kinds"] = {n: str(mm[n]._tx_type) for n in names}
        obs["base_kinds"] = {n: str(mm[n]._tx_type) for n in ALL_BASE}
        obs["inh"] = {n: [c.__name__ for c in mm[n]._tx_inh_by] for n in names}

        def skel(node, cls=None):
            if cls is not None:
                # the rule's own root node
                if node.rule_name and cls.__name__ != node.rule_name:
                    return {"r": idx[node.rule_name]}
            elif node.root:
                return {"r": idx[node._tx_class.__name__]}
            if isinstance(node, arpeggio.Match):
                return "l"
            kids = [skel(c) for c in node.nodes]
            if isinstance(node, arpeggio.OrderedChoice):
                return {"c": kids}
            if type(node) is arpeggio.Sequence:
                return {"s": kids}
            return {"o": kids}

        rules = []
        try:
            for n in names:
                cls = mm[n]
                if len(cls._tx_attrs) > 0:
                    rules.append({"attrs": True, "body": "l"})
                else:
                    rules.append({"attrs": False, "body": skel(cls._tx_peg_rule, cls)})
        except KeyError as e:
            return {"load": "other", "type": "SkeletonError", "msg": str(e), "grammar": gtext}
        obs["skeleton"] = rules
        classes = list(mm)
        cnames = [c.__name__ for c in classes]

        def tree(node):
            if isinstance(node, arpeggio.Terminal):
                return {"t": str(node.value), "r": str(node.rule_name)}
            rn = node.rule_name
            if rn.startswith("__asgn"):
                op = rn.split("_")[-1]
                if op == "plain":
                    kids = [node[0]]
                elif op == "optional":
                    kids = []
                else:
                    kids = [c for c in node if c.rule_name != "sep"]
                return {"a": node.rule._attr_name, "k": [tree(c) for c in kids]}
            return {"n": node.rule._tx_class.__name__, "k": [tree(c) for c in node]}

        def dump(v, objs):
            if hasattr(type(v), "_tx_attrs") and not isinstance(v, (str, int, float, bool)):
                inst = {}
                for c, cn in zip(classes, cnames):
                    try:
                        inst[cn] = bool(textx_isinstance(v, c))
                    except RecursionError:
                        inst[cn] = "RecursionError"
                    except Exception as e:
                        inst[cn] = type(e).__name__
                objs.append([type(v).__name__, inst])
                attrs = {}
                for a, meta in type(v)._tx_attrs.items():
                    val = getattr(v, a, None)
                    if isinstance(val, list):
                        attrs[a] = [dump(x, objs) for x in val]
                    elif val is None:
                        attrs[a] = []
                    else:
                        attrs[a] = [dump(val, objs)]
                return {"o": type(v).__name__, "a": attrs}
            if isinstance(v, bool) or not isinstance(v, (str, int, float)):
                return {"p": str(v), "ty": type(v).__name__}
            return {"p": str(v), "ty": type(v).__name__}

        obs["texts"] = []
        for text in case["texts"]:
            rec = {"text": text}
            try:
                with time_limit(2.0):
                    p = mm._parser_blueprint.clone()
                    p.parse(text)
                    rec["tree"] = tree(p.parse_tree[0])
                    if has_empty_node(rec["tree"]):
                        # a rule that matched the empty string leaves an empty non-terminal (Arpeggio;
                        # C01's quirk list): no alternative "matched" anything, outside this property
                        rec.update(outcome="empty-match")
                        obs["texts"].append(rec)
                        continue
                    model = mm.model_from_str(text)
            except _Timeout:
                rec.pop("tree", None)
                rec.update(outcome="timeout")
                obs["texts"].append(rec)
                continue
            except TextXError as e:
                rec.pop("tree", None)
                rec.update(outcome="err", type=type(e).__name__)
                obs["texts"].append(rec)
                continue
            except RecursionError:
                # left recursion through an optional part: a parser matter (C23), not a model
                rec.pop("tree", None)
                rec.update(outcome="recursion", type="RecursionError")
                obs["texts"].append(rec)
                continue
            except Exception as e:
                rec.update(outcome="other", type=type(e).__name__, msg=str(e)[:200])
                obs["texts"].append(rec)
                continue
            objs = []
            rec["val"] = dump(model, objs)
            rec["objs"] = objs
            rec["outcome"] = "ok"
            obs["texts"].append(rec)
        return obs

    # ---------------------------------------------------------------- model
    def model_req(self, case, obs):
        if obs.get("load") != "ok":
            return None
        idx = {n: i for i, n in enumerate(obs["names"])}

        def conv(t):
            if "t" in t:
                return {"t": t["t"], "v": str(base_conv(t.get("r"), t["t"]))}
            if "a" in t:
                return {"a": t["a"], "k": [conv(c) for c in t["k"]]}
            return {"n": idx[t["n"]], "k": [conv(c) for c in t["k"]]}

        trees = [conv(r["tree"]) for r in obs["texts"] if r.get("outcome") == "ok"]
        return {"op": "check", "rules": obs["skeleton"], "trees": trees}

    def compare(self, case, obs, out):
        if "err" in out:
            return f"model rejected the request: {out}"
        names = obs["names"]
        if not out["ok"]:
            return "model: no change-free pass within |rules|+1 passes"
        for i, n in enumerate(names):
            if obs["kinds"][n] != out["kinds"][i]:
                return f"kind of {n}: implementation {obs['kinds'][n]}, model {out['kinds'][i]}"
        nuser = len(case["rules"])
        for i, n in enumerate(names[:nuser]):
            want = [names[j] for j in out["inh"][i]]
            if obs["inh"][n] != want:
                return f"_tx_inh_by of {n}: implementation {obs['inh'][n]}, model {want}"
        inst = {names[o]: {names[r] for r in rs} for o, rs in out["isinst"]}

        def names_of(v):
            if "p" in v:
                return {"p": v["p"]}
            return {"o": names[v["o"]], "a": [[a, [names_of(x) for x in vs]] for a, vs in v["a"]]}

        oks = [r for r in obs["texts"] if r.get("outcome") == "ok"]
        if len(out.get("wf", [])) != len(oks) or len(out["vals"]) != len(oks):
            return "model answer: one value and one tree verdict per accepted text expected"
        for r, wf in zip(oks, out["wf"]):
            # Arpeggio's tree against the grammar: the children of every abstract rule's node are those of one
            # alternative of the rule's body (`Derives`, the hypothesis of C03_result_instance / _alternative);
            # bodies with ? * + # or predicates are outside the relation
            want = tree_derives(r["tree"], obs)
            if wf != want:
                return (f"text {r['text']!r}: parse tree {'derives' if wf else 'does not derive'} from the rule bodies "
                        f"in the model, expected {want}")
            if not wf and abstract_nodes_documented(r["tree"], obs):
                return (f"text {r['text']!r}: the children of an abstract rule's node are not those of an alternative "
                        f"of its (documented) body")
        for r, mv in zip(oks, out["vals"]):
            mv = names_of(mv)
            d = val_diff(mv, r["val"])
            if d:
                return f"text {r['text']!r}: model vs implementation: {d}"
            for cls, m in r["objs"]:
                for cn, b in m.items():
                    if cn == "OBJECT":
                        continue
                    want = cn in inst.get(cls, set()) if cn in names else None
                    if want is not None and b != want:
                        return f"text {r['text']!r}: textx_isinstance({cls} object, {cn}) = {b}, model {want}"
        return None

    # --------------------------------------------------------------- oracle
    def oracle(self, case, obs):
        if obs.get("load") != "ok":
            if obs.get("load") == "other" and not alias_cycle(case):
                return f"grammar does not load: {obs.get('type')} {obs.get('msg', '')}"
            return None  # a rejected grammar is outside the property (C23 / C24; `A: A;` is C23's)
        kinds = spec_kinds(case)
        for n, k in kinds.items():
            if obs["kinds"][n] != k:
                return f"rule {n} is a {k} rule by the documented definition but _tx_type is {obs['kinds'][n]}"
        for n in ALL_BASE:
            if obs["base_kinds"][n] != "match":
                return f"base type {n} is not a match rule"
        edges = spec_edges(case, kinds)
        user = [r["name"] for r in case["rules"]]
        for r in obs["texts"]:
            if r.get("outcome") == "other":
                return f"text {r['text']!r}: {r.get('type')} {r.get('msg', '')}"
            if r.get("outcome") != "ok":
                continue
            # every object belongs to a rule with assignments
            for cls, m in r["objs"]:
                if kinds.get(cls) != "common":
                    return f"text {r['text']!r}: the model contains an object of {cls}, a {kinds.get(cls)} rule"
            # plain values
            bad = self.bad_prim(r["val"])
            if bad:
                return f"text {r['text']!r}: value {bad} is neither an object of a common rule nor a plain str/int/float/bool"
            # abstract rules: first non-match reference, else the concatenated text
            want = spec_eval(r["tree"], kinds)
            d = val_diff(want, r["val"])
            if d:
                return f"text {r['text']!r}: documented result differs: {d}"
            # the value of the root rule's node, when an object, belongs to a rule reachable from the root rule
            if "o" in r["val"]:
                root = user[0]
                reach = spec_reach(edges, root)
                if reach is not None and r["val"]["o"] not in reach:
                    return (f"text {r['text']!r}: the model is a {r['val']['o']} object, a rule not reachable from "
                            f"the root rule {root} through abstract-rule alternatives")
                if reach is not None and r["objs"] and r["objs"][0][1].get(root) is not True:
                    return f"text {r['text']!r}: the model is not a textx_isinstance of the root rule {root}"
            # isinstance
            for cls, m in r["objs"]:
                for cn, b in m.items():
                    if cn == "OBJECT":
                        exp = True
                    elif cn == cls:
                        exp = True
                    elif cn in user:
                        reach = spec_reach(edges, cn)
                        if reach is None:
                            continue
                        exp = cls in reach
                    else:
                        exp = False
                    if b != exp:
                        return (f"text {r['text']!r}: textx_isinstance(<{cls} object>, {cn}) is {b}, "
                                f"the property says {exp}")
        return None

    def bad_prim(self, v):
        if "p" in v:
            return None if v.get("ty") in ("str", "int", "float", "bool") else v
        for _, vs in v["a"].items():
            for x in vs:
                b = self.bad_prim(x)
                if b:
                    return b
        return None

    def classify(self, case, obs, failure):
        """C03-KF1: an abstract rule's alternative with >= 2 children, all of them match, one a multi-token match
        rule: the result is that rule's text alone.  The failure belongs to the finding only if it is a value
        difference, the tree contains such a node, and the model *with the finding's behaviour neutralised*
        (the documented evaluation, but returning what process_node returns at exactly those nodes) explains it."""
        if obs.get("load") != "ok" or "documented result differs" not in str(failure):
            return None
        kinds = spec_kinds(case)
        for r in obs["texts"]:
            if r.get("outcome") != "ok":
                continue
            want = spec_eval(r["tree"], kinds)
            if val_diff(want, r["val"]) is None:
                continue
            if not all_match_with_nonterminal(r["tree"], kinds):
                return None
            if val_diff(self.eval_kf(r["tree"], kinds), r["val"]) is not None:
                return None
        return KF1

    def eval_kf(self, t, kinds):
        return spec_eval(t, kinds, kf=True)

    # ------------------------------------------------------------- evidence
    def nontrivial(self, case, obs):
        if obs.get("load") != "ok":
            return False
        kinds = spec_kinds(case)
        if "abstract" not in kinds.values():
            return False
        if case.get("static"):
            return True
        return any(r.get("outcome") == "ok" and has_abstract_node(r["tree"], kinds) for r in obs["texts"])

    def sample_view(self, case, obs):
        v = {"grammar": obs.get("grammar"), "texts": case["texts"][:2], "load": obs.get("load")}
        if obs.get("load") == "ok":
            v["kinds"] = {n: obs["kinds"][n] for n in obs["names"][: len(case["rules"])]}
            v["inh"] = {n: obs["inh"][n] for n in obs["names"][: len(case["rules"])]}
            v["outcomes"] = [r.get("outcome") for r in obs["texts"]]
        return v

    def extra_evidence(self, cases, obs, outs):
        d = {"loaded": 0, "rejected_grammars": 0, "texts": 0, "accepted": 0, "objects": 0, "isinstance_pairs": 0,
             "with_abstract_cycle": 0, "with_undocumented_ops": 0, "abstract_nodes_multi_child": 0, "kinds": {},
             "rules": 0, "changing_passes": {}, "nested_only_change_pass": 0, "false_valued_abstract_results": 0,
             "false_valued_after_match_nonterminal": 0, "false_valued_attribute_values": 0, "base_type_terminals": {},
             "trees_with_abstract_node_derived": 0, "trees_not_derived_undocumented_body": 0,
             "object_results_of_abstract_root": 0}
        for c, o in zip(cases, obs):
            if not isinstance(o, dict) or o.get("load") != "ok":
                d["rejected_grammars"] += 1
                continue
            d["loaded"] += 1
            kinds = spec_kinds(c)
            np, nested = sim_passes(c)
            d["changing_passes"][str(np)] = d["changing_passes"].get(str(np), 0) + 1
            d["nested_only_change_pass"] += 1 if nested else 0
            d["rules"] += len(kinds)
            for k in kinds.values():
                d["kinds"][k] = d["kinds"].get(k, 0) + 1
            edges = spec_edges(c, kinds)
            if any(v is None for v in edges.values()):
                d["with_undocumented_ops"] += 1
            else:
                for n in edges:
                    if any(n in (spec_reach(edges, s) or ()) for s in edges[n]):
                        d["with_abstract_cycle"] += 1
                        break
            for r in o["texts"]:
                d["texts"] += 1
                if r.get("outcome") == "ok":
                    d["accepted"] += 1
                    d["objects"] += len(r["objs"])
                    d["isinstance_pairs"] += sum(len(m) for _, m in r["objs"])
                    d["abstract_nodes_multi_child"] += self.count_multi(r["tree"], kinds)
                    if has_abstract_node(r["tree"], kinds):
                        if tree_derives(r["tree"], o):
                            d["trees_with_abstract_node_derived"] += 1
                        else:
                            d["trees_not_derived_undocumented_body"] += 1
                    if "o" in r["val"] and o["kinds"].get(r["tree"].get("n")) == "abstract":
                        d["object_results_of_abstract_root"] += 1
                    self.count_false(r["tree"], kinds, d)
        return {"distribution": d}

    def count_false(self, t, kinds, d):
        """how often the values Python treats as false travel through abstract rules / into attributes"""
        if "t" in t:
            if t.get("r") in ALL_BASE:
                d["base_type_terminals"][t["r"]] = d["base_type_terminals"].get(t["r"], 0) + 1
            return
        if "a" in t:
            d["false_valued_attribute_values"] += sum(1 for c in t["k"] if falsy(spec_eval(c, kinds)))
        elif kinds.get(t["n"]) == "abstract" and falsy(spec_eval(t, kinds)):
            d["false_valued_abstract_results"] += 1
            for c in t["k"]:
                if "n" in c and kinds.get(c["n"], "match") != "match":
                    break
                if "n" in c and len(t["k"]) > 1:
                    d["false_valued_after_match_nonterminal"] += 1
                    break
        for c in t["k"]:
            self.count_false(c, kinds, d)

    def count_multi(self, t, kinds):
        if "t" in t:
            return 0
        n = 1 if ("n" in t and kinds.get(t["n"]) == "abstract" and len(t["k"]) > 1) else 0
        return n + sum(self.count_multi(c, kinds) for c in t["k"])

    # --------------------------------------------------------------- shrink
    def shrink(self, case):
        rules, texts = case["rules"], case["texts"]
        for i in range(len(texts)):
            if len(texts) > 1:
                yield dict(case, texts=texts[:i] + texts[i + 1:])
        used = {r for x in rules for r in refs_of(x["body"])}
        for i in range(len(rules) - 1, 0, -1):
            if rules[i]["name"] not in used:
                yield dict(case, rules=rules[:i] + rules[i + 1:])
        for i, r in enumerate(rules):
            for b in self.smaller(r["body"]):
                yield dict(case, rules=rules[:i] + [{"name": r["name"], "body": b}] + rules[i + 1:])

    def smaller(self, e):
        k = e_kind(e)
        if k in ("seq", "alt"):
            xs = e[k]
            if len(xs) > 1:
                for i in range(len(xs)):
                    rest = xs[:i] + xs[i + 1:]
                    yield rest[0] if len(rest) == 1 else {k: rest}
            for i, x in enumerate(xs):
                for s in self.smaller(x):
                    yield {k: xs[:i] + [s] + xs[i + 1:]}
        elif k in ("opt", "star", "plus"):
            yield e[k]
        elif k == "ref":
            yield {"lit": "#r"}

    def extra_search(self, rng, tier, broken):
        return list(self.gen(rng, 1500, "quick"))
