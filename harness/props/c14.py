"""C14 — user classes are constructed once with exactly the grammar attributes.

Implementation side (harness/loadtree.py): a generated load tree (1..5 model files
importing each other with ImportURI, cached re-imports, cycles) over a fixed grammar
with user classes in the variants plain / __slots__ / frozen dataclass / own
__setattr__ / own __getattribute__ / own all three / inherited __setattr__ / own
__getattr__; every
user-code call point (match-rule processor, pre-resolution callback, scope provider,
__init__, object processor, model processor) logs an event with a snapshot of
`_tx_instrumented`, the three replaced methods, the `_tx_real_*` cache and
`len(_tx_obj_attrs)` of every user class, may start nested loads (same or another
metamodel; failure swallowed or not) and may raise.  The fault table (none, syntax
error main / imported, match-rule processor, callback, unknown reference, provider
exception, unresolvable postponed reference, __init__ exception / TypeError, object
processor, model processor main / imported, propagating nested failure) is cycled
through completely.  User code that gets hold of objects whose constructor is still
postponed (callback, scope provider, model processor of an imported file, constructor
of a child or of a referring object) stores attributes on them (names unknown to the
grammar, attributes of other rules, `_tx_`-like names, a grammar attribute of the
object again, `parent` on a root object) and deletes them again (60% of the main load trees, 1..4 stores each).
User classes may define the special methods textX's own code can trip over: __bool__ / __len__ (objects falsy while
the model is built: always, or decided from an attribute read through the instrumented access) and a value __eq__
without __hash__ (class traits `falsy` 30%, `eq` 15%).  The model of an immutable-root load is any immutable python
value (`convty`: the four primitive types, str kept by textX, tuple, namedtuple, frozenset, Decimal, date, bytes,
complex, Fraction, range, falsy ones of both kinds, list, dict).  The same tree is run by the Lean machine (Drivers/LoadTree.lean).
"""
from harness import loadtree as lt
from harness.core import Check

THEOREMS = [
    "LoadTree.C14_restored", "LoadTree.C14_restored_env", "LoadTree.C14_restored_clean", "LoadTree.C14_calls",
    "LoadTree.C14_init_once", "LoadTree.C14_init_at_most_once", "LoadTree.C14_init_order", "LoadTree.C14_kwargs",
    "LoadTree.C14_kwargs_ops", "LoadTree.C14_kwargs_pinned_false", "LoadTree.C14_unbalanced_false",
    "LoadTree.C14_procs_see_start", "LoadTree.C14_procs_see_clean", "LoadTree.C14_init_sees_clean_false",
    "LoadTree.C14_kwargs_ops_general", "LoadTree.C14_kwargs_harmless_alive", "LoadTree.C14_no_init_when_unresolved",
]
CLEAN = [0, False, False, 0]


def main_pids(case):
    return {n["pid"] for n in lt.walk_nodes(case["loads"][0])}


def compare_run(case, obs, out):
    """implementation vs Lean machine: outcome, every event with its snapshots, final class states"""
    if "err" in out:
        return f"model rejected the request: {out}"
    if out["ok"] != obs["ok"]:
        return f"outcome: implementation ok={obs['ok']} ({obs['exc']}), model ok={out['ok']}"
    ie, me = obs["events"], out["events"]
    for i in range(max(len(ie), len(me))):
        a = ie[i] if i < len(ie) else None
        b = me[i] if i < len(me) else None
        if a != b:
            return (f"event {i}: implementation {fmt_ev(a)}, model {fmt_ev(b)} "
                    f"(snapshot per user class: [_tx_instrumented, methods replaced, originals cached, len(_tx_obj_attrs)])")
    if out["final"] != obs["final"]:
        return f"class states after loading: implementation {obs['final']}, model {out['final']}"
    if all(out["restored"]) != all(obs["dict_same"]):
        return f"class __dict__ restored: implementation {obs['dict_same']}, model {out['restored']}"
    return None


def fmt_ev(e):
    if e is None:
        return "nothing"
    return f"{lt.KIND_NAME.get(e[0], e[0])}(file {e[1]}, label {e[2]}) {e[3]}"


def class_state_failure(case, obs):
    for cid, (st, same, beh) in enumerate(zip(obs["final"], obs["dict_same"], obs["behaves"])):
        c = case["classes"][cid]
        if st != CLEAN:
            return (f"after loading, user class {c['rule']} ({c['variant']}) has _tx_instrumented={st[0]}, "
                    f"replaced methods={st[1]}, cached originals={st[2]}, {st[3]} entries in _tx_obj_attrs")
        if not same:
            return f"after loading, the __dict__ of user class {c['rule']} ({c['variant']}) differs from before"
        if beh is not True:
            what = "__getattr__" if c["variant"] == "own_getattr" else "__setattr__"
            return f"after loading, {c['rule']}.{what} is not the class's own ({beh})"
    return None


class Prop(Check):
    ID = "C14"
    LEAN_MODULE = "TextxVerif.Props.C14"
    THEOREMS = THEOREMS
    DRIVER = "Drivers/LoadTree.lean"
    QUICK_CASES = 420
    THOROUGH_CASES = 7000
    RULE = ("load trees of 1..5 files x user classes (8 variants, none, subsets of 5 rules; 30% of the classes define "
            "__bool__ -> False / __len__ -> 0 / __bool__ from an attribute, 15% a value __eq__ without __hash__) x complete fault table "
            "(14 entries, cycled) x nested loads from user code (40%) x immutable root (6%; the value is one of 21 kinds: "
            "int/str/float/bool/None->str, tuple, namedtuple, frozenset, Decimal, date, bytes, complex, Fraction, range, "
            "falsy (), False, 0.0, frozenset(), Decimal(0), builtin list / dict) x global repository (10%) x "
            "metamodel without object processors (20%) x "
            "stores / deletions of user code on objects under construction (60% of the main trees, 40% of the nested: "
            "1..4 stores from callback / scope provider / imported model processor / another constructor; names: "
            "non-grammar, other rule's attribute, own grammar attribute, parent on a root (from a child's constructor); "
            "20% deleted again); "
            "non-trivial = a user class was instrumented and (a constructor ran or the load failed after instrumenting)")
    MODELLED = ("hand-modelled (TextxVerif/LoadTree.lean): model.py get_model_from_str, _replace/_restore_user_attr_methods, "
                "_discard_user_obj_attrs, process_node (user objects), parse_tree_to_objgraph (callback, imports, resolution, "
                "_end_model_construction, object processors, both failure handlers), _abort_model_construction; tie X: outcome, "
                "every user-code call with instrumentation snapshots of all user classes, final class states, kwargs keys "
                "(Kw.collectedOps: textX's stores, then the stores / deletions user code applied to the object before its "
                "constructor ran, then the filter); "
                "not exhibited: attribute values (checked by the direct oracle only), repositories (C17/C18), CPython's GC")
    ASSUMPTIONS = [
        "user code does not delete grammar attributes / the `parent` of a contained object while the object is under "
        "construction (C14_kwargs_ops: Op.harmless, needed for the exact key *list*; without it C14_kwargs_ops_general "
        "still gives the key set: the rule's attributes (+parent) minus what user code deleted for good, none twice); "
        "it may store anything, also `parent` on a root object",
        "nested loads started by user code leave the classes as they found them (proved for loads of the table: runF_frame)",
        "object ids are fresh (allocator counter); a key of _tx_obj_attrs belongs to a live object",
        "scope-provider calls of later resolution rounds are not modelled (the harness logs the first call per reference)",
    ]
    PROBE = False
    PROCS_THOROUGH = 8
    FAULTS = list(range(len(lt.FAULTS)))

    def gen(self, rng, n, tier):
        for i in range(n):
            yield lt.gen_case(rng.fork(str(i)), self.FAULTS[i % len(self.FAULTS)])

    def impl(self, case):
        return lt.run_case(case, probe=self.PROBE)

    def kw_queries(self, obs):
        stores = lt.stores_before_init(obs)
        return [(rule, rule != "Model", [[op == "set", name] for op, name, _ in st])
                for (pid, lab, rule, kws), st in zip(obs["inits"], stores) if pid >= 0]

    def model_req(self, case, obs):
        return lt.lean_request(case, kw=self.kw_queries(obs))

    def compare(self, case, obs, out):
        d = compare_run(case, obs, out)
        if d:
            return d
        inits = [x for x in obs["inits"] if x[0] >= 0]
        for (pid, lab, rule, kws), keys in zip(inits, out.get("kw", [])):
            got = [k for k, _ in kws]
            if got != keys:
                return f"__init__ of {rule} (label {lab}): implementation passed {got}, model {keys}"
        return None

    def oracle(self, case, obs):
        pids = main_pids(case)
        main = case["loads"][0]
        # each object is initialised (at most / exactly) once
        seen = {}
        for pid, lab, rule, kws in obs["inits"]:
            if pid < 0:
                return f"__init__ of an unknown {rule} object was called with {[k for k, _ in kws]}"
            seen[(pid, lab)] = seen.get((pid, lab), 0) + 1
            if seen[(pid, lab)] > 1:
                return f"{rule} object {lab} of file {pid} was initialised {seen[(pid, lab)]} times"
        expected = {}
        for n in lt.walk_nodes(main):
            exp = lt.expected_kwargs(n)
            for lab, rule in lt.user_objs(case, n):
                expected[(n["pid"], lab)] = (rule, exp[lab])
        if obs["ok"]:
            for key, (rule, _) in expected.items():
                if seen.get(key, 0) != 1:
                    return f"load succeeded but {rule} object {key[1]} of file {key[0]} was initialised {seen.get(key, 0)} times"
        # exactly the rule's attributes (+ parent when contained), references resolved
        stores = lt.stores_before_init(obs)
        for (pid, lab, rule, kws), st in zip(obs["inits"], stores):
            want = set(lt.RULE_ATTRS[rule]) | (set() if rule == "Model" else {"parent"})
            got = [k for k, _ in kws]
            if set(got) != want or len(got) != len(want):
                return f"__init__ of {rule} {lab} got {sorted(got)}, the rule's attributes (+parent) are {sorted(want)}"
            for k, v in kws:
                if k in ("target",) and (v[0] != "obj"):
                    return f"__init__ of {rule} {lab}: reference attribute {k} is {v}, not a resolved object"
                if k == "more" and any(x[0] != "obj" for x in v[1:]):
                    return f"__init__ of {rule} {lab}: reference list {k} holds unresolved entries {v}"
            if obs["ok"] and (pid, lab) in expected:
                exp = dict(expected[(pid, lab)][1])
                for op, name, val in st:
                    # user code stored a grammar attribute of the object again before the constructor ran
                    if op == "set" and name in exp and name != "parent":
                        exp[name] = ["int", val]
                for k, v in kws:
                    if exp.get(k) != v:
                        return f"__init__ of {rule} {lab}: {k}={v}, the model text says {exp.get(k)}"
        # before any object processor, after resolution
        own = [e for e in obs["events"] if e[1] in pids]
        seen_proc = seen_init = False
        for e in own:
            if e[0] == 4:
                seen_proc = True
            if e[0] == 3:
                seen_init = True
                if seen_proc:
                    return f"__init__ of object {e[2]} (file {e[1]}) ran after an object processor"
            if e[0] == 2 and seen_init:
                return f"scope provider call {e[2]} (file {e[1]}) after a constructor had run"
        # after loading the classes behave as before
        return class_state_failure(case, obs)

    def nontrivial(self, case, obs):
        instr = any(s[0] >= 1 for e in obs["events"] for s in e[3])
        return instr and (bool(obs["inits"]) or not obs["ok"])

    def classify(self, case, obs, failure):
        return None

    def sample_view(self, case, obs):
        return {"fault": case.get("fault"), "classes": case["classes"], "files": sum(1 for _ in lt.walk_nodes(case["loads"][0])),
                "nested_loads": len(case["loads"]) - 1, "ok": obs.get("ok"), "exc": obs.get("exc"),
                "events": len(obs.get("events", [])), "inits": len(obs.get("inits", [])), "final": obs.get("final"),
                "stores_by_user_code": len(obs.get("anns", []))}

    def shrink(self, case):
        yield from lt.shrink_case(case)

    def extra_search(self, rng, tier, broken):
        return [lt.gen_case(rng.fork(f"x{i}"), i) for i in range(600)]

    def extra_evidence(self, cases, obs, outs):
        dist = {}
        for c, o in zip(cases, obs):
            if isinstance(o, dict) and "ok" in o:
                k = f"{c.get('fault', ['corpus'])[0]}:{'ok' if o['ok'] else 'fail'}"
                dist[k] = dist.get(k, 0) + 1
        variants = {}
        traits = {"classes": 0, "cases_with_falsy_container_holding_a_reference": 0, "immutable_root_type": {}}
        for c in cases:
            for cl in c["classes"]:
                variants[cl["variant"]] = variants.get(cl["variant"], 0) + 1
                traits["classes"] += 1
                for t in ("falsy", "eq"):
                    if cl.get(t):
                        traits[f"{t}:{cl[t]}"] = traits.get(f"{t}:{cl[t]}", 0) + 1
            n0 = c["loads"][0]
            if n0.get("immut"):
                ty = n0.get("convty", "int")
                traits["immutable_root_type"][ty] = traits["immutable_root_type"].get(ty, 0) + 1
            hit = False
            for n in lt.walk_nodes(n0):
                if n.get("immut"):
                    continue

                def falsy(rule, n=n):
                    cid = lt.node_class(c, n, rule)
                    return cid is not None and c["classes"][cid].get("falsy") in ("bool", "len")

                def has_ref(objs):
                    return any(o["k"] == "ref" for o in lt.walk_objs(objs))

                if falsy("Model") and has_ref(n["objs"]):
                    hit = True
                if falsy("Box") and any(o["k"] == "box" and has_ref(o["kids"]) for o in lt.walk_objs(n["objs"])):
                    hit = True
            traits["cases_with_falsy_container_holding_a_reference"] += hit
        ann = {"cases_with_stores": 0, "applied": 0, "not_applied": 0, "by_hook": {}, "by_name": {},
               "constructor_calls_after_a_store_on_the_object": 0, "of_these_own_attribute_again": 0, "with_deletion": 0}
        for c, o in zip(cases, obs):
            if not (isinstance(o, dict) and "ok" in o):
                continue
            kinds = {}
            for n0 in c["loads"]:
                for n in lt.walk_nodes(n0):
                    for kind, h in lt.all_hooks(n):
                        if h.get("ann"):
                            kinds[h["lab"], lt.KIND[kind]] = kind
            ann["cases_with_stores"] += bool(o.get("anns"))
            for a in o.get("anns", []):
                ann["applied" if a[4] else "not_applied"] += 1
                if a[4]:
                    ann["by_name"][a[2]] = ann["by_name"].get(a[2], 0) + 1
                    k = lt.KIND_NAME[o["events"][a[0]][0]]
                    ann["by_hook"][k] = ann["by_hook"].get(k, 0) + 1
            for (pid, lab, rule, kws), st in zip(o["inits"], lt.stores_before_init(o)):
                if st:
                    ann["constructor_calls_after_a_store_on_the_object"] += 1
                    ann["of_these_own_attribute_again"] += any(n in lt.RULE_ATTRS[rule] for _, n, _ in st)
                    ann["with_deletion"] += any(op == "del" for op, _, _ in st)
        multi = sum(1 for c in cases if len(list(lt.walk_nodes(c["loads"][0]))) > 1)
        nested = sum(1 for c in cases if len(c["loads"]) > 1)
        return {"distribution": {"fault:outcome": dist, "class_variants": variants, "class_traits": traits, "multi_file": multi,
                                 "stores_by_user_code": ann,
                                 "with_nested_loads": nested,
                                 "max_counter_seen": max([s[0] for o in obs if isinstance(o, dict) for e in o.get("events", []) for s in e[3]] or [0])}}
