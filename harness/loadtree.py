"""Load-tree cases for C14 / C15: user classes, nested and multi-file loads,
faults at every user-code call point.

A *case* describes
  - a table of user classes (rule name + variant),
  - a pool of metamodels (which classes they use, options),
  - a table of loads: loads[0] is the attempt under test, loads[k>0] are
    independent loads started from user code (hooks) of loads with smaller index.
A load is a tree of model files (node = one file, children = the files it
imports with ImportURI).  Every user-code call point of a node is a *hook*:
match-rule object processor (conv), pre-reference-resolution callback (pre),
scope provider call (resolve), user class __init__ (init), object processor
(oproc), model processor (mproc).  A hook logs an event (with a snapshot of the
instrumentation state of the user classes of the node's metamodel), may start
nested loads (swallowing their failure or not) and may raise.  Hooks that get hold
of objects whose constructor is still postponed (callback, scope provider, model
processor of an imported file, constructor of a child / of a referring object) may
*annotate* them (`ann`): store an attribute the grammar does not know (or knows for
another rule, or a grammar attribute of the object again) and delete it again.

`run_case` executes the case on the real textX and returns the canonical
observation; `lean_request` renders the same case for Drivers/LoadTree.lean.
"""
import contextlib
import dataclasses
import gc
import io
import os
import shutil
import tempfile

from harness.core import use_repo

RULES = ["Model", "Import", "Box", "Item", "Ref"]
RULE_ATTRS = {
    "Model": ["name", "imports", "elems"],
    "Import": ["importURI", "tag"],
    "Box": ["name", "elems"],
    "Item": ["name", "val"],
    "Ref": ["name", "target", "more"],
}
VARIANTS = ["plain", "slots", "frozen", "own_setattr", "own_getattribute", "own_all", "derived", "own_getattr"]
# names user code stores on objects under construction: unknown to the grammar (plain, private, looking like
# textX's own, differing from a grammar attribute in case / by a suffix, dunder-like) ...
EXTRA_NAMES = ["note", "use_count", "_hidden", "_tx_user", "Name", "parent_", "__mark", "vals"]
# ... or attributes of *other* rules of the grammar (never `name` / `importURI`: textX itself looks for them)
FOREIGN_NAMES = ["val", "target", "more", "tag", "elems", "imports"]
GRAMMAR = r"""
Model: 'model' name=ID imports*=Import elems*=Elem;
Import: 'import' importURI=STRING 'as' tag=ID;
Elem: Box | Item | Ref;
Box: 'box' name=ID '{' elems*=Elem '}';
Item: 'item' name=ID (val=Val)? ';';
Ref: 'ref' name=ID '->' target=[Item] ('also' more+=[Item])? ';';
Val: /\d+/;
"""
GRAMMAR_IMMUT = "Top: Val | Model;\n" + GRAMMAR
KIND = {"conv": 0, "pre": 1, "resolve": 2, "init": 3, "oproc": 4, "mproc": 5}
KIND_NAME = {v: k for k, v in KIND.items()}
# what a failing hook raises ("exception class" dimension of a fault, crossed with every failure point):
#   exc     HookError, an ordinary Exception           txsem   textX's own TextXSemanticError, raised by user code
#   kbd / exit / genexit / base   failures that are NOT Exception subclasses: KeyboardInterrupt (Ctrl-C while user
#           code runs), SystemExit (a processor calling sys.exit()), GeneratorExit, a user-defined BaseException.
#           The clean-up handlers of the load path only clean up and re-raise, so the class of the failure is
#           irrelevant for the model (`raises` is a Bool there); the embedding application catches and drops it.
BASE_KINDS = ("kbd", "exit", "genexit", "base")
EXC_KINDS = ("exc", "txsem", *BASE_KINDS)
RAISING = ("exc", "type", "unknown", "txsem", *BASE_KINDS)
# deterministic cycle used by C15 for the fault of the main tree: every second round an ordinary exception
EXC_CYCLE = ("exc", "kbd", "exc", "exit", "txsem", "base", "exc", "genexit")
# Truthiness of user class objects (class trait `falsy`): a user class may define __bool__ / __len__, its objects may be
# falsy while the model is built and afterwards.  "bool": __bool__ -> False; "len": __len__ -> 0 (no __bool__);
# "dyn": __bool__ decided from the object's last grammar attribute, read through the (instrumented) attribute access
# (an empty Box / Model, an Item without value, a Ref without `more` is falsy; unreadable -> falsy)
FALSY = ["bool", "len", "dyn"]
# Equality of user class objects (class trait `eq`): "name": value equality by `name` and no __hash__ (the objects
# are unhashable, like those of an eq-dataclass)
EQS = ["name"]
# What the match-rule processor of the root alternative `Val` returns (an immutable-model file, `convty`): the model
# of such a load is that value.  The primitive python types, `None` (textX keeps the matched str), immutable
# non-primitive values, falsy ones of either kind, and builtin containers (mutable and unhashable, but textX cannot
# store its `_tx_*` attributes on them either: same path).
CONV_TYPES = ["int", "str", "float", "bool", "none", "tuple", "frozenset", "decimal", "date", "bytes", "complex",
              "fraction", "range", "namedtuple", "empty_tuple", "false", "zero_float", "empty_frozenset", "zero_decimal",
              "list", "dict"]
PRIMITIVE_CONV = ("int", "str", "float", "bool", "none", "false", "zero_float")


def conv_value(ty, n):
    """the python value a top-level `Val` processor returns for the matched number n"""
    import collections
    import datetime
    import decimal
    import fractions

    if ty == "namedtuple":
        return collections.namedtuple("Pair", "x y")(n, n + 1)
    return {
        "int": lambda: n, "str": lambda: f"v{n}", "float": lambda: n + 0.5, "bool": lambda: True, "none": lambda: None,
        "tuple": lambda: (n, n + 1), "frozenset": lambda: frozenset([n]), "decimal": lambda: decimal.Decimal(n),
        "date": lambda: datetime.date(2000, 1, 1) + datetime.timedelta(days=n), "bytes": lambda: str(n).encode(),
        "complex": lambda: complex(n, 1), "fraction": lambda: fractions.Fraction(n, 7), "range": lambda: range(n),
        "empty_tuple": lambda: (), "false": lambda: False, "zero_float": lambda: 0.0,
        "empty_frozenset": lambda: frozenset(), "zero_decimal": lambda: decimal.Decimal(0),
        "list": lambda: [n], "dict": lambda: {"v": n},
    }[ty]()


def is_tx_obj(model):
    """a textX object (of a user or a generated class), not a match-rule value"""
    return hasattr(type(model), "_tx_attrs")


class HookError(Exception):
    """raised by a scripted hook"""


class HookInterrupt(KeyboardInterrupt):
    """scripted Ctrl-C while user code runs (a subclass: a real interrupt of the harness is never swallowed)"""


class HookExit(SystemExit):
    """scripted sys.exit() of user code"""


class HookGenExit(GeneratorExit):
    """scripted GeneratorExit"""


class HookBase(BaseException):
    """a user-defined failure that is not an Exception"""


SCRIPTED_BASE = (HookInterrupt, HookExit, HookGenExit, HookBase)
BASE_CLASS = {"kbd": HookInterrupt, "exit": HookExit, "genexit": HookGenExit, "base": HookBase}


# --------------------------------------------------------------------------
# static views of a case
# --------------------------------------------------------------------------
def hook(lab, acts=(), raises=None):
    return {"lab": lab, "acts": [list(a) for a in acts], "raises": raises, "ann": []}


def node_objs(node):
    """(lab, rule, label of the container or None) of every object of one file"""
    if node.get("immut"):
        return []
    out = [(node["lab"], "Model", None)]

    def go(objs, parent):
        for o in objs:
            out.append((o["lab"], rule_of(o), parent))
            if o["k"] == "box":
                go(o["kids"], o["lab"])

    go(root_children(node), node["lab"])
    return out


def walk_objs(objs):
    """objects of a file in textual (pre-)order"""
    for o in objs:
        yield o
        if o["k"] == "box":
            yield from walk_objs(o["kids"])


def walk_nodes(node):
    yield node
    for c in node["imports"]:
        yield from walk_nodes(c)


def all_hooks(node):
    """every hook of one node (file), with its kind"""
    if node.get("pre") is not None:
        yield "pre", node["pre"]
    yield "mproc", node["mproc"]
    if node.get("immut"):
        yield "conv", node["conv"]
        return
    yield "init", node["init"]
    yield "oproc", node["oproc"]
    for i in node["imp_objs"]:
        yield "init", i["init"]
        yield "oproc", i["oproc"]
    for o in walk_objs(node["objs"]):
        yield "init", o["init"]
        yield "oproc", o["oproc"]
        if o["k"] == "item" and o.get("conv"):
            yield "conv", o["conv"]
        if o["k"] == "ref":
            for h in o["res"]:
                yield "resolve", h


def node_class(case, node, rule):
    """ClassId of the user class used for `rule` in the node's metamodel, or None"""
    for cid in case["mms"][node["mm"]]["classes"]:
        if case["classes"][cid]["rule"] == rule:
            return cid
    return None


def rule_of(o):
    return {"box": "Box", "item": "Item", "ref": "Ref", "import": "Import", "model": "Model"}[o["k"]]


def root_children(node):
    """children of the root Model object in textual order: Import objects first"""
    return [dict(i, k="import") for i in node["imp_objs"]] + node["objs"]


def render(node):
    """model text of one file"""
    if node.get("immut"):
        text = str(node["conv"]["lab"]) + "\n"
    else:
        lines = [f"model m{node['lab']}"]
        for i in node["imp_objs"]:
            lines.append(f'import "f{i["to"]}.m" as t{i["lab"]}')

        def go(objs, ind):
            for o in objs:
                if o["k"] == "box":
                    lines.append(f"{ind}box b{o['lab']} {{")
                    go(o["kids"], ind + "  ")
                    lines.append(f"{ind}}}")
                elif o["k"] == "item":
                    v = f" {o['conv']['lab']}" if o.get("conv") else ""
                    lines.append(f"{ind}item i{o['lab']}{v} ;")
                else:
                    more = (" also " + " ".join(f"i{t}" for t in o["more"])) if o["more"] else ""
                    lines.append(f"{ind}ref r{o['lab']} -> i{o['target']}{more} ;")

        go(node["objs"], "")
        text = "\n".join(lines) + "\n"
    if not node["syntax_ok"]:
        text += "!! ??\n"
    return text


def resolve_hooks(node):
    """provider calls of the first resolution round, in crossref order"""
    out = []
    for o in walk_objs(node["objs"]):
        if o["k"] == "ref":
            out.extend(o["res"])
    return out


def has_oproc(case, node, rule):
    """no object processor is registered for frozen dataclasses (textX needs to
    store _tx_position on an object to call its processor); a metamodel may have no
    object processors at all (`noprocs`)"""
    if case["mms"][node["mm"]].get("noprocs"):
        return False
    cid = node_class(case, node, rule)
    return cid is None or case["classes"][cid]["variant"] != "frozen"


def oproc_hooks(case, node):
    """object processor calls: depth first, children before the object"""
    out = []

    def go(o):
        if o["k"] == "box":
            for k in o["kids"]:
                go(k)
        if has_oproc(case, node, rule_of(o)):
            out.append(o["oproc"])

    for o in root_children(node):
        go(o)
    if has_oproc(case, node, "Model"):
        out.append(node["oproc"])
    return out


def user_objs(case, node):
    """(lab, rule) of the user class objects of one file in __init__ order
    (children before their container, the root last)"""
    out = []

    def go(o):
        if o["k"] == "box":
            for k in o["kids"]:
                go(k)
        if node_class(case, node, rule_of(o)) is not None:
            out.append((o["lab"], rule_of(o)))

    if node.get("immut"):
        return out
    for o in root_children(node):
        go(o)
    if node_class(case, node, "Model") is not None:
        out.append((node["lab"], "Model"))
    return out


def expected_kwargs(node):
    """lab -> {attribute: expected value summary} for every object of the file"""
    exp = {}

    def ref(lab, rule):
        return ["obj", rule, lab]

    def go(o, parent):
        r = rule_of(o)
        if r == "Import":
            d = {"importURI": ["str", f"f{o['to']}.m"], "tag": ["str", f"t{o['lab']}"]}
        elif r == "Box":
            d = {"name": ["str", f"b{o['lab']}"], "elems": ["list"] + [ref(k["lab"], rule_of(k)) for k in o["kids"]]}
            for k in o["kids"]:
                go(k, ref(o["lab"], "Box"))
        elif r == "Item":
            d = {"name": ["str", f"i{o['lab']}"], "val": ["int", o["conv"]["lab"]] if o.get("conv") else ["NoneType", None]}
        else:
            d = {"name": ["str", f"r{o['lab']}"], "target": ref(o["target"], "Item"),
                 "more": ["list"] + [ref(t, "Item") for t in o["more"]]}
        d["parent"] = parent
        exp[o["lab"]] = d

    if node.get("immut"):
        return exp
    me = ref(node["lab"], "Model")
    kids = root_children(node)
    for o in kids:
        go(o, me)
    exp[node["lab"]] = {
        "name": ["str", f"m{node['lab']}"],
        "imports": ["list"] + [ref(o["lab"], "Import") for o in kids if o["k"] == "import"],
        "elems": ["list"] + [ref(o["lab"], rule_of(o)) for o in kids if o["k"] != "import"],
    }
    return exp


def lean_hook(h):
    return {"lab": h["lab"], "acts": [[a, bool(s)] for a, s in h["acts"]], "raises": h["raises"] in RAISING}


def lean_ot(case, node, o):
    cid = node_class(case, node, rule_of(o))
    kids = []
    if o["k"] == "box":
        kids = [lean_ot(case, node, k) for k in o["kids"]]
    elif o["k"] == "item" and o.get("conv"):
        kids = [{"conv": lean_hook(o["conv"])}]
    elif o["k"] == "model":
        kids = [lean_ot(case, node, k) for k in root_children(node)]
    d = {"lab": o["lab"], "init": lean_hook(o["init"]), "kids": kids}
    if cid is not None:
        d["cls"] = cid
    return d


def lean_node(case, node):
    immut = bool(node.get("immut"))
    if immut:
        root = {"conv": lean_hook(node["conv"])}
    else:
        root = lean_ot(case, node, dict(k="model", lab=node["lab"], init=node["init"]))
    res = [] if immut else resolve_hooks(node)
    d = {
        "pid": node["pid"],
        "classes": list(case["mms"][node["mm"]]["classes"]),
        "syntax_ok": bool(node["syntax_ok"]),
        "immut": immut,
        "root": root,
        "imports": [lean_node(case, c) for c in node["imports"]],
        "resolve": [lean_hook(h) for h in res],
        "unresolved": any(h["raises"] == "postponed" for h in res),
        "oprocs": [] if immut else [lean_hook(h) for h in oproc_hooks(case, node)],
        "mproc": lean_hook(node["mproc"]),
    }
    if node.get("pre") is not None:
        d["pre"] = lean_hook(node["pre"])
    return d


def lean_request(case, op="run", kw=None, then=None):
    """`kw`: list of (rule, contained, ops) for which the driver evaluates the constructor keyword filter;
    ops = [[is_set, name]...]: what user code stored on / deleted from the object before its constructor ran;
    `then`: load trees attempted afterwards with the same classes (history)"""
    req = {"op": op, "nclasses": len(case["classes"]), "loads": [lean_node(case, n) for n in case["loads"]]}
    if then:
        req["then"] = [lean_node(case, n) for n in then]
    if kw:
        req["kw"] = [{"attrs": RULE_ATTRS[r], "assigned": RULE_ATTRS[r][:1], "contained": bool(c),
                      "extras": ["_tx_filename", "_tx_metamodel", "_tx_model_params", "_tx_model_repository",
                                 "_tx_reference_resolver", "_tx_parser", "_tx_loaded_models"],
                      "ops": [[bool(b), str(k)] for b, k in ops]} for r, c, ops in kw]
    return req


def stores_before_init(obs):
    """per constructor call (entry of obs["inits"]): the stores / deletions user code applied to that
    object before the call, in order: [[op, name, value]...]"""
    out = []
    anns = obs.get("anns", [])
    for (pid, lab, rule, kws), ie in zip(obs["inits"], obs.get("init_ev", [])):
        out.append([[a[3], a[2], a[5]] for a in anns if a[4] and a[1] == lab and a[0] < ie] if lab >= 0 else [])
    while len(out) < len(obs["inits"]):
        out.append([])
    return out


# --------------------------------------------------------------------------
# user classes
# --------------------------------------------------------------------------
def make_class(rule, variant, on_init, is_root, falsy=None, eq=None):
    """A fresh user class for `rule`.  `on_init(self, kwargs)` is the scripted
    constructor body (logs, nested loads, raise).  `falsy` / `eq`: the class defines __bool__ / __len__ / __eq__
    (see FALSY, EQS); both are part of the class before loading starts."""
    attrs = list(RULE_ATTRS[rule]) + ([] if is_root else ["parent"])
    counters = {"setattr": 0, "getattribute": 0, "delattr": 0, "getattr": 0}

    def body(self, kw):
        on_init(self, kw)
        for k, v in kw.items():
            object.__setattr__(self, k, v)

    if variant == "plain":
        class C:
            def __init__(self, **kw):
                body(self, kw)
    elif variant == "slots":
        class C:
            __slots__ = (*attrs, "_tx_position", "_tx_position_end", "__weakref__")

            def __init__(self, **kw):
                body(self, kw)
    elif variant == "frozen":
        # a constructor with an explicit signature (the generated one: one parameter per grammar attribute
        # [+ parent], nothing else accepted); the wrapper only lets the harness see what was passed
        C = dataclasses.make_dataclass(rule, [(a, object) for a in attrs], frozen=True, eq=False)
        generated_init = C.__init__

        def __init__(self, *args, **kw):
            on_init(self, kw)
            generated_init(self, *args, **kw)

        C.__init__ = __init__
    elif variant == "own_setattr":
        class C:
            def __init__(self, **kw):
                body(self, kw)

            def __setattr__(self, k, v):
                counters["setattr"] += 1
                object.__setattr__(self, k, v)
    elif variant == "own_getattribute":
        class C:
            def __init__(self, **kw):
                body(self, kw)

            def __getattribute__(self, k):
                counters["getattribute"] += 1
                return object.__getattribute__(self, k)
    elif variant == "own_all":
        class C:
            def __init__(self, **kw):
                body(self, kw)

            def __setattr__(self, k, v):
                counters["setattr"] += 1
                object.__setattr__(self, k, v)

            def __delattr__(self, k):
                counters["delattr"] += 1
                object.__delattr__(self, k)

            def __getattribute__(self, k):
                counters["getattribute"] += 1
                return object.__getattribute__(self, k)
    elif variant == "own_getattr":
        class C:
            def __init__(self, **kw):
                body(self, kw)

            def __getattr__(self, k):
                counters["getattr"] += 1
                raise AttributeError(k)
    elif variant == "derived":
        class Base:
            def __setattr__(self, k, v):
                counters["setattr"] += 1
                object.__setattr__(self, k, v)

        class C(Base):
            def __init__(self, **kw):
                body(self, kw)
    else:
        raise ValueError(variant)
    C.__name__ = rule
    C.__qualname__ = rule
    C._verif_counters = counters
    last = RULE_ATTRS[rule][-1]
    if falsy == "bool":
        C.__bool__ = lambda self: False
    elif falsy == "len":
        C.__len__ = lambda self: 0
    elif falsy == "dyn":
        def __bool__(self):
            try:
                return bool(getattr(self, last))
            except AttributeError:
                return False

        C.__bool__ = __bool__
    if eq == "name":
        def __eq__(self, other):
            try:
                return type(other) is type(self) and other.name == self.name
            except AttributeError:
                return NotImplemented

        C.__eq__ = __eq__
        C.__hash__ = None
    return C


def class_snapshot(cls):
    """what `the class behaves as before` is decided from: its own __dict__
    (identity of every entry; the per-object storage must be the same, empty dict)"""
    d = {}
    for k, v in cls.__dict__.items():
        d[k] = [id(v), len(v)] if k == "_tx_obj_attrs" else id(v)
    return d


def _is_instr(f):
    return "_replace_user_attr_methods_for_class" in getattr(f, "__qualname__", "")


def instr_state(cls):
    """[count, instrumented?, saved originals present?, #per-object entries]"""
    d = cls.__dict__
    flags = [_is_instr(d.get(n)) for n in ("__setattr__", "__delattr__", "__getattribute__")]
    saved = [("_tx_real_" + n) in d for n in ("setattr", "delattr", "getattribute")]
    instr = flags[0] if len(set(flags)) == 1 else "mixed"
    sv = saved[0] if len(set(saved)) == 1 else "mixed"
    return [int(d.get("_tx_instrumented", 0)), instr, sv, len(d["_tx_obj_attrs"])]


# --------------------------------------------------------------------------
# running a case on the real code
# --------------------------------------------------------------------------
class Runner:
    def __init__(self, case, tmp):
        use_repo()
        self.case = case
        self.tmp = tmp
        self.events = []
        self.inits = []  # [pid, lab, rule, [[key, raw value]...]]
        self.init_ev = []  # index of the `init` event of each entry of `inits`
        self.anns = []  # [event index of the hook, target label, name, op, applied?, value]
        self.labtab = {}  # lab -> (node, spec)
        self.res_seen = set()
        self.more_pos = {}
        self.mm_stack = []
        self.load_stack = []  # files whose load is in progress (outermost first)
        self.keep = []  # models of finished loads (kept alive so ids stay unique)
        self.idmap = {}
        for n0 in list(case["loads"]):
            self.index(n0)
        self.classes = [None] * len(case["classes"])
        self.mms = [self.make_mm(k) for k in range(len(case["mms"]))]

    def index(self, n0, write=True):
        for n in walk_nodes(n0):
            if write:
                with open(self.path(n), "w") as f:
                    f.write(render(n))
            if n.get("immut"):
                self.labtab[n["conv"]["lab"]] = (n, {"k": "conv", "h": n["conv"]})
                continue
            self.labtab[n["lab"]] = (n, dict(k="model", lab=n["lab"], init=n["init"], oproc=n["oproc"]))
            for i in n["imp_objs"]:
                self.labtab[i["lab"]] = (n, dict(i, k="import"))
            for o in walk_objs(n["objs"]):
                self.labtab[o["lab"]] = (n, o)
                if o["k"] == "item" and o.get("conv"):
                    self.labtab[o["conv"]["lab"]] = (n, {"k": "conv", "h": o["conv"]})

    def path(self, node):
        return os.path.join(self.tmp, f"f{node['pid']}.m")

    # -- metamodels -----------------------------------------------------------
    def make_mm(self, k, fresh_classes=False):
        import textx
        from textx.scoping import providers as sp

        spec = self.case["mms"][k]
        classes = []
        for cid in spec["classes"]:
            c = self.case["classes"][cid]
            if fresh_classes:
                classes.append(make_class(c["rule"], c["variant"], self.on_init, c["rule"] == "Model",
                                          c.get("falsy"), c.get("eq")))
                continue
            if self.classes[cid] is None:
                self.classes[cid] = make_class(c["rule"], c["variant"], self.on_init, c["rule"] == "Model",
                                               c.get("falsy"), c.get("eq"))
            classes.append(self.classes[cid])
        kwargs = {}
        if spec.get("grepo"):
            kwargs["global_repository"] = True
        mm = textx.metamodel_from_str(GRAMMAR_IMMUT if spec.get("immut") else GRAMMAR, classes=classes, **kwargs)
        mm._verif_classes = classes
        mm._parser_blueprint.file = io.StringIO()  # debug prints of the parser (TypeError path) go nowhere
        runner = self

        if spec.get("immut"):
            default = sp.PlainName()

            def provider(obj, attr, ref):
                handled, r = runner.on_resolve(obj, attr, ref)
                return r if handled else default(obj, attr, ref)
        else:
            class Prov(sp.PlainNameImportURI):
                def __call__(self, obj, attr, ref):
                    handled, r = runner.on_resolve(obj, attr, ref)
                    return r if handled else super().__call__(obj, attr, ref)

            provider = Prov()
        mm.register_scope_providers({"*.*": provider})
        frozen = {self.case["classes"][cid]["rule"] for cid in spec["classes"]
                  if self.case["classes"][cid]["variant"] == "frozen"}
        procs = {} if spec.get("noprocs") else {r: (lambda o, r=r: runner.on_oproc(o, r)) for r in RULES if r not in frozen}
        procs["Val"] = self.on_conv
        mm.register_obj_processors(procs)
        mm.register_model_processor(self.on_mproc)
        return mm

    # -- hooks ----------------------------------------------------------------
    def snap(self):
        return [instr_state(c) for c in self.mm_stack[-1]._verif_classes]

    def run_hook(self, kind, node, h, ctx=None):
        ev = len(self.events)
        self.events.append([KIND[kind], node["pid"], h["lab"], self.snap()])
        self.annotate(kind, h, ctx, ev, late=False)
        for idx, swallow in h["acts"]:
            try:
                self.run_load(self.case["loads"][idx])
            except (Exception, *SCRIPTED_BASE):
                # user code that catches everything the nested load raised (also a scripted non-Exception) and drops it
                if not swallow:
                    raise
        self.annotate(kind, h, ctx, ev, late=True)
        if h["raises"] == "type":
            raise TypeError(f"scripted TypeError at {h['lab']}")
        if h["raises"] == "exc":
            raise HookError(f"scripted failure at {h['lab']}")
        if h["raises"] == "txsem":
            from textx.exceptions import TextXSemanticError

            raise TextXSemanticError(f"scripted failure at {h['lab']}")
        if h["raises"] in BASE_CLASS:
            if h["raises"] == "exit":
                raise HookExit(3)
            raise BASE_CLASS[h["raises"]](f"scripted failure at {h['lab']}")

    # -- annotations: user code stores / deletes attributes on objects under construction ----
    def reachable(self, anchor):
        """label -> object for everything user code can reach from `anchor` (a model or one of its
        objects): the anchor's own file and every file of its model repository"""
        from textx import get_model

        root = anchor
        with contextlib.suppress(Exception):
            root = get_model(anchor)
        models = [root]
        repo = _attr(root, "_tx_model_repository")
        if repo is not None:
            with contextlib.suppress(Exception):
                models += [m for m in repo.all_models if m is not root]
        found = {}
        for m in models:
            stack = [m]
            while stack:
                o = stack.pop()
                if isinstance(o, (int, str)) or o is None:
                    continue
                rule = type(o).__name__
                ent = self.lookup_obj(_attr(o, "tag") if rule == "Import" else _attr(o, "name"))
                if ent is not None and ent[1]["lab"] not in found:
                    found[ent[1]["lab"]] = o
                for a in ("imports", "elems"):
                    v = _attr(o, a)
                    if isinstance(v, list):
                        stack.extend(v)
        return found

    def annotate(self, kind, h, ctx, ev, late):
        anns = [a for a in h.get("ann", ()) if bool(a["late"]) == late]
        if not anns or ctx is None:
            return
        found = None
        for a in anns:
            target = None
            if kind == "init":
                kw = ctx
                via = a["via"]
                if via == "parent":
                    target = kw.get("parent")
                elif via == "target":
                    target = kw.get("target")
                elif isinstance(via, list) and isinstance(kw.get("more"), list) and via[1] < len(kw["more"]):
                    target = kw["more"][via[1]]
            else:
                if found is None:
                    found = self.reachable(ctx)
                target = found.get(a["to"])
            applied = False
            if target is not None:
                try:
                    if a["op"] == "set":
                        setattr(target, a["name"], a["val"])
                    else:
                        delattr(target, a["name"])
                    applied = True
                except Exception:
                    applied = False  # e.g. __slots__ / frozen object whose class is not instrumented any more
            self.anns.append([ev, a["to"], a["name"], a["op"], applied, a["val"]])

    def on_conv(self, text):
        ent = self.labtab.get(int(text))
        if ent is not None:
            self.run_hook("conv", ent[0], ent[1]["h"])
            if ent[0].get("immut"):
                # the value is the model of this load
                return conv_value(ent[0].get("convty", "int"), int(text))
        return int(text)

    def on_resolve(self, obj, attr, ref):
        """-> (handled, result)"""
        from textx.scoping import Postponed

        ent = self.labtab.get(int(obj.name[1:]))
        if ent is None:
            return False, None
        node, o = ent
        if attr.name == "target":
            h = o["res"][0]
        else:
            pos = self.more_pos.setdefault(o["lab"], [])
            if ref.position not in pos:
                pos.append(ref.position)
            h = o["res"][1 + pos.index(ref.position)]
        if h["lab"] not in self.res_seen:
            self.res_seen.add(h["lab"])
            self.run_hook("resolve", node, h, obj)
        if h["raises"] == "postponed":
            return True, Postponed()
        if h["raises"] == "unknown":
            return True, None
        return False, None

    def lookup_obj(self, name):
        """(node, object spec) for an object identified by its name / tag"""
        try:
            return self.labtab.get(int(name[1:]))
        except (TypeError, ValueError):
            return None

    def on_init(self, obj, kw):
        rule = type(obj).__name__
        raw = [(k, rawval(v)) for k, v in kw.items()]
        ent = self.lookup_obj(kw.get("tag") if rule == "Import" else kw.get("name"))
        self.idmap[id(obj)] = ["obj", rule, ent[1]["lab"] if ent else -1]
        if ent is None:
            self.inits.append([-1, -1, rule, raw])
            self.init_ev.append(len(self.events))
            return
        node, o = ent
        self.inits.append([node["pid"], o["lab"], rule, raw])
        self.init_ev.append(len(self.events))
        self.run_hook("init", node, o["init"], kw)

    def on_oproc(self, obj, rule):
        ent = self.lookup_obj(_attr(obj, "tag") if rule == "Import" else _attr(obj, "name"))
        if ent is not None:
            self.run_hook("oproc", ent[0], ent[1]["oproc"])
        return None

    def on_mproc(self, model, mm):
        if not is_tx_obj(model):
            # a match-rule value: the model of the load in progress (such a model is never imported)
            node = self.load_stack[-1]
            if node.get("immut"):
                self.run_hook("mproc", node, node["mproc"], None)
            return
        ent = self.labtab.get(int(model.name[1:]))
        if ent is not None:
            self.run_hook("mproc", ent[0], ent[0]["mproc"], model)

    # -- loads ----------------------------------------------------------------
    def run_load(self, node, mm=None):
        mm = mm or self.mms[node["mm"]]
        cb = None
        if node.get("pre") is not None:
            def cb(model, node=node):
                self.run_hook("pre", node, node["pre"], model if is_tx_obj(model) else None)
        with open(self.path(node)) as f:
            text = f.read()
        self.mm_stack.append(mm)
        self.load_stack.append(node)
        try:
            model = mm.model_from_str(text, file_name=self.path(node), pre_ref_resolution_callback=cb)
        finally:
            self.mm_stack.pop()
            self.load_stack.pop()
        self.keep.append(model)
        self.map_ids(model)
        return model

    def map_ids(self, model):
        """id -> ["obj", rule, label] for every object of a loaded model (and the models it imports)"""
        models = [model]
        if hasattr(model, "_tx_model_repository"):
            models += [m for m in model._tx_model_repository.all_models if m is not model]
        for m in models:
            if not is_tx_obj(m):
                continue
            stack = [m]
            while stack:
                o = stack.pop()
                rule = type(o).__name__
                ent = self.lookup_obj(_attr(o, "tag") if rule == "Import" else _attr(o, "name"))
                self.idmap[id(o)] = ["obj", rule, ent[1]["lab"] if ent else -1]
                for a in ("imports", "elems"):
                    v = _attr(o, a)
                    if isinstance(v, list):
                        stack.extend(v)

    def attempt(self, node, mm=None):
        """run one top-level load; -> (ok, exception class name, model or None)"""
        try:
            with contextlib.redirect_stdout(io.StringIO()), contextlib.redirect_stderr(io.StringIO()):
                m = self.run_load(node, mm)
            return True, None, m
        except RecursionError:
            return False, "RecursionError", None
        except (Exception, *SCRIPTED_BASE) as e:
            # the embedding application catches the failure (also one that is not an Exception) and drops it
            return False, type(e).__name__, None

    def named_inits(self, inits):
        out = []
        for pid, lab, rule, raw in inits:
            out.append([pid, lab, rule, [[k, self.nameval(v)] for k, v in raw]])
        return out

    def nameval(self, v):
        if v[0] == "id":
            return self.idmap.get(v[1], ["obj", "?", -1])
        if v[0] == "list":
            return ["list"] + [self.nameval(x) for x in v[1:]]
        return v

    def census(self):
        """live instances of the metamodels' classes (user and generated)"""
        clss = set()
        for mm in self.mms:
            for r in RULES:
                with contextlib.suppress(Exception):
                    clss.add(mm[r])
        names = {}
        for o in gc.get_objects():
            if type(o) in clss:
                names[type(o).__name__] = names.get(type(o).__name__, 0) + 1
        return names


def _attr(o, a):
    if o is None:
        return None
    try:
        return getattr(o, a)
    except Exception:
        return None


def rawval(v):
    if isinstance(v, list):
        return ["list"] + [rawval(x) for x in v]
    if v is None or isinstance(v, (bool, int, float, str)):
        return [type(v).__name__, v]
    return ["id", id(v)]


def repaired(node):
    """the same load tree without faults and nested loads (C15 probe)"""
    def fix_hook(h):
        return None if h is None else {"lab": h["lab"], "acts": [], "raises": None}

    def fix_obj(o):
        o = dict(o)
        for k in ("init", "oproc", "conv"):
            if o.get(k) is not None:
                o[k] = fix_hook(o[k])
        if "res" in o:
            o["res"] = [fix_hook(h) for h in o["res"]]
        if "kids" in o:
            o["kids"] = [fix_obj(k) for k in o["kids"]]
        return o

    n = dict(node)
    n["syntax_ok"] = True
    for k in ("pre", "mproc", "init", "oproc", "conv"):
        if n.get(k) is not None:
            n[k] = fix_hook(n[k])
    if "imp_objs" in n:
        n["imp_objs"] = [fix_obj(i) for i in n["imp_objs"]]
        n["objs"] = [fix_obj(o) for o in n["objs"]]
    n["imports"] = [repaired(c) for c in n["imports"]]
    return n


_FROZEN = [False]


def run_case(case, probe=True):
    """Execute the case on the real textX."""
    use_repo()
    tmp = tempfile.mkdtemp(prefix="verif-c14-")
    if not _FROZEN[0]:
        # everything that exists before the first case (the case list of the whole run in a forked
        # worker) is of no interest to the collector passes / the census below
        _FROZEN[0] = True
        import textx  # noqa: F401

        gc.collect()
        gc.freeze()
    gc.collect()
    try:
        r = Runner(case, tmp)
        before = [class_snapshot(c) for c in r.classes]
        main = case["loads"][0]
        ok, exc, model = r.attempt(main)
        model = None
        obs = {
            "ok": ok,
            "exc": exc,
            "events": r.events,
            "inits": r.named_inits(r.inits),
            "init_ev": r.init_ev,
            "anns": r.anns,
            "final": [instr_state(c) for c in r.classes],
            "dict_same": [class_snapshot(c) == b for c, b in zip(r.classes, before)],
            "counters": [dict(c._verif_counters) for c in r.classes],
        }
        # behaviour of the classes after loading: an own __setattr__ is in charge again
        beh = []
        for cid, c in enumerate(r.classes):
            spec = case["classes"][cid]
            if spec["variant"] in ("own_setattr", "own_all", "derived"):
                try:
                    o = c.__new__(c)
                    n0 = c._verif_counters["setattr"]
                    o.__setattr__("name", "x")
                    beh.append(c._verif_counters["setattr"] == n0 + 1)
                    del o
                except Exception as e:
                    beh.append(f"{type(e).__name__}")
            elif spec["variant"] == "own_getattr":
                try:
                    o = c.__new__(c)
                    n0 = c._verif_counters["getattr"]
                    getattr(o, "no_such_attribute", None)
                    beh.append(c._verif_counters["getattr"] == n0 + 1)
                    del o
                except Exception as e:
                    beh.append(f"{type(e).__name__}")
            else:
                beh.append(True)
        obs["behaves"] = beh
        r.keep.clear()
        r.idmap.clear()
        gc.collect()
        obs["live"] = r.census()
        if probe and not ok:
            # subsequent load of the repaired tree: same metamodel vs a fresh one
            rep = repaired(main)
            r.index(rep)
            views = []
            for fresh in (False, True):
                r.events, r.inits, r.init_ev, r.anns = [], [], [], []
                r.res_seen, r.more_pos = set(), {}
                mm = r.make_mm(main["mm"], fresh_classes=True) if fresh else None
                ok2, exc2, m2 = r.attempt(rep, mm)
                from harness.txutil import dump_model

                dump = None
                if ok2:
                    try:
                        dump = dump_model(m2)
                    except Exception as e:
                        dump = f"dump failed: {type(e).__name__}"
                views.append({"ok": ok2, "exc": exc2, "events": r.events, "inits": r.named_inits(r.inits), "dump": dump})
                m2 = None
                r.keep.clear()
                r.idmap.clear()
            obs["probe_same"] = views[0] == views[1]
            # the later attempt with the same metamodel, for the correspondence with the model's history (`runNext`)
            obs["probe_run"] = {"ok": views[0]["ok"], "events": views[0]["events"]}
            if not obs["probe_same"]:
                obs["probe"] = views
            obs["probe_ok"] = views[1]["ok"]
        return obs
    finally:
        shutil.rmtree(tmp, ignore_errors=True)


# --------------------------------------------------------------------------
# generation
# --------------------------------------------------------------------------
FAULTS = [
    ("none", None), ("syntax", "main"), ("syntax", "import"), ("conv", "exc"), ("pre", "exc"),
    ("resolve", "unknown"), ("resolve", "exc"), ("resolve", "postponed"), ("init", "exc"), ("init", "type"),
    ("oproc", "exc"), ("mproc", "main"), ("mproc", "import"), ("act", "propagate"),
]
ROOT_VARIANTS = ["plain", "own_setattr", "own_getattribute", "own_all", "derived", "own_getattr"]


class Gen:
    def __init__(self, rng):
        self.rng = rng
        self.lab = 0
        self.pid = 0

    def newlab(self):
        self.lab += 1
        return self.lab

    def newpid(self):
        self.pid += 1
        return self.pid

    def obj(self, k, **kw):
        lab = self.newlab()
        d = dict(k=k, lab=lab, init=hook(lab), oproc=hook(lab))
        d.update(kw)
        return d

    def objs(self, depth, budget):
        rng = self.rng
        out = []
        n = rng.randint(0, 3) if depth else rng.randint(0, 4)
        for _ in range(n):
            if budget[0] <= 0:
                break
            budget[0] -= 1
            k = rng.weighted([("item", 5), ("box", 2 if depth < 2 else 0), ("refslot", 3)])
            if k == "item":
                o = self.obj("item")
                if rng.chance(0.5):
                    o["conv"] = hook(self.newlab())
                out.append(o)
            elif k == "box":
                o = self.obj("box")
                o["kids"] = self.objs(depth + 1, budget)
                out.append(o)
            else:
                out.append({"k": "refslot"})
        return out

    def tree(self, mm, nfiles, depth=0, main=True):
        rng = self.rng
        lab = self.newlab()
        node = dict(pid=self.newpid(), mm=mm, lab=lab, syntax_ok=True, immut=False, init=hook(lab), oproc=hook(lab),
                    mproc=hook(lab), pre=None, objs=self.objs(0, [rng.randint(1, 7)]), imports=[], imp_objs=[])
        if main and rng.chance(0.6):
            node["pre"] = hook(self.newlab())
        nfiles[0] -= 1
        while nfiles[0] > 0 and depth < 3 and rng.chance(0.75 if depth == 0 else 0.45):
            child = self.tree(mm, nfiles, depth + 1, main=False)
            node["imports"].append(child)
            node["imp_objs"].append(self.obj("import", to=child["pid"]))
        return node

    def finish_tree(self, root):
        """back imports (already loaded files: cached) and references"""
        rng = self.rng
        seen = []
        for n in walk_nodes(root):
            seen.append(n["pid"])
            if rng.chance(0.2):
                n["imp_objs"].append(self.obj("import", to=rng.choice(seen), back=True))
        for n in walk_nodes(root):
            cands = [o["lab"] for o in walk_objs(n["objs"]) if o["k"] == "item"]
            for c in n["imports"]:
                cands += [o["lab"] for o in walk_objs(c["objs"]) if o["k"] == "item"]

            def fill(objs):
                out = []
                for o in objs:
                    if o["k"] == "refslot":
                        if not cands:
                            continue
                        o = self.obj("ref", target=rng.choice(cands),
                                     more=[rng.choice(cands) for _ in range(rng.weighted([(0, 5), (1, 2), (2, 1)]))])
                        o["res"] = [hook(self.newlab()) for _ in range(1 + len(o["more"]))]
                    elif o["k"] == "box":
                        o["kids"] = fill(o["kids"])
                    out.append(o)
                return out

            n["objs"] = fill(n["objs"])
        return root

    def hooks_of_tree(self, case, root, kinds=None):
        """(kind, node, hook) of every hook of the tree that is actually called on a clean load"""
        out = []
        for n in walk_nodes(root):
            for kind, h in all_hooks(n):
                if kinds and kind not in kinds:
                    continue
                ent = None
                if kind in ("init", "oproc") and not n.get("immut"):
                    # which object?
                    objs = [dict(k="model", lab=n["lab"])] + root_children(n)
                    objs += [o for o in walk_objs(n["objs"]) if o not in objs]
                    o = next((x for x in objs if x["lab"] == h["lab"]), None)
                    if o is None:
                        continue
                    if kind == "init" and node_class(case, n, rule_of(o)) is None:
                        continue
                    if kind == "oproc" and not has_oproc(case, n, rule_of(o)):
                        continue
                out.append((kind, n, h))
        return out

    def place_fault(self, case, root, fault):
        """-> True when the fault could be placed"""
        rng = self.rng
        kind, how = fault
        nodes = list(walk_nodes(root))
        if kind == "none":
            return True
        if kind == "syntax":
            cands = nodes[:1] if how == "main" else nodes[1:]
            if not cands:
                return False
            rng.choice(cands)["syntax_ok"] = False
            return True
        if kind == "mproc":
            cands = nodes[:1] if how == "main" else nodes[1:]
            if not cands:
                return False
            rng.choice(cands)["mproc"]["raises"] = "exc"
            return True
        if kind == "act":
            return True  # handled by add_acts(force_fail=True)
        hs = self.hooks_of_tree(case, root, kinds=(kind,))
        if not hs:
            return False
        _, n, h = rng.choice(hs)
        h["raises"] = how
        return True

    def classes_for(self, case, off=False):
        """a new metamodel with a random set of user classes"""
        rng = self.rng
        cids = []
        if not off:
            rules = [r for r in RULES if rng.chance(0.55)] or [rng.choice(RULES)]
            for r in rules:
                v = rng.choice(ROOT_VARIANTS if r == "Model" else VARIANTS)
                case["classes"].append({"rule": r, "variant": v})
                cids.append(len(case["classes"]) - 1)
        case["mms"].append({"classes": cids})
        if rng.chance(0.2):
            case["mms"][-1]["noprocs"] = True  # no object processors (only the match-rule processor of Val)
        return len(case["mms"]) - 1

    def add_acts(self, case, root, level, force_fail=False):
        rng = self.rng
        hs = self.hooks_of_tree(case, root)
        if not hs:
            return
        n_acts = rng.randint(1, 2)
        for j in range(n_acts):
            _, n, h = rng.choice(hs)
            mm = n["mm"] if rng.chance(0.65) or len(case["mms"]) < 2 else 1
            if case["mms"][mm].get("immut") or case["mms"][mm].get("grepo"):
                mm = n["mm"]
            sub = self.finish_tree(self.tree(mm, [1 if case["mms"][mm].get("immut") else rng.randint(1, 2)]))
            fail = rng.chance(0.5) or (force_fail and j == 0)
            if fail:
                f = rng.choice([f for f in FAULTS if f[0] not in ("none", "act")])
                if not self.place_fault(case, sub, f):
                    sub["syntax_ok"] = False
            case["loads"].append(sub)
            idx = len(case["loads"]) - 1
            swallow = False if (force_fail and j == 0) else rng.chance(0.6)
            h["acts"].append([idx, swallow])
            if level < 2 and rng.chance(0.25):
                self.add_acts(case, sub, level + 1)


def ann_sites(case, root):
    """(kind, node, hook, reach) for every hook of a load tree whose user code gets hold of objects with a
    postponed constructor; reach = [(label, rule, via)]: what it can annotate (via: how a constructor
    finds the object among its arguments)"""
    sites = []
    nodes = [n for n in walk_nodes(root) if not n.get("immut")]
    everything = [(lab, rule, None) for n in nodes for lab, rule, _ in node_objs(n)]
    for n in nodes:
        own = [(lab, rule, None) for lab, rule, _ in node_objs(n)]
        if n.get("pre") is not None:
            sites.append(("pre", n, n["pre"], own))  # imports are not loaded yet
        if n is not root:
            # model processor of an imported file: runs before the constructors of its objects
            sites.append(("mproc", n, n["mproc"], [(lab, rule, None) for x in walk_nodes(n) for lab, rule, _ in node_objs(x)]))
        parent_of = {lab: par for lab, rule, par in node_objs(n)}
        rule_by = {lab: rule for lab, rule, _ in everything}
        specs = {o["lab"]: o for o in root_children(n)}
        specs.update({o["lab"]: o for o in walk_objs(n["objs"])})
        for lab, o in specs.items():
            if o["k"] == "ref":
                # the referring object, its containers, the items it refers to first; then anything loaded
                near = [lab, o["target"], *o["more"]]
                p = parent_of.get(lab)
                while p is not None:
                    near.append(p)
                    p = parent_of.get(p)
                pref = [(x, rule_by[x], None) for x in near if x in rule_by]
                for h in o["res"]:
                    sites.append(("resolve", n, h, pref + pref + everything))
            if node_class(case, n, rule_of(o)) is not None:
                reach = [(parent_of[lab], rule_by[parent_of[lab]], "parent")]
                if o["k"] == "ref":
                    reach.append((o["target"], "Item", "target"))
                    reach += [(t, "Item", ["more", i]) for i, t in enumerate(o["more"])]
                sites.append(("init", n, o["init"], reach))
    return sites


def add_anns(case, rng):
    """annotations of objects under construction, for every load tree of the case"""
    serial = [9000]
    for li, root in enumerate(case["loads"]):
        if root.get("immut") or not rng.chance(0.6 if li == 0 else 0.4):
            continue
        sites = [s for s in ann_sites(case, root) if s[3]]
        if not sites:
            continue
        node_of = {lab: n for n in walk_nodes(root) for lab, _, _ in node_objs(n)}
        for _ in range(rng.randint(1, 4)):
            kind, n, h, reach = rng.choice(sites)
            user = [r for r in reach if node_class(case, node_of[r[0]], r[1]) is not None]
            to, rule, via = rng.choice(user if user and rng.chance(0.75) else reach)
            own = RULE_ATTRS[rule]
            # `parent` on a root object (it has none of its own).  textX navigates by that name (get_model), so
            # user code can only do this where textX has no more use for it (loading imports, resolving references
            # of this or of an importing file, locating objects for their processors): in a metamodel without
            # object processors, from a constructor (a child stores on its container, the root)
            root_parent = rule == "Model" and kind == "init" and case["mms"][node_of[to]["mm"]].get("noprocs")
            what = rng.weighted([("extra", 11), ("foreign", 5), ("own", 9 if rule == "Item" and kind != "init" else 0),
                                 ("parent", 40 if root_parent else 0)])
            if what == "parent":
                name = "parent"
            elif what == "extra":
                name = rng.choice(EXTRA_NAMES)
            elif what == "foreign":
                name = rng.choice([x for x in FOREIGN_NAMES if x not in own])
            else:
                name = "val"  # a grammar attribute of the object itself: the constructor gets the new value
            serial[0] += 1
            h["ann"].append({"to": to, "name": name, "op": "set", "via": via, "late": rng.chance(0.3), "val": serial[0]})
            if what != "own" and rng.chance(0.2):
                # ... and deleted again: by the same user code or by another call that reaches the object
                others = [(s, r) for s in sites for r in s[3] if r[0] == to]
                (k2, n2, h2, _), (_, _, via2) = rng.choice(others) if rng.chance(0.5) else ((kind, n, h, reach), (to, rule, via))
                h2["ann"].append({"to": to, "name": name, "op": "del", "via": via2, "late": rng.chance(0.5), "val": 0})


def gen_case(rng, fault_index=None, multi=None, exc_index=None):
    """One case: load trees, faults, nested loads (`gen_case0`), then the annotations (separate random
    stream: the trees of a seed do not depend on them)."""
    case = gen_case0(rng, fault_index, multi)
    add_anns(case, rng.fork("ann"))
    add_traits(case, rng.fork("traits"))
    set_exc_kinds(case, rng.fork("exc-kind"), exc_index)
    return case


def add_traits(case, rng):
    """Special methods of the user classes textX's own code may trip over (truthiness, equality / hashability) and the
    python type of an immutable model; separate random stream, assigned after everything else."""
    for c in case["classes"]:
        if rng.chance(0.3):
            c["falsy"] = rng.choice(FALSY)
        if rng.chance(0.15):
            c["eq"] = rng.choice(EQS)
    for n0 in case["loads"]:
        if n0.get("immut"):
            n0["convty"] = rng.choice(CONV_TYPES)


def set_exc_kinds(case, rng, exc_index=None):
    """The class of the exception a failing hook raises (separate random stream, after everything else: trees, faults
    and annotations of a seed do not depend on it).  Every hook scripted to raise an ordinary exception -- the fault of
    the main tree at any failure point and the faults of nested loads -- may raise textX's own semantic error or a
    failure that is not an `Exception` (EXC_KINDS) instead.  `exc_index` fixes the class for the main tree (C15 cycles
    EXC_CYCLE per round of the fault table: every failure point x every class); nested loads draw their own."""
    for li, root in enumerate(case["loads"]):
        for n in walk_nodes(root):
            for _, h in all_hooks(n):
                if h["raises"] != "exc":
                    continue
                designated = li == 0 or (li == 1 and case.get("fault", [None])[0] == "act")
                if designated and exc_index is not None:
                    h["raises"] = EXC_CYCLE[exc_index % len(EXC_CYCLE)]
                elif rng.chance(0.45):
                    h["raises"] = rng.choice(EXC_KINDS[1:])
                if designated:
                    case["exc_kind"] = h["raises"]


def gen_case0(rng, fault_index=None, multi=None):
    """One case.  `fault_index` cycles through FAULTS for complete coverage of the fault table."""
    g = Gen(rng)
    case = {"classes": [], "mms": [], "loads": []}
    fault = FAULTS[fault_index % len(FAULTS)] if fault_index is not None else rng.choice(FAULTS)
    special = rng.weighted([("normal", 84), ("immut", 6), ("grepo", 10)])
    g.classes_for(case, off=rng.chance(0.1))
    if rng.chance(0.5):
        g.classes_for(case)
    if special == "immut":
        case["mms"][0]["immut"] = True
        lab = g.newlab()
        node = dict(pid=g.newpid(), mm=0, lab=lab, syntax_ok=True, immut=True, conv=hook(lab), mproc=hook(g.newlab()),
                    pre=hook(g.newlab()) if rng.chance(0.6) else None, imports=[], imp_objs=[], objs=[])
        case["loads"].append(node)
        if fault[0] in ("conv", "pre", "mproc", "act"):
            if fault[0] == "act":
                pass
            elif not (fault == ("mproc", "import")) and not g.place_fault(case, node, fault):
                pass
        elif fault[0] == "syntax":
            node["syntax_ok"] = False
        if rng.chance(0.3) or fault[0] == "act":
            g.add_acts(case, node, 1, force_fail=(fault[0] == "act"))
        case["fault"] = list(fault)
        return case
    if multi is None:
        multi = rng.chance(0.65)
    nfiles = [rng.randint(2, 5) if multi else 1]
    root = g.finish_tree(g.tree(0, nfiles))
    case["loads"].append(root)
    if not g.place_fault(case, root, fault):
        fault = ("none", None)
    if special == "grepo":
        case["mms"][0]["grepo"] = True
    elif rng.chance(0.4) or fault[0] == "act":
        g.add_acts(case, root, 1, force_fail=(fault[0] == "act"))
    case["fault"] = list(fault)
    return case


# --------------------------------------------------------------------------
# shrinking
# --------------------------------------------------------------------------
def shrink_case(case):
    """smaller variants of a case (still well-formed)"""
    import copy

    def variants():
        # drop nested loads of one hook
        for li, n0 in enumerate(case["loads"]):
            for n in walk_nodes(n0):
                for kind, h in all_hooks(n):
                    if h["acts"]:
                        yield ("acts", h["lab"])
                    for ai in range(len(h.get("ann", ()))):
                        yield ("ann", h["lab"], kind, ai)
        # drop an import subtree nobody refers to, an object nobody refers to
        for li, n0 in enumerate(case["loads"]):
            for n in walk_nodes(n0):
                for c in n["imports"]:
                    yield ("import", n["pid"], c["pid"])
                for o in walk_objs(n["objs"]):
                    yield ("obj", n["pid"], o["lab"])
        for cid, c in enumerate(case["classes"]):
            if c["variant"] != "plain":
                yield ("plain", cid)
            for t in ("falsy", "eq"):
                if c.get(t):
                    yield ("notrait", cid, t)
        for li, n0 in enumerate(case["loads"]):
            if n0.get("immut") and n0.get("convty", "int") != "int":
                yield ("convint", li)
        for mi, mm in enumerate(case["mms"]):
            for cid in mm["classes"]:
                yield ("nocls", mi, cid)

    def referenced(c2):
        refs = set()
        for n0 in c2["loads"]:
            for n in walk_nodes(n0):
                for o in walk_objs(n["objs"]):
                    if o["k"] == "ref":
                        refs.add(o["target"])
                        refs.update(o["more"])
        return refs

    for v in variants():
        c2 = copy.deepcopy(case)
        ok = False
        if v[0] == "acts":
            for n0 in c2["loads"]:
                for n in walk_nodes(n0):
                    for kind, h in all_hooks(n):
                        if h["lab"] == v[1] and h["acts"]:
                            h["acts"] = []
                            ok = True
        elif v[0] == "ann":
            for n0 in c2["loads"]:
                for n in walk_nodes(n0):
                    for kind, h in all_hooks(n):
                        if h["lab"] == v[1] and kind == v[2] and len(h.get("ann", ())) > v[3] and not ok:
                            del h["ann"][v[3]]
                            ok = True
        elif v[0] == "import":
            refs = referenced(c2)
            for n0 in c2["loads"]:
                for n in walk_nodes(n0):
                    if n["pid"] != v[1]:
                        continue
                    child = next(c for c in n["imports"] if c["pid"] == v[2])
                    gone = {x["pid"] for x in walk_nodes(child)}
                    labs = {o["lab"] for x in walk_nodes(child) for o in walk_objs(x["objs"])}
                    if labs & refs:
                        continue
                    back = [i for y in walk_nodes(n0) if y["pid"] not in gone for i in y["imp_objs"]
                            if i.get("back") and i["to"] in gone]
                    if back:
                        continue
                    n["imports"] = [c for c in n["imports"] if c["pid"] != v[2]]
                    n["imp_objs"] = [i for i in n["imp_objs"] if i["to"] != v[2] or i.get("back")]
                    ok = True
        elif v[0] == "obj":
            refs = referenced(c2)
            if v[2] in refs:
                continue
            for n0 in c2["loads"]:
                for n in walk_nodes(n0):
                    if n["pid"] != v[1]:
                        continue

                    def drop(objs):
                        out = []
                        for o in objs:
                            if o["lab"] == v[2]:
                                if o["k"] == "box" and o["kids"]:
                                    out.append(o)
                                    continue
                                nonlocal_ok[0] = True
                                continue
                            if o["k"] == "box":
                                o["kids"] = drop(o["kids"])
                            out.append(o)
                        return out

                    nonlocal_ok = [False]
                    n["objs"] = drop(n["objs"])
                    ok = ok or nonlocal_ok[0]
        elif v[0] == "plain":
            c2["classes"][v[1]]["variant"] = "plain"
            ok = True
        elif v[0] == "notrait":
            del c2["classes"][v[1]][v[2]]
            ok = True
        elif v[0] == "convint":
            c2["loads"][v[1]]["convty"] = "int"
            ok = True
        elif v[0] == "nocls":
            c2["mms"][v[1]]["classes"] = [c for c in c2["mms"][v[1]]["classes"] if c != v[2]]
            ok = True
        if ok:
            yield c2
