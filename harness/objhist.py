"""Sessions: several meta-models and models in one process (C05).

The navigation API reads its meta data from the *class objects* of the model elements at the time of
the call, and class objects are process state that outlives a meta-model: a user class can be handed
to any number of meta-models one after the other (two versions / dialects of a language served by the
same Python classes), each of which sets it up for its own grammar; several models of one meta-model
share all classes; classes generated for different meta-models share their names.  A case of the C05
check is therefore a *session*:

    case = {"gram", "tree", "layout", "file", "queries",        the last step (as before)
            "history": [step…],                                  earlier steps, oldest first
            "provider": bool,                                    classes=callable instead of a list
            "reuse": bool}                                       the last step uses the previous step's meta-model
    step = {"gram": grammar | None (= the grammar of the last step), "tree", "queries",
            "share":  user classes from the pool shared by the whole session (True) or made for this
                      step alone (False: same names, other objects),
            "reuse":  no new meta-model, the object of the previous step is used (same grammar only),
            "defer":  the navigation calls of this step are made at the end of the session
                      (an older model navigated after newer ones were loaded),
            "drop":   model (and meta-model, unless the next step re-uses it) are released after the
                      step's calls and the garbage collected (ids of dead objects get re-used)}

Every step is observed and judged like a single-model case.  `defer` is honoured only when no later
step sets a class of this step up for another grammar (a class object describes one grammar at a
time: see notes/C05.md, interpretation decisions).

Grammars of earlier steps: variants of the last grammar (containment attribute added / removed,
containment turned into a reference and back, multiplicity changed, attributes reordered, the rule a
containment attribute holds changed (same name and multiplicity), a rule contained nowhere (only referenced),
a multi-typed attribute with one type —
preferably in the rules served by user classes), independent grammars over the same rule names, or the same grammar.
"""
import copy as _copy
import gc
import json
import re as _re
import weakref

from harness import objgen as G
from harness.core import use_repo

PLAIN = {"lead": None, "trail": None, "seps": []}


# --------------------------------------------------------------------------
# process state
# --------------------------------------------------------------------------
_PRISTINE = None
_PLAINT = (int, bool, str, float, type(None), tuple, frozenset, bytes)


def _state_cells():
    """(owner, owner name, attribute, value) for every module-level and class-level attribute of the textX and
    Arpeggio modules that holds plain data (dict / list / set, numbers, strings, tuples, None) or a functools cache"""
    import sys as _sys

    out = []
    for mname, mod in sorted(_sys.modules.items()):
        if mod is None or not (mname == "textx" or mname.startswith("textx.") or mname == "arpeggio"
                               or mname.startswith("arpeggio.")):
            continue
        for k, v in list(vars(mod).items()):
            if k.startswith("__"):
                continue
            if type(v) in (dict, list, set) or type(v) in _PLAINT or (
                    hasattr(v, "cache_clear") and getattr(v, "__module__", None) == mname):
                out.append((mod, mname, k, v))
            elif isinstance(v, type) and getattr(v, "__module__", None) == mname:
                for ck, cv in list(vars(v).items()):
                    if not ck.startswith("__") and (type(cv) in (dict, list, set) or type(cv) in _PLAINT):
                        out.append((v, f"{mname}.{v.__name__}", ck, cv))
    return out


def reset_process_state():
    """Bring module-level / class-level plain state of the textX and Arpeggio modules (and functools caches, the
    regex cache) back to what it was when the code under test had just been imported (same technique as the C20
    check).  A session is then observed after exactly the history it lists itself: what earlier cases of the same
    worker process left behind neither masks nor fakes a failure, and a replay (fresh process) sees what the run saw."""
    global _PRISTINE
    use_repo()
    import arpeggio  # noqa: F401
    import textx  # noqa: F401
    import textx.lang  # noqa: F401
    import textx.metamodel  # noqa: F401
    import textx.model  # noqa: F401
    import textx.scoping  # noqa: F401
    import textx.scoping.providers  # noqa: F401
    import textx.scoping.tools  # noqa: F401

    _re.purge()
    cells = _state_cells()
    if _PRISTINE is None:
        _PRISTINE = {}
        for owner, oname, k, v in cells:
            if not hasattr(v, "cache_clear"):
                _PRISTINE[(oname, k)] = (v, _copy.copy(v))
        return
    for owner, oname, k, v in cells:
        if hasattr(v, "cache_clear"):
            v.cache_clear()
            continue
        ref = _PRISTINE.get((oname, k))
        if ref is None:
            continue
        saved = ref[1]
        if type(saved) in _PLAINT:
            if type(v) is not type(saved) or v != saved:
                setattr(owner, k, saved)
            continue
        if ref[0] is not v or v == saved:
            continue
        if type(v) is list:
            v[:] = saved
        else:
            v.clear()
            v.update(saved)


# --------------------------------------------------------------------------
# steps of a case
# --------------------------------------------------------------------------
def steps_of(case):
    """the steps of the session in order (history, then the case's own grammar / model), normalised"""
    out = []
    for h in case.get("history") or []:
        out.append({"gram": h.get("gram") or case["gram"], "tree": h["tree"], "layout": PLAIN, "file": False,
                    "queries": h.get("queries") or [], "share": bool(h.get("share", True)),
                    "reuse": bool(h.get("reuse")), "defer": bool(h.get("defer")), "drop": bool(h.get("drop"))})
    out.append({"gram": case["gram"], "tree": case["tree"], "layout": case["layout"], "file": bool(case.get("file")),
                "queries": case["queries"], "share": bool(case.get("share", True)), "reuse": bool(case.get("reuse")),
                "defer": False, "drop": False})
    for k, st in enumerate(out):
        prev = out[k - 1] if k else None
        st["reuse"] = bool(st["reuse"] and prev is not None and prev["gram"] == st["gram"])
        if st["reuse"]:
            st["share"] = prev["share"]
    for k, st in enumerate(out):
        if st["drop"]:
            st["defer"] = False
        if not st["defer"]:
            continue
        ok = k < len(out) - 1
        for lt in out[k + 1:]:
            if lt["reuse"] or lt["gram"] == st["gram"] or not lt["share"] or not st["share"]:
                continue
            ok = False
        st["defer"] = ok
    return out


def class_spec(steps):
    """rule name -> (flavour, traits, base) of the user class serving it (first mention wins)"""
    spec = {}
    for st in steps:
        for r in st["gram"]["rules"]:
            if r.get("user") and r["name"] not in spec:
                spec[r["name"]] = (r["user"], tuple(r.get("traits") or ()), r.get("base"))
    return spec


class ClassPool:
    """user classes by rule name, made on demand; each with the cell that tells its special methods
    which attributes are the list-valued containment attributes of the grammar it currently serves"""

    def __init__(self, spec):
        self.spec = spec
        self.classes = {}
        self.cells = {}

    def get(self, name, _seen=()):
        if name in self.classes:
            return self.classes[name]
        flavour, traits, base = self.spec[name]
        bases = ()
        if base and base in self.spec and base not in _seen and base != name:
            bases = (self.get(base, _seen + (name,)),)
        cell = []
        cls = G.make_user_class(name, flavour, traits, bases=bases, cell=cell)
        self.classes[name] = cls
        self.cells[name] = cell
        return cls

    def for_grammar(self, gram):
        out = []
        for r in gram["rules"]:
            if r.get("user") and r["name"] in self.spec:
                cls = self.get(r["name"])
                self.cells[r["name"]][:] = G.list_attrs(r)
                out.append(cls)
        return out


class Session:
    """what the harness records about the process: the class objects seen so far (numbered by
    identity, weakly: a dead class whose id is re-used is another class), attribute names, and the
    history of meta-model constructions as (class object, attribute list) writes"""

    def __init__(self):
        self._ids = weakref.WeakKeyDictionary()
        self._n = 0
        self.attr_ids = {}
        self.attr_names = {}  # class number -> attribute names ever listed for it
        self.hist = []

    def clsid(self, cls):
        try:
            n = self._ids.get(cls)
        except TypeError:
            return -1
        if n is None:
            n = self._ids[cls] = self._n
            self._n += 1
        return n

    def aid(self, name):
        return self.attr_ids.setdefault(name, len(self.attr_ids))

    def record_build(self, mm, gram):
        from textx.const import MULT_ONEORMORE, MULT_ZEROORMORE

        writes = []
        for r in gram["rules"]:
            if r["kind"] == "match":
                continue
            try:
                cls = mm[r["name"]]
            except Exception:
                continue
            attrs = getattr(cls, "_tx_attrs", None)
            if attrs is None:
                continue
            c = self.clsid(cls)
            names = self.attr_names.setdefault(c, [])
            row = []
            for a in attrs.values():
                if a.name not in names:
                    names.append(a.name)
                row.append([self.aid(a.name), a.mult in (MULT_ONEORMORE, MULT_ZEROORMORE), bool(a.cont)])
            writes.append([c, row])
        self.hist.append(writes)

    def dump_obj(self, ro, cname, parent, idx):
        """[class object, class name, parent, instance dictionary] of a model object"""
        c = self.clsid(type(ro))
        d = []
        for name in self.attr_names.get(c, ()):
            try:
                v = getattr(ro, name)
            except AttributeError:
                continue

            def enc(x):
                if x is None:
                    return 0
                if G.is_txobj(x):
                    i = idx.get(id(x))
                    return 1 if i is None else i + 2
                return 1
            if isinstance(v, list):
                d.append([self.aid(name), True, [enc(x) for x in v]])
            else:
                d.append([self.aid(name), False, [enc(v)]])
        return [c, cname, parent, d]


def build_mm(st, pool, provider):
    from textx import metamodel_from_str

    gram = st["gram"]
    classes = pool.for_grammar(gram)
    if provider:
        by_name = {c.__name__: c for c in classes}
        arg = by_name.get
    else:
        arg = classes
    return metamodel_from_str(G.render_grammar(gram), classes=arg, **gram.get("opts", {}))


def load_step(st, mm):
    """like objgen.load, with a given meta-model"""
    import os
    import tempfile

    gram = st["gram"]
    L = G.Loaded()
    L.grammar = G.render_grammar(gram)
    L.file = None
    L.tmp = None
    L.text, L.exp = G.expected(gram, st["tree"], st["layout"], translate=bool(st.get("file")))
    raw, _ = G.expected(gram, st["tree"], st["layout"], translate=False)
    L.mm = mm
    if st.get("file"):
        L.tmp = tempfile.mkdtemp(prefix="verif-obj-")
        L.file = os.path.join(L.tmp, "model.txt")
        try:
            with open(L.file, "wb") as f:
                f.write(raw.encode("utf-8"))
            L.model = mm.model_from_file(L.file)
        except BaseException:
            G.cleanup(L)
            raise
    else:
        L.model = mm.model_from_str(raw)
    return L


def run_session(case, observe):
    """run the steps of `case` against the real code; `observe(step, L, session)` -> observation of one
    loaded model.  Returns the observation of the last step with "steps" (observations of the
    earlier ones) and "hist" (the constructions that took place)."""
    use_repo()
    reset_process_state()
    from textx.exceptions import TextXError

    steps = steps_of(case)
    spec = class_spec(steps)
    shared = ClassPool(spec)
    S = Session()
    results = [None] * len(steps)
    loaded = [None] * len(steps)
    cur = None
    try:
        for k, st in enumerate(steps):
            L = None
            try:
                if st["reuse"] and cur is not None:
                    mm = cur
                else:
                    cur = None
                    pool = shared if st["share"] else ClassPool(spec)
                    mm = build_mm(st, pool, bool(case.get("provider")))
                    S.record_build(mm, st["gram"])
                    cur = mm
                L = load_step(st, mm)
            except TextXError as e:
                results[k] = {"outcome": "error", "type": type(e).__name__, "msg": str(e)[:300]}
            except RecursionError:
                results[k] = {"outcome": "other", "type": "RecursionError", "msg": ""}
            except Exception as e:
                results[k] = {"outcome": "other", "type": type(e).__name__, "msg": str(e)[:300]}
            mm = None
            if L is None:
                continue
            loaded[k] = L
            if st["defer"]:
                continue
            results[k] = observe(st, L, S)
            if st["drop"]:
                G.cleanup(L)
                loaded[k] = None
                L.model = L.mm = None
                L = None
                if not (k + 1 < len(steps) and steps[k + 1]["reuse"]):
                    cur = None
                gc.collect()
        for k, st in enumerate(steps):
            if st["defer"] and loaded[k] is not None:
                results[k] = observe(st, loaded[k], S)
    finally:
        for L in loaded:
            if L is not None:
                G.cleanup(L)
    obs = results[-1]
    obs["steps"] = results[:-1]
    obs["hist"] = S.hist
    return obs


# --------------------------------------------------------------------------
# generation
# --------------------------------------------------------------------------
def _fresh_kw(gram):
    used = set(_re.findall(r"@([a-z][a-z])", json.dumps(gram)))
    kw = G._Kw()
    kw.n = max((G.KW2.index(k) for k in used), default=-1) + 1
    return kw


C2R = {"one": "opt", "opt": "opt", "star": "star", "rep": "star", "plus": "plus", "twice": "plus",
       "starsep": "starsep", "plussep": "plussep"}
CONT_MULTS = [("one", 2), ("opt", 2), ("star", 4), ("plus", 2), ("starsep", 2), ("plussep", 1), ("rep", 1), ("twice", 1)]


def obj_targets(gram):
    commons = [r["name"] for r in gram["rules"] if r["kind"] == "common"]
    abstracts = [r["name"] for r in gram["rules"] if r["kind"] == "abstract"]
    return commons[1:] + abstracts


def mutate_grammar(rng, gram, focus=(), untype=None):
    """a variant of `gram` (another version / dialect of the language): 1-3 changes to the attributes of its
    common rules — preferably of the rules in `focus` — that keep the grammar in the generator's family
    (every attribute element has its own keyword, so any order / multiplicity stays LL(1))"""
    g = _copy.deepcopy(gram)
    kw = _fresh_kw(g)
    commons = [r for r in g["rules"] if r["kind"] == "common"]
    targets = obj_targets(g)
    changed = []
    for k_op in range(rng.weighted([(1, 5), (2, 3), (3, 2)])):
        pref = [r for r in commons if r["name"] in focus]
        r = rng.choice(pref) if pref and rng.chance(0.7) else rng.choice(commons)
        el = r["elems"]
        idxs = [i for i, e in enumerate(el) if e["k"] in ("cont", "mcont", "ref", "prim", "flag") and not e.get("bare")]
        conts = [i for i in idxs if el[i]["k"] == "cont"]
        mconts = [i for i in idxs if el[i]["k"] == "mcont"]
        refs = [i for i in idxs if el[i]["k"] == "ref"]
        lo = 1 + max((i for i, e in enumerate(el) if e["k"] in ("name",) or (e["k"] == "kw" and e["v"] == r["kw"])),
                     default=0)
        hi = len(el) - (1 if el and el[-1].get("bare") and el[-1].get("attr") == "tail" else 0)
        op = rng.weighted([("c2r", 4 if conts else 0), ("r2c", 4 if refs and targets else 0),
                           ("add", 3 if targets else 0), ("drop", 2 if idxs else 0), ("mult", 2 if conts else 0),
                           ("swap", 1 if len(idxs) >= 2 else 0), ("addref", 1 if targets else 0),
                           ("retype", 3 if mconts else 0),
                           ("retarget", 4 if conts and len(targets) > 1 else 0),
                           ("untype", 4 if len(targets) > 1 else 0)])
        if untype is not None and k_op == 0:
            op = "untype"
        if op == "c2r":
            i = rng.choice(conts)
            e = el[i]
            el[i] = {"k": "ref", "attr": e["attr"], "target": e["target"], "mult": C2R[e["mult"]], "kw": e["kw"],
                     "open": e["open"], "close": e["close"], "sep": e["sep"]}
        elif op == "r2c":
            i = rng.choice(refs)
            e = el[i]
            m = rng.choice(["one", "opt"]) if e["mult"] == "opt" else e["mult"]
            el[i] = {"k": "cont", "attr": e["attr"], "target": e["target"], "mult": m, "kw": e["kw"], "kw2": kw.new(),
                     "open": e["open"], "close": e["close"], "sep": e["sep"]}
        elif op in ("add", "addref"):
            br = rng.choice(G.BRACKETS)
            n = 0
            while any(e.get("attr") == f"x{n}" for e in el):
                n += 1
            if op == "add":
                e = {"k": "cont", "attr": f"x{n}", "target": rng.choice(targets), "mult": rng.weighted(CONT_MULTS),
                     "kw": kw.new(), "kw2": kw.new(), "open": br[0], "close": br[1], "sep": rng.choice(G.LISTSEPS)}
            else:
                e = {"k": "ref", "attr": f"x{n}", "target": rng.choice(targets),
                     "mult": rng.weighted([("opt", 3), ("star", 2), ("plus", 1), ("starsep", 1), ("plussep", 2)]),
                     "kw": kw.new(), "open": br[0], "close": br[1], "sep": rng.choice(G.LISTSEPS)}
            el.insert(rng.randint(min(lo, hi), hi), e)
        elif op == "drop":
            del el[rng.choice(idxs)]
        elif op == "mult":
            i = rng.choice(conts)
            el[i] = dict(el[i], mult=rng.choice([m for m, _ in CONT_MULTS if m != el[i]["mult"]]))
        elif op == "untype":
            # a rule that is contained nowhere in the other version of the language (only referenced, or replaced by
            # another rule): every containment attribute of the grammar that holds it is turned into a reference or
            # holds another rule — the classes that can occur below the objects of a class differ between the versions
            used = sorted({e["target"] for r2 in commons for e in r2["elems"] if e["k"] == "cont" and not e.get("bare")}
                          | {a["t"] for r2 in commons for e in r2["elems"] if e["k"] == "mcont" for a in e["alts"]
                             if a["t"] in targets})
            if untype is not None and k_op == 0:
                t = untype
            elif not used:
                continue
            else:
                t = rng.choice(used)

            def holds(x):
                return x == t or (x in targets and t in G.instances_of(g, x))

            others = [x for x in targets if not holds(x)]
            if not others:
                continue
            for r2 in commons:
                for i, e in enumerate(r2["elems"]):
                    if e["k"] == "cont" and holds(e["target"]) and not e.get("bare"):
                        if rng.chance(0.5):
                            r2["elems"][i] = {"k": "ref", "attr": e["attr"], "target": e["target"], "mult": C2R[e["mult"]],
                                              "kw": e["kw"], "open": e["open"], "close": e["close"], "sep": e["sep"]}
                        else:
                            r2["elems"][i] = dict(e, target=rng.choice(others))
                    elif e["k"] == "mcont" and any(holds(a["t"]) for a in e["alts"]):
                        r2["elems"][i] = dict(e, alts=[dict(a, t=rng.choice(others)) if holds(a["t"]) else a
                                                       for a in e["alts"]])
        elif op == "retarget":
            # same attribute, same multiplicity, same place — objects of another rule: the containment lists of the
            # class do not change, what the meta-model says about the *type* of the attribute does
            i = rng.choice(conts)
            el[i] = dict(el[i], target=rng.choice([t for t in targets if t != el[i]["target"]]))
        elif op == "retype":
            # a multi-typed attribute that has one type in the other version of the language (same name)
            i = rng.choice(mconts)
            e = el[i]
            objs = [a for a in e["alts"] if a["t"] in targets] or e["alts"]
            a = rng.choice(objs)
            if a["t"] in targets:
                m = {"choice": "one", "choiceopt": "opt", "choicerep": "rep", "seq": "twice",
                     "lists": "star", "choicelists": "plus"}[e["form"]]
                el[i] = {"k": "cont", "attr": e["attr"], "target": a["t"], "mult": m, "kw": a["kw"], "kw2": kw.new(),
                         "open": a["open"], "close": a["close"], "sep": a.get("sep") or ","}
            else:
                del el[i]
        elif op == "swap":
            i, j = rng.sample(idxs, 2)
            el[i], el[j] = el[j], el[i]
        else:
            continue
        changed.append([r["name"], op])
    G._make_finite(g)
    G._normalize(g)
    return g, changed


def copy_user_spec(src, dst):
    """give the common rules of grammar `dst` the user classes grammar `src` uses for the rules of the same name"""
    R = G.rules_of(src)
    names = {r["name"] for r in dst["rules"] if r["kind"] == "common"}
    for r in dst["rules"]:
        if r["kind"] != "common":
            continue
        s = R.get(r["name"])
        r["user"] = None
        r.pop("traits", None)
        r.pop("base", None)
        if s is not None and s["kind"] == "common" and s.get("user"):
            r["user"] = s["user"]
            if s.get("traits"):
                r["traits"] = list(s["traits"])
            if s.get("base") and s["base"] in names:
                r["base"] = s["base"]


def gen_inheritance(rng, gram, tree):
    """let one user class derive from another one (both serve rules of the grammar; preferably rules with
    instances in the model — a second rule gets a user class for that if need be).  The base must
    not change the truth value of the derived instances (no `falsy` / `len` trait)."""
    present = sorted({n["r"] for n, _, _, _ in G.walk_nodes(gram, tree)})
    R = G.rules_of(gram)
    users = [r for r in gram["rules"] if r.get("user")]
    if len([r for r in users if r["name"] in present]) < 2 and len(present) >= 2 and rng.chance(0.7):
        for name in rng.shuffle(present):
            if not R[name].get("user"):
                R[name]["user"] = rng.choice(["store", "child", "eq"])
                R[name]["traits"] = [] if rng.chance(0.6) else G.gen_traits(rng)
                if len([r for r in gram["rules"] if r.get("user") and r["name"] in present]) >= 2:
                    break
        users = [r for r in gram["rules"] if r.get("user")]
    bases = [r for r in users if not ({"falsy", "len"} & set(r.get("traits") or ()))]
    if len(users) < 2 or not bases:
        return False
    pb = [r for r in bases if r["name"] in present]
    b = rng.choice(pb if pb and rng.chance(0.8) else bases)
    ds = [r for r in users if r is not b]
    pd = [r for r in ds if r["name"] in present]
    d = rng.choice(pd if pd and rng.chance(0.8) else ds)
    if b.get("base") == d["name"]:
        return False
    d["base"] = b["name"]
    return True


def ensure_user(rng, gram, tree):
    """the territory of the shared classes: make sure some rule with instances in the model is
    served by a user class"""
    if any(r.get("user") for r in gram["rules"]):
        return
    present = sorted({n["r"] for n, _, _, _ in G.walk_nodes(gram, tree)})
    R = G.rules_of(gram)
    for name in rng.sample(present, min(len(present), rng.randint(1, 2))):
        R[name]["user"] = rng.choice(["store", "child", "eq"])
        R[name]["traits"] = G.gen_traits(rng)


def gen_history(rng, gram, tree, gen_queries):
    """earlier steps for a case with grammar `gram` and derivation `tree` -> (history, extra case fields)"""
    kind = rng.weighted([("variant", 9), ("independent", 3), ("samegram", 2), ("samemm", 5), ("mixed", 3), ("typed", 3)])
    present = {n["r"] for n, _, _, _ in G.walk_nodes(gram, tree)}
    focus = [r["name"] for r in gram["rules"] if r.get("user") and r["name"] in present] or \
            [r["name"] for r in gram["rules"] if r.get("user")]
    extra = {}
    hist = []

    def step(g, same, **kw):
        t = G.derive(rng, g, maxdepth=rng.randint(1, 3))
        _, exp = G.expected(g, t, PLAIN)
        st = {"gram": None if same else g, "tree": t, "queries": gen_queries(rng, g, exp, small=True),
              "share": True, "reuse": False, "defer": False, "drop": False}
        st.update(kw)
        return st

    def variants(n):
        for _ in range(n):
            g, _ch = mutate_grammar(rng, gram, focus)
            hist.append(step(g, False, share=rng.chance(0.85), drop=rng.chance(0.2)))

    def same_mm(n):
        first = True
        for _ in range(n):
            hist.append(step(gram, True, reuse=not first and rng.chance(0.85), defer=rng.chance(0.5),
                             drop=rng.chance(0.3)))
            first = False
        extra["reuse"] = rng.chance(0.85)

    if kind == "typed":
        # the version of the language in which a rule whose objects sit below an instance of a (shared) user class in
        # this model is contained nowhere: what can occur below the objects of that class differs between the versions
        below = set()
        for n, _, _, _ in G.walk_nodes(gram, tree):
            if n["r"] in focus:
                below |= {m["r"] for m, _, _, _ in G.walk_nodes(gram, n)} - {n["r"]}
        below = sorted(below) or sorted(present - {gram["rules"][0]["name"]})
        if below:
            g, _ch = mutate_grammar(rng, gram, focus, untype=rng.choice(below))
            hist.append(step(g, False, share=rng.chance(0.9), drop=rng.chance(0.2)))
        else:
            variants(1)
    elif kind == "variant":
        variants(rng.weighted([(1, 6), (2, 3), (3, 1)]))
    elif kind == "independent":
        for _ in range(rng.randint(1, 2)):
            g = G.gen_grammar(rng, want_traits=True, p_user=0.0)
            side = type(rng)(f"{rng.s}:multi")
            if side.chance(0.3):
                G.multi_type(side, g)
            copy_user_spec(gram, g)
            hist.append(step(g, False, share=rng.chance(0.6), drop=rng.chance(0.3), defer=rng.chance(0.2)))
    elif kind == "samegram":
        for _ in range(rng.randint(1, 2)):
            hist.append(step(gram, True, share=rng.chance(0.7), defer=rng.chance(0.5), drop=rng.chance(0.2)))
    elif kind == "samemm":
        same_mm(rng.randint(1, 2))
    else:
        variants(rng.randint(1, 2))
        same_mm(1)
    return hist, extra


def shrink_history(case):
    """smaller sessions: a step removed, its calls removed, flags cleared, its derivation shrunk"""
    hist = case.get("history") or []
    for k in range(len(hist)):
        yield dict(case, history=hist[:k] + hist[k + 1:])
    if case.get("provider"):
        yield dict(case, provider=False)
    for k, h in enumerate(hist):
        for small in ([dict(h, queries=[])] if h.get("queries") else []) + \
                     [dict(h, **{f: False}) for f in ("defer", "drop") if h.get(f)]:
            yield dict(case, history=hist[:k] + [small] + hist[k + 1:])
    for k, h in enumerate(hist):
        g = h.get("gram") or case["gram"]
        for t in G.shrink_tree(g, h["tree"]):
            yield dict(case, history=hist[:k] + [dict(h, tree=t)] + hist[k + 1:])
