"""Type-directed generator of textX grammars (as ASTs), their textual rendering,
and input sentences derived from / mutated around them.

Grammar AST (JSON-able):
  {"rules": [{"name", "params": {"skipws"?: bool, "ws"?: str, "wsq"?: '"', "ws_first"?: bool}, "body": E}],
   "comment": regex-source | None}
  E ::= {"k":"str","v":s} | {"k":"re","v":src, "samples"?: [s] (for sources outside RES)} | {"k":"ref","name":R}
      | {"k":"seq","xs":[E]} | {"k":"alt","xs":[E]}
      | {"k":"rep","op":"?"|"*"|"+"|"#","x":E,"sep":E|None,"eol":bool}
      | {"k":"asgn","attr":a,"op":"="|"+="|"*="|"?=","rhs":E,"sep":E|None,"eol":bool}
      | {"k":"pred","neg":bool,"x":E}
  every E may carry "sup": True (the `-` suppression operator).
The first rule is the model's top rule.  Left recursion is never generated;
empty string literals are never generated (an empty literal inside a repetition
makes Arpeggio loop forever).
"""

BASE = ["INT", "ID", "STRING", "BOOL", "FLOAT", "NUMBER"]
# regex pool: (source, sample strings it matches completely)
RES = [
    (r"[a-c]+", ["a", "abc", "cab", "bb"]),
    (r"\d+", ["0", "7", "42", "007"]),
    (r"[xy]", ["x", "y"]),
    (r"x*y", ["y", "xy", "xxy"]),
    (r"q?", ["q", ""]),               # nullable: yields None on an empty match
    (r"[A-Z][a-z]*", ["A", "Bc", "Zed"]),
    (r"\w+\b", ["w1", "foo", "a_b"]),
    (r"(m|n)(o)?", ["m", "no", "mo"]),
]
KEYWORDS = ["a", "b", "c", "if", "end", "x", "kw", "+", ",", ";", "(", ")", "=", "->", "::", "no", "ab"]
COMMENTS = [r"#.*$", r"\/\/.*?$", r"\/\*(.|\n)*?\*\/"]
COMMENT_SAMPLES = {r"#.*$": ["# c\n", "#\n", "#x y\n"], r"\/\/.*?$": ["// c\n", "//\n"],
                   r"\/\*(.|\n)*?\*\/": ["/* c */", "/**/", "/* a\n b */"]}
BASE_SAMPLES = {
    "INT": ["0", "5", "-3", "+12", "42"],
    "ID": ["foo", "x1", "_a", "bar", "a", "b"],
    "STRING": ['"s"', "'t'", '""', '"a b"', "'q\\'r'"],
    "BOOL": ["true", "false", "0", "1", "True"],
    "FLOAT": ["1.5", "2", "-0.5", "1e3", ".5"],
    "NUMBER": ["3", "2.5", "-1", "1e2"],
}


def lit(rng):
    return {"k": "str", "v": rng.choice(KEYWORDS)}


def regex(rng):
    return {"k": "re", "v": rng.choice(RES)[0]}


def simple_match(rng):
    return lit(rng) if rng.chance(0.7) else regex(rng)


class GrammarGen:
    def __init__(self, rng, nrules=None, links=False, modifiers=True, comment_p=0.4, suppress=True,
                 predicates=True, unordered=True, eolterm=True, abstract=True, composite_comment=False,
                 flavours=False):
        self.rng = rng
        self.n = nrules or rng.randint(1, 5)
        self.links = links
        self.modifiers = modifiers
        self.comment_p = comment_p
        self.suppress = suppress
        self.predicates = predicates
        self.unordered = unordered
        self.eolterm = eolterm
        self.abstract = abstract
        self.composite_comment = composite_comment
        # opt-in (off: generation is bit-identical to what it was before the option existed): alternatives that
        # reach the SAME rule at the SAME input position through different kinds of reference (see ref_flavours)
        self.flavours = flavours

    def grammar(self):
        rng = self.rng
        names = ["Model"] + [f"R{i}" for i in range(1, self.n)]
        kinds = {}
        for i, nm in enumerate(names):
            kinds[nm] = rng.weighted([("common", 6), ("match", 3), ("abstract", 2 if self.abstract and i < self.n - 1 else 0)])
        if kinds["Model"] == "match" and rng.chance(0.7):
            kinds["Model"] = "common"
        self.names, self.kinds = names, kinds
        rules = []
        self.bodies = {}
        for i, nm in reversed(list(enumerate(names))):
            later = names[i + 1:]
            self.cur = i
            if kinds[nm] == "match":
                body = self.match_body(later, depth=2)
            elif kinds[nm] == "abstract":
                body = self.abstract_body(later)
            else:
                body = self.common_body(later, depth=3)
            params = {}
            if self.modifiers and rng.chance(0.25):
                ch = rng.choice(["noskipws", "skipws", "ws1", "ws2", "both"])
                if ch == "noskipws":
                    params["skipws"] = False
                elif ch == "skipws":
                    params["skipws"] = True
                elif ch == "ws1":
                    params["ws"] = " "
                elif ch == "ws2":
                    params["ws"] = "\\n"
                else:
                    params["skipws"] = True
                    params["ws"] = " \\t"
            self.bodies[nm] = body
            rules.append({"name": nm, "params": params, "body": body})
        rules.reverse()
        # nested rule modifiers: a rule with a modifier that references other rules -> give one of the referenced
        # rules the opposite / a restating modifier (the whitespace context is dynamically scoped)
        if self.modifiers:
            byname = {r["name"]: r for r in rules}
            for r in rules:
                if r["params"] and rng.chance(0.5):
                    refs = [n for n in self._refs(r["body"]) if n in byname and n != r["name"]]
                    if refs:
                        t = byname[rng.choice(refs)]
                        if "skipws" in r["params"]:
                            t["params"] = dict(t["params"], skipws=(not r["params"]["skipws"]) if rng.chance(0.8) else r["params"]["skipws"])
                        elif "ws" in r["params"]:
                            t["params"] = dict(t["params"], **rng.choice([{"skipws": True}, {"ws": " \\t\\n"}, {"ws": " "}]))
        comment = rng.choice(COMMENTS) if rng.chance(self.comment_p) else None
        g = {"rules": rules, "comment": comment}
        if comment and self.composite_comment and rng.chance(0.35):
            # composite Comment rule (a non-terminal comment model: line | block)
            g["comment_alts"] = rng.sample(COMMENTS, 2)
        return g

    def _refs(self, e):
        if e["k"] == "ref":
            return [e["name"]]
        out = []
        for x in e.get("xs", []):
            out += self._refs(x)
        for key in ("x", "rhs"):
            if key in e and isinstance(e[key], dict):
                out += self._refs(e[key])
        return out

    # ---- bodies ---------------------------------------------------------
    def match_names(self, later):
        return [n for n in later if self.kinds[n] == "match"]

    def match_body(self, later, depth):
        rng = self.rng
        ms = self.match_names(later)

        def atom():
            c = rng.weighted([("lit", 5), ("re", 3), ("base", 2), ("ref", 3 if ms else 0)])
            if c == "lit":
                return lit(rng)
            if c == "re":
                return regex(rng)
            if c == "base":
                return {"k": "ref", "name": rng.choice(BASE)}
            return {"k": "ref", "name": rng.choice(ms)}

        def expr(d):
            c = rng.weighted([("atom", 5), ("seq", 3 if d else 0), ("alt", 3 if d else 0), ("rep", 2 if d else 0),
                              ("flav", 2 if self.flavours and d and ms else 0)])
            if c == "atom":
                e = atom()
            elif c == "flav":
                e = self.ref_flavours(ms, lambda: expr(d - 1), None)
            elif c == "seq":
                e = {"k": "seq", "xs": [expr(d - 1) for _ in range(rng.randint(2, 3))]}
            elif c == "alt":
                e = {"k": "alt", "xs": [expr(d - 1) for _ in range(rng.randint(2, 3))]}
            else:
                e = self.rep(expr(d - 1), allow_unordered=False)
            if self.suppress and rng.chance(0.08):
                e["sup"] = True
            return e

        return expr(depth)

    def abstract_body(self, later):
        rng = self.rng
        nonmatch = [n for n in later if self.kinds[n] != "match"]
        alts = []
        for _ in range(rng.randint(1, 3)):
            if nonmatch and rng.chance(0.75):
                r = {"k": "ref", "name": rng.choice(nonmatch)}
                if rng.chance(0.3):
                    alts.append({"k": "seq", "xs": [lit(rng), r] + ([lit(rng)] if rng.chance(0.5) else [])})
                else:
                    alts.append(r)
            else:
                alts.append(self.match_body(later, depth=1))
        if not any(self._has_nonmatch_ref(a) for a in alts) and nonmatch:
            alts.append({"k": "ref", "name": rng.choice(nonmatch)})
        return alts[0] if len(alts) == 1 else {"k": "alt", "xs": alts}

    def _has_nonmatch_ref(self, e):
        if e["k"] == "ref":
            return e["name"] in self.kinds and self.kinds[e["name"]] != "match"
        return any(self._has_nonmatch_ref(x) for x in e.get("xs", [])) or ("x" in e and self._has_nonmatch_ref(e["x"]))

    NULLABLE_RE = {r"q?"}

    def nullable(self, e, depth=0):
        """Can `e` succeed without consuming input?  (A repetition of such an expression makes Arpeggio loop
        forever: ill-formed PEG, never generated.)"""
        k = e["k"]
        if k == "str":
            return e["v"] == ""
        if k == "re":
            return e["v"] in self.NULLABLE_RE
        if k == "link":
            return False
        if k == "ref":
            if e["name"] in self.bodies and depth < 20:
                return self.nullable(self.bodies[e["name"]], depth + 1)
            return False
        if k == "seq":
            return all(self.nullable(x, depth) for x in e["xs"])
        if k == "alt":
            return any(self.nullable(x, depth) for x in e["xs"])
        if k == "pred":
            return True
        if k == "rep":
            return e["op"] in "?*" or (e["op"] == "+" and self.nullable(e["x"], depth)) or \
                (e["op"] == "#" and all(self.nullable(x, depth) for x in e["x"]["xs"]))
        if k == "asgn":
            return e["op"] in ("*=", "?=") or self.nullable(e["rhs"], depth)
        return False

    def guard(self, x):
        return {"k": "seq", "xs": [lit(self.rng), x]} if self.nullable(x) else x

    def rep(self, x, allow_unordered=True):
        rng = self.rng
        op = rng.weighted([("?", 4), ("*", 3), ("+", 3), ("#", 2 if allow_unordered and self.unordered else 0)])
        if op in "*+":
            x = self.guard(x)
        if op == "#":
            xs = x["xs"] if x["k"] == "seq" and len(x["xs"]) >= 2 and not x.get("sup") else [x, lit(rng)]
            x = {"k": "seq", "xs": xs}
        sep, eol = None, False
        if op in "*+#" and rng.chance(0.35):
            sep = {"k": "str", "v": rng.choice([",", ";", "::"])}
        if op in "*+" and self.eolterm and rng.chance(0.15):
            eol = True
        return {"k": "rep", "op": op, "x": x, "sep": sep, "eol": eol}

    FLAVOURS = ["plain", "sup", "and", "not", "opt", "plus"]

    def ref_flavours(self, pool, cont, attrs):
        """Ordered choice whose alternatives all reach one rule R (from `pool`, preferably a non-terminal one: only
        those are memoised) at the same input position, each through a different kind of reference -- plain `R`,
        suppressed `R-`, assignment `a=R` / `a+=R` (attrs given), under a lookahead `&R R` / `!R x`, optional `R?`,
        repeated `R+` -- optionally behind a common literal prefix, and each followed by its own continuation
        `cont()`.  Whatever the parser keeps per (expression, position) -- memo tables, comment/whitespace caches --
        is filled by an earlier alternative that fails later on and is then consulted through another kind of
        reference."""
        rng = self.rng
        nonterm = [n for n in pool if self.bodies.get(n, {}).get("k") not in (None, "str", "re")]
        name = rng.choice(nonterm or pool)
        ref = {"k": "ref", "name": name}
        null = self.nullable(ref)
        kinds = list(self.FLAVOURS) + (["asgn", "asgn", "list"] if attrs else [])
        n = rng.randint(2, 3)
        ks = [rng.choice(kinds) for _ in range(n)]
        if "sup" not in ks and rng.chance(0.4):
            ks[rng.below(n)] = "sup"
        if len(set(ks)) == 1:
            ks[-1] = "sup" if ks[0] != "sup" else "plain"
        pre = [lit(rng)] if rng.chance(0.4) else []
        alts = []
        for k in ks:
            if k in ("plus", "list") and null:
                k = "plain" if k == "plus" else "asgn"
            if k == "plain":
                head = [dict(ref)]
            elif k == "sup":
                head = [dict(ref, sup=True)]
            elif k == "asgn":
                head = [{"k": "asgn", "attr": rng.choice(attrs), "op": "=", "rhs": dict(ref), "sep": None, "eol": False}]
            elif k == "list":
                head = [{"k": "asgn", "attr": rng.choice(attrs), "op": "+=", "rhs": dict(ref),
                         "sep": {"k": "str", "v": ","} if rng.chance(0.3) else None, "eol": False}]
            elif k == "and":
                real = dict(ref) if not attrs or rng.chance(0.5) else \
                    {"k": "asgn", "attr": rng.choice(attrs), "op": "=", "rhs": dict(ref), "sep": None, "eol": False}
                head = [{"k": "pred", "neg": False, "x": dict(ref)}, real]
            elif k == "not":
                head = [{"k": "pred", "neg": True, "x": dict(ref)}, simple_match(rng)]
            elif k == "opt":
                head = [{"k": "rep", "op": "?", "x": dict(ref), "sep": None, "eol": False}]
            else:
                head = [{"k": "rep", "op": "+", "x": dict(ref), "sep": None, "eol": False}]
            alts.append({"k": "seq", "xs": [dict(x) for x in pre] + head + [cont()]})
        return {"k": "alt", "xs": alts}

    # ---- one rule reached under several whitespace contexts at one position ---------------------------------
    WS_MODES = ["noskipws", "default", "ws_blank", "ws_nl", "skipws", "eol"]

    def ws_modes(self, g):
        """Post-pass (call it after grammar(); nothing else of the generator uses it): add to grammar `g` an ordered
        choice of 2-3 helper rules `W1 | W2 | ..` which all reach ONE target rule at the SAME input position, each under
        another whitespace context -- the only ways the grammar language has to switch it: a rule modifier on the
        helper ([noskipws] / [skipws] / [ws=..]), no modifier (the meta-model's context) or an `eolterm` repetition
        around the reference.  The helpers optionally share a literal prefix (a [noskipws] helper may eat the
        whitespace in front of it with a suppressed /\\s*/, the usual idiom) and end in a continuation of their own.
        Target (returned as g["ws_target"]): a rule of every way a NAME can stand for an expression --
          alias of a base type (`A: INT;`), alias of a simple match rule, alias of an alias, a simple match rule
          (`A: /re/;` -- the rule IS the match), a base type itself, a non-terminal rule of the grammar, an alias of one.
        The choice is hung into the top rule (before or after its body, repeated), so derived sentences run through
        it: earlier alternatives parse the target under their context and fail later or right there, later ones ask
        for it again at the same position."""
        rng = self.rng
        rules = g["rules"]
        kinds = self.kinds
        top = rules[0]
        new = []          # rules to append
        matchish = True   # the target yields a string (base type / match rule)
        c = rng.weighted([("alias_base", 5), ("alias_match", 3), ("alias_chain", 2), ("simple", 2), ("base", 1),
                          ("rule", 4 if len(rules) > 1 else 0), ("alias_rule", 2 if len(rules) > 1 else 0)])
        if kinds[top["name"]] == "match" and c in ("rule", "alias_rule") and \
                not [r for r in rules[1:] if kinds[r["name"]] == "match"]:
            c = "alias_base"
        if c == "alias_base":
            tgt = "WA"
            new.append({"name": "WA", "params": {}, "body": {"k": "ref", "name": rng.choice(BASE)}})
        elif c == "alias_match":
            ms = [r["name"] for r in rules[1:] if kinds[r["name"]] == "match"]
            tgt = "WA"
            if ms and rng.chance(0.5):
                new.append({"name": "WA", "params": {}, "body": {"k": "ref", "name": rng.choice(ms)}})
            else:
                new.append({"name": "WA", "params": {}, "body": {"k": "ref", "name": "WM"}})
                new.append({"name": "WM", "params": {}, "body": simple_match(rng)})
        elif c == "alias_chain":
            tgt = "WA"
            new.append({"name": "WA", "params": {}, "body": {"k": "ref", "name": "WB"}})
            new.append({"name": "WB", "params": {}, "body": {"k": "ref", "name": rng.choice(BASE)}})
        elif c == "simple":
            tgt = "WA"
            new.append({"name": "WA", "params": {}, "body": simple_match(rng)})
        elif c == "base":
            tgt = rng.choice(BASE)
        else:
            pool = [r["name"] for r in rules[1:] if kinds[top["name"]] != "match" or kinds[r["name"]] == "match"]
            name = rng.choice(pool)
            matchish = kinds[name] == "match"
            if c == "rule":
                tgt = name
            else:
                tgt = "WA"
                new.append({"name": "WA", "params": {}, "body": {"k": "ref", "name": name}})
        for r in new:
            self.bodies[r["name"]] = r["body"]
            kinds[r["name"]] = "match"
        if not matchish:
            for r in new:
                kinds[r["name"]] = "abstract"
        ref = {"k": "ref", "name": tgt}
        null = self.nullable(ref)
        if null and tgt in self.bodies and self.bodies[tgt]["k"] == "re":
            # a nullable regex as the target would make every helper nullable
            self.bodies[tgt].update(v=r"\d+")
            null = False
        style = "match" if kinds[top["name"]] == "match" else \
            ("common" if not matchish or kinds[top["name"]] == "abstract" else rng.choice(["match", "common", "common"]))
        n = rng.randint(2, 3)
        modes = rng.sample(self.WS_MODES if self.eolterm and not null else self.WS_MODES[:-1], n)
        if all(m in ("default", "skipws") for m in modes):
            modes[0] = "noskipws"
        pre = lit(rng) if rng.chance(0.5) else None
        helpers = []
        for i, m in enumerate(modes):
            params = {"noskipws": {"skipws": False}, "skipws": {"skipws": True}, "ws_blank": {"ws": " "},
                      "ws_nl": {"ws": "\\n"}}.get(m, {})
            xs = []
            if pre is not None:
                if m == "noskipws" and rng.chance(0.6):
                    xs.append({"k": "re", "v": r"\s*", "sup": True, "samples": [""]})
                xs.append(dict(pre))
            if style == "match":
                head = dict(ref) if m != "eol" else {"k": "rep", "op": "+", "x": dict(ref), "sep": None, "eol": True}
            elif m == "eol" or (not null and rng.chance(0.25)):
                head = {"k": "asgn", "attr": "v", "op": "+=", "rhs": dict(ref), "sep": None, "eol": m == "eol"}
            else:
                head = {"k": "asgn", "attr": "v", "op": "=", "rhs": dict(ref), "sep": None, "eol": False}
            xs.append(head)
            if rng.chance(0.75) or len(xs) == 1:
                xs.append(lit(rng))
            name = f"W{i + 1}"
            helpers.append({"name": name, "params": params, "body": {"k": "seq", "xs": xs}})
            self.bodies[name] = helpers[-1]["body"]
            kinds[name] = "match" if style == "match" else "common"
        alt = {"k": "alt", "xs": [{"k": "ref", "name": h["name"]} for h in helpers]}
        body = top["body"]
        front = rng.chance(0.5)
        if kinds[top["name"]] == "abstract":
            # an abstract rule stays a choice of references
            alts = list(body["xs"]) if body["k"] == "alt" and not body.get("sup") else [body]
            extra = alt["xs"]
            top["body"] = {"k": "alt", "xs": extra + alts if front else alts + extra}
        else:
            if style == "match":
                item = {"k": "rep", "op": "*", "x": alt, "sep": None, "eol": False}
            else:
                new.append({"name": "WS", "params": {}, "body": alt})
                kinds["WS"] = "abstract"
                self.bodies["WS"] = alt
                item = {"k": "asgn", "attr": "wm", "op": "*=", "rhs": {"k": "ref", "name": "WS"}, "sep": None, "eol": False}
            old = list(body["xs"]) if body["k"] == "seq" and not body.get("sup") else [body]
            top["body"] = {"k": "seq", "xs": [item] + old if front else old + [item]}
        self.bodies[top["name"]] = top["body"]
        rules += helpers + new
        g["ws_target"] = {"kind": c, "name": tgt, "modes": modes, "style": style}
        return g

    def asgn(self, later, attrs, inrep=False):
        rng = self.rng
        attr = rng.choice(attrs)
        op = rng.weighted([("=", 6), ("+=", 2), ("*=", 2), ("?=", 0 if inrep else 2)])
        if op == "?=":
            self.flags = getattr(self, "flags", 0) + 1
            attr = f"flag{self.flags}"
        c = rng.weighted([("base", 4), ("lit", 2), ("re", 1), ("rule", 4 if later else 0), ("link", 2 if self.links else 0)])
        if c == "base":
            rhs = {"k": "ref", "name": rng.choice(BASE)}
        elif c == "lit":
            rhs = lit(rng)
        elif c == "re":
            rhs = regex(rng)
        elif c == "rule":
            rhs = {"k": "ref", "name": rng.choice(later)}
        else:
            commons = [n for n in self.names if self.kinds[n] == "common"] or ["Model"]
            rhs = {"k": "link", "cls": rng.choice(commons)}
        sep, eol = None, False
        if op in ("+=", "*=") and self.nullable(rhs):
            rhs = {"k": "ref", "name": rng.choice(BASE)}
        if op in ("+=", "*=") and rng.chance(0.4):
            sep = {"k": "str", "v": rng.choice([",", ";"])}
        if op in ("+=", "*=") and self.eolterm and rng.chance(0.15):
            eol = True
        return {"k": "asgn", "attr": attr, "op": op, "rhs": rhs, "sep": sep, "eol": eol}

    def common_body(self, later, depth):
        rng = self.rng
        attrs = rng.sample(["a", "b", "c", "name"], rng.randint(1, 3))
        used = [False]

        def atom(first, inrep):
            c = rng.weighted([("asgn", 6), ("lit", 4), ("re", 1), ("ref", 2 if later else 0),
                              ("pred", 1 if self.predicates else 0),
                              ("self", 1 if not first else 0)])
            if c == "asgn":
                used[0] = True
                return self.asgn(later, attrs, inrep)
            if c == "lit":
                return lit(rng)
            if c == "re":
                return regex(rng)
            if c == "ref":
                return {"k": "ref", "name": rng.choice(later)}
            if c == "pred":
                return {"k": "pred", "neg": rng.chance(0.5), "x": simple_match(rng)}
            # guarded recursion: '(' <rule> ')' never left-recursive
            return {"k": "seq", "xs": [{"k": "str", "v": "("}, {"k": "ref", "name": rng.choice(self.names[: self.cur + 1])},
                                       {"k": "str", "v": ")"}]}

        def expr(d, first, inrep=False):
            c = rng.weighted([("atom", 4), ("seq", 4 if d else 0), ("alt", 2 if d else 0), ("rep", 2 if d else 0),
                              ("shared", 2 if d and later else 0),
                              ("flav", 3 if self.flavours and d and later else 0)])
            if c == "atom":
                e = atom(first, inrep)
            elif c == "flav":
                e = self.ref_flavours(later, lambda: expr(d - 1, False, inrep), attrs)
                used[0] = used[0] or any(h["k"] == "asgn" for a in e["xs"] for h in a["xs"][:-1])
            elif c == "seq":
                n = rng.randint(2, 4)
                e = {"k": "seq", "xs": [expr(d - 1, first and i == 0, inrep) for i in range(n)]}
            elif c == "alt":
                e = {"k": "alt", "xs": [expr(d - 1, first, inrep) for _ in range(rng.randint(2, 3))]}
            elif c == "shared":
                # alternatives sharing a leading rule reference (backtracking re-parses it: memoization, caches)
                pre = {"k": "ref", "name": rng.choice(later)}
                e = {"k": "alt", "xs": [{"k": "seq", "xs": [dict(pre), expr(d - 1, False, inrep)]}
                                        for _ in range(rng.randint(2, 3))]}
            else:
                e = self.rep(expr(d - 1, first, True))
            if self.suppress and rng.chance(0.05) and e["k"] in ("str", "re", "ref"):
                e["sup"] = True
            return e

        body = expr(depth, True)
        if not used[0]:
            a = self.asgn(later, attrs)
            body = {"k": "seq", "xs": [body, a]} if rng.chance(0.5) else {"k": "seq", "xs": [a, body]}
        return body


# ---- rendering -----------------------------------------------------------
def q(s):
    return "'" + s.replace("\\", "\\\\").replace("'", "\\'") + "'"


def render_expr(e, top=False):
    k = e["k"]
    if k == "str":
        s = q(e["v"])
    elif k == "re":
        s = "/" + e["v"] + "/"
    elif k == "ref":
        s = e["name"]
    elif k == "link":
        s = "[" + e["cls"] + "]"
    elif k == "seq":
        s = " ".join(render_expr(x) for x in e["xs"])
        if not top:
            s = "(" + s + ")"
    elif k == "alt":
        s = " | ".join(render_expr(x, top=(x["k"] == "seq" and not x.get("sup"))) for x in e["xs"])
        if not top:
            s = "(" + s + ")"
    elif k == "rep":
        x = e["x"]
        xs = render_expr(x)
        if x["k"] in ("rep", "pred", "asgn") or x.get("sup"):
            xs = "(" + xs + ")"
        s = xs + e["op"] + render_mods(e)
    elif k == "asgn":
        s = e["attr"] + e["op"] + render_expr(e["rhs"]) + render_mods(e)
    elif k == "pred":
        s = ("!" if e["neg"] else "&") + render_expr(e["x"])
    else:
        raise ValueError(k)
    if e.get("sup"):
        if k in ("seq", "alt") and top:
            s = "(" + s + ")"
        s += "-"
    return s


def render_mods(e):
    mods = []
    if e.get("sep"):
        mods.append(render_expr(e["sep"]))
    if e.get("eol"):
        mods.append("eolterm")
    return "[" + " ".join(mods) + "]" if mods else ""


def render_grammar(g):
    out = []
    for r in g["rules"]:
        ps = []
        p = r.get("params", {})
        if "skipws" in p:
            ps.append("skipws" if p["skipws"] else "noskipws")
        if "ws" in p:
            # opt-in (C22): "wsq": '"' writes the value in double quotes (it must not contain one),
            # "ws_first": True writes the ws modifier in front of skipws / noskipws
            w = '"' + p["ws"] + '"' if p.get("wsq") == '"' else q(p["ws"]).replace("\\\\", "\\")
            ps.insert(0 if p.get("ws_first") else len(ps), "ws=" + w)
        head = r["name"] + ("[" + ", ".join(ps) + "]" if ps else "")
        out.append(f"{head}: {render_expr(r['body'], top=True)};")
    if g.get("comment_alts"):
        a, b = g["comment_alts"]
        out.append(f"Comment: CommentA | CommentB;\nCommentA: /{a}/;\nCommentB: /{b}/;")
    elif g.get("comment"):
        out.append(f"Comment: /{g['comment']}/;")
    return "\n".join(out) + "\n"


# ---- sentences -----------------------------------------------------------
class Deriver:
    """Random derivation of token lists from a grammar AST (fuel-limited)."""

    def __init__(self, g, rng):
        self.g, self.rng = g, rng
        self.rules = {r["name"]: r for r in g["rules"]}

    def tokens(self, name=None, fuel=40):
        self.fuel = fuel
        return self.d({"k": "ref", "name": name or self.g["rules"][0]["name"]}, 0)

    def d(self, e, depth):
        rng = self.rng
        self.fuel -= 1
        k = e["k"]
        if k == "str":
            return [e["v"]]
        if k == "re":
            return [rng.choice(e.get("samples") or dict(RES)[e["v"]])]
        if k == "link":
            return [rng.choice(["foo", "bar", "x1"])]
        if k == "ref":
            if e["name"] in BASE_SAMPLES:
                return [rng.choice(BASE_SAMPLES[e["name"]])]
            if depth > 6 or self.fuel < 0:
                return ["a"]
            return self.d(self.rules[e["name"]]["body"], depth + 1)
        if k == "seq":
            return [t for x in e["xs"] for t in self.d(x, depth)]
        if k == "alt":
            return self.d(rng.choice(e["xs"]), depth)
        if k == "pred":
            return []
        if k in ("rep", "asgn"):
            x = e["x"] if k == "rep" else e["rhs"]
            op = e["op"]
            sep = e.get("sep")
            if op in ("?", "?="):
                return self.d(x, depth) if rng.chance(0.6) else []
            if op == "=":
                return self.d(x, depth)
            if op == "#":
                parts = [self.d(y, depth) for y in rng.shuffle(x["xs"])]
            else:
                lo = 1 if op in ("+", "+=") else 0
                n = rng.randint(lo, 3) if self.fuel > 0 else lo
                parts = [self.d(x, depth) for _ in range(n)]
            out = []
            for i, p in enumerate(parts):
                if i and sep:
                    out += self.d(sep, depth)
                out += p
            return out
        raise ValueError(k)


def comment_pool(g):
    """regex sources whose samples may be inserted as comments for grammar g"""
    if g.get("comment_alts"):
        return list(g["comment_alts"])
    return [g["comment"]] if g.get("comment") else []


def layout(tokens, rng, comment=None, style=None):
    """Join tokens with whitespace / comments; returns text."""
    style = style or rng.weighted([("space", 6), ("tight", 2), ("wild", 3)])
    out = ""
    if style == "wild" and rng.chance(0.3):
        out += rng.choice([" ", "\n", "  "])
    for i, t in enumerate(tokens):
        if i:
            if style == "space":
                out += " "
            elif style == "tight":
                out += "" if rng.chance(0.6) else " "
            else:
                out += rng.choice([" ", "  ", "\n", "\t", " \n ", ""])
                if comment and rng.chance(0.2):
                    cs = comment if isinstance(comment, list) else [comment]
                    out += rng.choice(COMMENT_SAMPLES[rng.choice(cs)]) + rng.choice(["", " "])
        out += t
    if style == "wild" and rng.chance(0.3):
        out += rng.choice([" ", "\n"])
        if comment and rng.chance(0.3):
            cs = comment if isinstance(comment, list) else [comment]
            out += rng.choice(COMMENT_SAMPLES[rng.choice(cs)])
    return out


def mutate(tokens, rng):
    ts = list(tokens)
    if not ts:
        return [rng.choice(KEYWORDS)]
    c = rng.choice(["drop", "dup", "swap", "ins", "case", "glue"])
    i = rng.below(len(ts))
    if c == "drop":
        del ts[i]
    elif c == "dup":
        ts.insert(i, ts[i])
    elif c == "swap" and len(ts) > 1:
        j = rng.below(len(ts))
        ts[i], ts[j] = ts[j], ts[i]
    elif c == "ins":
        ts.insert(i, rng.choice(KEYWORDS + ["zz", "9"]))
    elif c == "case":
        ts[i] = ts[i].upper() if ts[i].lower() == ts[i] else ts[i].lower()
    else:
        ts[i] = ts[i] + rng.choice(["a", "1", "_"])
    return ts


def sentences(g, rng, n_derived=3, n_mutated=2):
    d = Deriver(g, rng)
    out = []
    for _ in range(n_derived):
        toks = d.tokens()
        out.append(layout(toks, rng, comment_pool(g) or None))
        if len(out) > n_derived - 1:
            break
    for _ in range(n_mutated):
        toks = mutate(d.tokens(), rng)
        out.append(layout(toks, rng, comment_pool(g) or None))
    return out
