"""C24 translator: regenerates lean/TextxVerif/Gen/Grammars.lean from the tree under test.

Dumps the two Arpeggio parser models of the textX language
  * `lang`: the ParserPython model built from textx/lang.py's `textx_model` (the object
            `language_from_str` really uses: textx.lang.textX_parsers[False]),
  * `tx`:   the parser model textX compiles from textx/textx.tx
            (metamodel_for_language('textx').metamodel._parser_blueprint),
as node tables in the format of harness/peg.py:dump_parser (consumed by Peg.Node), with one
common token numbering: two Match nodes get the same token id iff they are the same kind with
the same literal / the same *parsed* regular expression (Python's re._parser AST and flags, so
`\\/` and `/` are the same token).

It also computes (untrusted, verified by the Lean checker `Rec.check`):
  * result-shape tables for both graphs (least fixpoint of the rules of `Rec.okShNode`),
  * the list `unproved` of separator repetitions of `tx` that `lang` states as `(x sep)* x`
    (rewritten by `Rec.unsep` before comparison; agreement there is context dependent and
    is covered by correspondence only),
  * the candidate relation between `lang` and `unsep tx unproved`,
  * the lexer hypotheses used (`nonempty`, `alts`).
Python replicas of Rec.peel / align / sepA / sepB live here only to *find* the relation.
"""
import os
import re

from harness.core import LEAN_DIR, use_repo
from harness import peg

OUT = os.path.join(LEAN_DIR, "TextxVerif", "Gen", "Grammars.lean")
DEPTH = 8


class TranslateError(Exception):
    pass


# ---------------------------------------------------------------------------
# the two real parsers
# ---------------------------------------------------------------------------
def real_parsers():
    use_repo()
    import textx
    from textx import metamodel_for_language, metamodel_from_str
    import textx.lang as lang

    if False not in lang.textX_parsers:
        metamodel_from_str("A: 'a';")
    lp = lang.textX_parsers[False]
    tp = metamodel_for_language("textx").metamodel._parser_blueprint
    return lp, tp


def regex_key(e):
    import re._parser as sp

    def conv(x):
        if isinstance(x, sp.SubPattern):
            return [conv(i) for i in x.data]
        if isinstance(x, (list, tuple)):
            return [conv(i) for i in x]
        if x is None or isinstance(x, (int, str, bool)):
            return x
        return str(x)

    try:
        parsed = sp.parse(e.to_match, e.regex.flags)
    except Exception as ex:  # the pattern compiled, so this cannot happen; keep the tie visible
        raise TranslateError(f"cannot parse regex {e.to_match!r}: {ex}")
    return ("re", repr(conv(parsed)), int(e.regex.flags)), parsed.getwidth()[0] > 0


class TokenTable:
    def __init__(self):
        self.ids = {}
        self.keys = []
        self.objs = []   # one representative Match object per token
        self.nonempty = []

    def token(self, nd, e):
        if nd["k"] == "str":
            key, ne = ("str", e.to_match, bool(e.ignore_case)), len(e.to_match) > 0
        else:
            key, ne = regex_key(e)
        if key not in self.ids:
            self.ids[key] = len(self.keys)
            self.keys.append(key)
            self.objs.append(e)
            if ne and nd["k"] == "re":
                self.nonempty.append(self.ids[key])
        return self.ids[key]


def dump(parser, toks):
    nodes, top, comments, objs = peg.dump_parser(parser)
    for nd, e in zip(nodes, objs):
        if nd["k"] in ("str", "re"):
            nd["tok"] = toks.token(nd, e)
            nd["src"] = e.to_match
    return {"nodes": nodes, "top": top, "comments": comments, "skipws": bool(parser.skipws), "ws": parser.ws,
            "memo": bool(parser.memoization)}


# ---------------------------------------------------------------------------
# replicas of the Lean checker's helpers (used to find the relation only)
# ---------------------------------------------------------------------------
def supported(nd):
    return nd.get("ws") is None and nd.get("skipws") is None and not nd.get("eol") and nd["k"] != "unord"


def transparent(nd):
    return nd["k"] == "seq" and supported(nd) and not nd["sup"]


def kids(nd):
    return nd.get("kids", [])


def shapes(g, nonempty):
    """least fixpoint of the closure rules of Rec.okShNode"""
    n = len(g["nodes"])
    sh = [set() for _ in range(n)]
    falsy = {"N", "E", "Z"}
    changed = True
    while changed:
        changed = False
        for a, nd in enumerate(g["nodes"]):
            out = set()
            ks = [k for k in kids(nd) if k < n]
            hasT = any("T" in sh[k] for k in ks)
            k = nd["k"]
            if nd["sup"]:
                out.add("N")
            elif k in ("str", "eof"):
                out.add("T")
            elif k == "re":
                out.add("T")
                if nd["tok"] not in nonempty:
                    out.add("N")
            elif k == "seq":
                if hasT:
                    out.add("T")
                if all(sh[x] & falsy for x in ks):
                    out.add("N")
            elif k == "choice":
                if hasT:
                    out.add("T")
            elif k == "opt":
                out.add("N")
                if hasT:
                    out.add("T")
            elif k == "star":
                out.add("E")
                if hasT:
                    out.add("T")
            elif k == "plus":
                if any(sh[x] & falsy for x in ks):
                    out.add("E")
                if hasT:
                    out.add("T")
            elif k in ("and", "not"):
                out.add("N")
            if not out <= sh[a]:
                sh[a] |= out
                changed = True
    return sh


def unsep(g, ids):
    """replica of Rec.unsep"""
    nodes = [dict(nd) for nd in g["nodes"]]
    for i in ids:
        nd = nodes[i]
        if nd["k"] == "plus" and len(kids(nd)) == 1 and nd.get("sep") is not None:
            n = len(nodes)
            k, s = nd["kids"][0], nd["sep"]
            nodes[i] = dict(nd, k="seq", kids=[n, k], sep=None, ws=None, skipws=None)
            nodes.append({"k": "star", "kids": [n + 1], "root": False, "rule": "", "sup": False, "sep": None, "eol": False})
            nodes.append({"k": "seq", "kids": [k, s], "root": False, "rule": "", "sup": False, "ws": None, "skipws": None})
    return dict(g, nodes=nodes)


class Side:
    def __init__(self, g, nonempty):
        self.g = g
        self.nodes = g["nodes"]
        self.sh = shapes(g, nonempty)

    def peel(self, a, d=DEPTH):
        while d > 0:
            nd = self.nodes[a]
            if transparent(nd) and len(kids(nd)) == 1 and self.sh[kids(nd)[0]] <= {"N", "T"}:
                a = kids(nd)[0]
                d -= 1
            else:
                break
        return a

    def star_sep_body(self, st):
        nd = self.nodes[st]
        if nd["k"] == "star" and supported(nd) and not nd["sup"] and nd.get("sep") is None and len(kids(nd)) == 1:
            bd = self.nodes[kids(nd)[0]]
            if transparent(bd) and len(kids(bd)) == 2:
                return tuple(kids(bd))
        return None

    def plus_sep(self, y):
        nd = self.nodes[y]
        if nd["k"] == "plus" and supported(nd) and not nd["sup"] and len(kids(nd)) == 1 and nd.get("sep") is not None:
            return kids(nd)[0], nd["sep"]
        return None

    def only_t(self, a):
        return self.sh[a] <= {"T"}


class Mismatch(Exception):
    def __init__(self, what, a=None, b=None, unsep=None):
        super().__init__(what)
        self.what, self.a, self.b, self.unsep = what, a, b, unsep


def find_relation(s1, s2, hyp_nonempty):
    """Worklist from the top / comments pairs.  Returns (pairs, alts)."""
    rel, alts, todo = [], [], []

    def want(a, b):
        p = (s1.peel(a), s2.peel(b))
        if p not in rel:
            rel.append(p)
            todo.append(p)

    def re_toks(s, ks):
        ts = []
        for k in ks:
            nd = s.nodes[s.peel(k)]
            if not (nd["k"] == "re" and supported(nd) and not nd["sup"] and nd["tok"] in hyp_nonempty):
                return None
            ts.append(nd["tok"])
        return ts

    def align(strict, xs, ys, a, b):
        xs, ys = list(xs), list(ys)
        steps = 0
        while xs or ys:
            steps += 1
            if steps > 60:
                raise Mismatch("alignment does not terminate", a, b)
            if not xs or not ys:
                raise Mismatch(f"kid lists of different length (left over {xs} / {ys})", a, b)
            x, y = xs[0], ys[0]
            if len(xs) > 1 and s1.star_sep_body(xs[1]) and s2.plus_sep(s2.peel(y)):
                s, x2 = s1.star_sep_body(xs[1])
                z, t = s2.plus_sep(s2.peel(y))
                if not (s1.only_t(x) and s1.only_t(x2) and s1.only_t(s)):
                    raise Mismatch("x (sep x)* with possibly falsy parts", a, b)
                want(x, z), want(x2, z), want(s, t)
                xs, ys = xs[2:], ys[1:]
                continue
            if len(ys) > 1 and s1.plus_sep(s1.peel(x)) and s2.star_sep_body(ys[1]):
                z, t = s1.plus_sep(s1.peel(x))
                s, y2 = s2.star_sep_body(ys[1])
                if not (s1.only_t(z) and s1.only_t(t)):
                    raise Mismatch("x+[sep] with possibly falsy parts", a, b)
                want(z, y), want(z, y2), want(t, s)
                xs, ys = xs[1:], ys[2:]
                continue
            tx_, ty_ = transparent(s1.nodes[s1.peel(x)]), transparent(s2.nodes[s2.peel(y)])
            if tx_ and not ty_ and transparent(s1.nodes[x]):
                xs = kids(s1.nodes[x]) + xs[1:]
                continue
            if ty_ and not tx_ and transparent(s2.nodes[y]):
                ys = kids(s2.nodes[y]) + ys[1:]
                continue
            if strict:
                # `(x sep)* x` on the left against x+[sep] on the right: not an equivalence of PEGs
                py = s2.peel(y)
                if s2.plus_sep(py) and len(xs) > 1 and s1.star_sep_body(x) is not None:
                    raise Mismatch("(x sep)* x against x+[sep]", a, b, unsep=py)
                want(x, y)
                xs, ys = xs[1:], ys[1:]
                continue
            raise Mismatch("sequence against a non-sequence", a, b)

    want(s1.g["top"], s2.g["top"])
    c1, c2 = s1.g["comments"], s2.g["comments"]
    if (c1 is None) != (c2 is None):
        raise Mismatch("only one grammar has a comment rule")
    if c1 is not None:
        want(c1, c2)
    while todo:
        a, b = todo.pop()
        na, nb = s1.nodes[a], s2.nodes[b]
        sa, sb = transparent(na), transparent(nb)
        if sa or sb:
            xs = kids(na) if sa else [a]
            ys = kids(nb) if sb else [b]
            align(sa and sb, xs, ys, a, b)
            continue
        if not (supported(na) and supported(nb)) or na["sup"] != nb["sup"]:
            raise Mismatch("unsupported feature or different suppression", a, b)
        ka, kb = na["k"], nb["k"]
        if ka == kb and ka in ("str", "re"):
            if na["tok"] != nb["tok"]:
                raise Mismatch(f"different tokens {na['src']!r} / {nb['src']!r}", a, b)
        elif ka == kb == "eof":
            pass
        elif ka == kb and ka in ("choice", "opt", "star", "plus"):
            if len(kids(na)) != len(kids(nb)):
                raise Mismatch("different number of alternatives / kids", a, b)
            for x, y in zip(kids(na), kids(nb)):
                want(x, y)
            if ka in ("star", "plus"):
                sx, sy = na.get("sep"), nb.get("sep")
                if (sx is None) != (sy is None):
                    raise Mismatch("separator on one side only", a, b, unsep=b if sy is not None else None)
                if sx is not None:
                    want(sx, sy)
        elif ka == "choice" and kb == "re":
            ts = re_toks(s1, kids(na))
            if ts is None or nb["tok"] not in hyp_nonempty:
                raise Mismatch("choice against regex: alternatives are not plain non-empty regexes", a, b)
            if (nb["tok"], ts) not in alts:
                alts.append((nb["tok"], ts))
        elif ka == "re" and kb == "choice":
            ts = re_toks(s2, kids(nb))
            if ts is None or na["tok"] not in hyp_nonempty:
                raise Mismatch("regex against choice: alternatives are not plain non-empty regexes", a, b)
            if (na["tok"], ts) not in alts:
                alts.append((na["tok"], ts))
        else:
            raise Mismatch(f"different kinds {ka} / {kb}", a, b)
    return sorted(rel), alts


# ---------------------------------------------------------------------------
# Lean rendering
# ---------------------------------------------------------------------------
LKIND = {"str": ".str", "re": ".re", "eof": ".eof", "seq": ".seq", "choice": ".choice", "opt": ".opt",
         "star": ".star", "plus": ".plus", "unord": ".unord", "and": ".andP", "not": ".notP"}


def lstr(s):
    out = ['"']
    for ch in s:
        o = ord(ch)
        if ch in '"\\':
            out.append("\\" + ch)
        elif 32 <= o < 127:
            out.append(ch)
        else:
            out.append("\\u{%x}" % o)
    out.append('"')
    return "".join(out)


def lchars(s):
    return "[" + ", ".join(f"Char.ofNat {ord(c)}" for c in s) + "]"


def lnode(nd):
    f = [f"kind := {LKIND[nd['k']]}"]
    if kids(nd):
        f.append("kids := [" + ", ".join(map(str, kids(nd))) + "]")
    if nd["k"] in ("str", "re"):
        f.append(f"tok := {nd['tok']}")
    if nd.get("ws") is not None:
        f.append(f"ws := some {lchars(nd['ws'])}")
    if nd.get("skipws") is not None:
        f.append(f"skipws := some {'true' if nd['skipws'] else 'false'}")
    if nd["root"]:
        f.append("root := true")
    if nd["rule"]:
        f.append(f"rule := {lstr(nd['rule'])}")
    if nd["sup"]:
        f.append("suppress := true")
    if nd.get("sep") is not None:
        f.append(f"sep := some {nd['sep']}")
    if nd.get("eol"):
        f.append("eolterm := true")
    return "{ " + ", ".join(f) + " }"


KCODE = {"str": 0, "re": 1, "eof": 2, "seq": 3, "choice": 4, "opt": 5, "star": 6, "plus": 7, "unord": 8, "and": 9, "not": 10}
NODE_W, SH_W, REL_W = 256, 8, 192
SHBIT = {"N": 1, "E": 2, "Z": 4, "H": 8, "T": 16}


def node_code(nd):
    """bit layout of Rec.decodeNode"""
    if nd.get("ws") is not None or nd.get("skipws") is not None:
        raise TranslateError(f"node with ws/skipws override (rule {nd['rule']!r}): outside the modelled fragment")
    ks = kids(nd)
    if len(ks) > 18 or any(k >= 4096 for k in ks) or nd.get("tok", 0) >= 4096 or (nd.get("sep") or 0) >= 4096:
        raise TranslateError("node does not fit the packed layout")
    c = KCODE[nd["k"]] | (int(nd["root"]) << 4) | (int(nd["sup"]) << 5) | (int(bool(nd.get("eol"))) << 6)
    if nd.get("sep") is not None:
        c |= (1 << 7) | (nd["sep"] << 20)
    c |= nd.get("tok", 0) << 8
    c |= len(ks) << 32
    for i, k in enumerate(ks):
        c |= k << (40 + 12 * i)
    assert c < (1 << NODE_W)
    return c


def pack(cells, w):
    n = 0
    for i, c in enumerate(cells):
        assert 0 <= c < (1 << w)
        n |= c << (w * i)
    return n


def rel_code(rel, n, swap=False):
    part = [[] for _ in range(n)]
    for a, b in rel:
        if swap:
            a, b = b, a
        part[a].append(b)
    cells = []
    for ps in part:
        if len(ps) > 15:
            raise TranslateError("too many partners for the packed relation")
        c = len(ps)
        for i, b in enumerate(sorted(ps)):
            c |= b << (4 + 12 * i)
        cells.append(c)
    return pack(cells, REL_W)


def lgraph(name, g, doc):
    lines = [f"/-- {doc} (readable form, format of harness/peg.py:dump_parser) -/", f"def {name}Nodes : List Node := ["]
    for i, nd in enumerate(g["nodes"]):
        src = f"  -- {i}" + (f" {nd['src']!r}" if "src" in nd else "")
        lines.append(f"  {lnode(nd)}{',' if i + 1 < len(g['nodes']) else ''}{src}".replace("-/", "- /"))
    lines.append("]")
    lines.append(f"/-- the same table packed for `Rec.nodeOfCode` (see `{name}_agree`) -/")
    lines.append(f"def {name}Code : Nat := {hex(pack([node_code(nd) for nd in g['nodes']], NODE_W))}")
    com = "none" if g["comments"] is None else f"some {g['comments']}"
    lines.append(f"def {name} : Graph := {{ size := {len(g['nodes'])}, node := nodeOfCode {name}Code, top := {g['top']}, "
                 f"comments := {com}, skipws := {'true' if g['skipws'] else 'false'}, ws := {lchars(g['ws'])} }}")
    return "\n".join(lines)


def lsh(name, sh):
    return f"def {name} : ShTab := shOfCode {hex(pack([sum(SHBIT[x] for x in row) for row in sh], SH_W))}"


# grammar texts whose real token tables are emitted as data for the non-vacuity examples of Props/C24.lean
# (a real text that both parsers accept, with RREL separator repetitions, whitespace and a comment; and a
# text with a trailing RREL separator; a text where a separator token is followed by a non-element only at a
# position the parser never visits as an RREL position)
EXAMPLE_TEXTS = {"exOk": "A: b=[B|n|a.b,^c*]; // x\n", "exTrail": "A:b=[B|n|a.];", "exStr": "A: 'a.';"}


def token_entries(toks, text):
    """(token, position, length) for every position where a token of the common table matches (real re)"""
    out, n = [], len(text)
    for t, e in enumerate(toks.objs):
        if type(e).__name__ == "StrMatch":
            tm = e.to_match
            low = tm.lower()
            for p in range(n + 1):
                seg = text[p:p + len(tm)]
                if seg == tm or (e.ignore_case and seg.lower() == low):
                    out.append((t, p, len(tm)))
        else:
            for p in range(n + 1):
                m = e.regex.match(text, p)
                if m:
                    out.append((t, p, len(m.group())))
    return out


def lexample(name, toks, text):
    ents = token_entries(toks, text)
    return (f"/-- the text {text!r} -/\n".replace("-/ -/", "- / -/") +
            f"def {name}Input : Array Char := #{lchars(text)}\n"
            f"/-- its token table `(token, position, matched length)`, computed with Python's `re` / string comparison -/\n"
            f"def {name}Table : List (Nat × Nat × Nat) := [" + ", ".join(f"({t}, {p}, {n})" for t, p, n in ents) + "]")


def build():
    """-> dict with everything the harness needs + the Lean source text"""
    lp, tp = real_parsers()
    toks = TokenTable()
    g1 = dump(lp, toks)
    g2 = dump(tp, toks)
    nonempty = list(toks.nonempty)
    s1 = Side(g1, nonempty)
    unproved, problem, rel, alts = [], None, [], []
    for _ in range(12):
        s2 = Side(unsep(g2, unproved), nonempty)
        try:
            rel, alts = find_relation(s1, s2, nonempty)
            problem = None
            break
        except Mismatch as m:
            problem = m
            if m.unsep is not None and m.unsep not in unproved and m.unsep < len(g2["nodes"]):
                unproved.append(m.unsep)
                continue
            break
    s2 = Side(unsep(g2, unproved), nonempty)
    info = {"lang": g1, "tx": g2, "txo": s2.g, "tokens": toks, "nonempty": nonempty, "alts": alts, "rel": rel,
            "unproved": unproved, "problem": None}
    if problem is not None:
        na = s1.nodes[problem.a] if problem.a is not None else {}
        nb = s2.nodes[problem.b] if problem.b is not None else {}
        info["problem"] = {"what": problem.what, "lang_node": problem.a, "tx_node": problem.b,
                           "lang_rule": na.get("rule"), "tx_rule": nb.get("rule")}
    parts = [
        "import TextxVerif.Peg.RecCheck",
        "/-! GENERATED by harness/c24_gen.py from the tree under test -- do not edit.",
        "The Arpeggio parser models of the textX language: `lang` (textx/lang.py, ParserPython) and `tx`",
        "(compiled from textx/textx.tx); common token table; shape tables, candidate relation and lexer",
        "hypotheses for `Rec.check`.  Token ids:",
    ]
    for i, k in enumerate(toks.keys):
        desc = f"{k[0]} {toks.objs[i].to_match!r}" + (" (never empty)" if i in nonempty else "")
        parts.append(f"  {i}: {desc}".replace("-/", "- /"))
    parts.append("-/")
    parts.append("namespace Gen.Grammars\nopen Peg Rec\n")
    parts.append(lgraph("lang", g1, "parser model built by ParserPython from textx/lang.py:textx_model"))
    parts.append("")
    parts.append(lgraph("tx", g2, "parser model compiled by textX from textx/textx.tx"))
    parts.append("")
    parts.append(lsh("langSh", [sorted(x) for x in s1.sh]))
    parts.append("/-- shapes of `unsep tx unproved` -/")
    parts.append(lsh("txoSh", [sorted(x) for x in s2.sh]))
    parts.append(f"/-- separator repetitions of `tx` that `lang` states as `(x sep)* x` -/\n"
                 f"def unproved : List Nat := [{', '.join(map(str, unproved))}]")
    parts.append("def hyps : Hyps := { nonempty := [" + ", ".join(map(str, nonempty)) + "], alts := [" +
                 ", ".join(f"({t}, [{', '.join(map(str, ts))}])" for t, ts in alts) + "] }")
    parts.append("/-- candidate relation lang -> unsep tx unproved: " + " ".join(f"({a},{b})" for a, b in rel) + " -/")
    parts.append(f"def rel : Rel := relOfCode {hex(rel_code(rel, len(g1['nodes'])))}")
    parts.append("/-- its converse -/")
    parts.append(f"def relInv : Rel := relOfCode {hex(rel_code(rel, len(s2.nodes), swap=True))}")
    parts.append(f"def depth : Nat := {DEPTH}")
    for name, text in EXAMPLE_TEXTS.items():
        parts.append(lexample(name, toks, text))
    if info["problem"]:
        parts.append(f"-- translator could not complete the relation: {info['problem']}".replace("-/", "- /"))
    parts.append("\nend Gen.Grammars\n")
    info["lean"] = "\n".join(parts)
    return info


def translate():
    info = build()
    os.makedirs(os.path.dirname(OUT), exist_ok=True)
    old = open(OUT).read() if os.path.exists(OUT) else None
    if old != info["lean"]:
        tmp = OUT + ".tmp"
        with open(tmp, "w") as f:
            f.write(info["lean"])
        os.replace(tmp, OUT)
    return info


if __name__ == "__main__":
    i = translate()
    print("unproved", i["unproved"], "alts", i["alts"], "pairs", len(i["rel"]), "problem", i["problem"])
