"""
Shared machinery of the textX Lean-4 verification checks.

A check for one property (harness/props/cXX.py) supplies generators, an
implementation runner, Lean driver requests, a comparison, a direct property
oracle and a classifier for known findings; `run_check` does the rest:

  translate /repo -> lean/TextxVerif/Gen   (tie T, optional per property)
  lake build Props.Cxx + axiom / sorry audit (obligations)
  corpus + generated cases -> implementation and Lean model, diff (tie X)
  direct oracle sweep on the implementation (failing-input search)
  verdict, replay files, evidence

Exit codes: 0 held, 1 VIOLATION line(s) printed, 2 infrastructure problem.
"""
from __future__ import annotations

import fcntl
import hashlib
import importlib
import json
import os
import re
import subprocess
import sys
import time
import traceback

VERIF = os.path.dirname(os.path.dirname(os.path.abspath(__file__)))
REPO = os.environ.get("VERIF_REPO", "/repo")
LEAN_DIR = os.path.join(VERIF, "lean")
PY = "/venv/bin/python"
GUARD = "TEXTX_VERIF"
ALLOWED_AXIOMS = {"propext", "Classical.choice", "Quot.sound"}
FORBIDDEN = re.compile(
    r"\b(sorry|admit|native_decide|bv_decide|implemented_by)\b|^\s*axiom\s|\bunsafe\s|maxHeartbeats\s+0\b",
    re.M,
)

TRUSTED_BASE = [
    "Lean 4.33.0 kernel + elaborator, lake",
    "axioms allowed: propext, Classical.choice, Quot.sound (audited per theorem each run)",
    "harness (generators, canonicalisation, differ, classifiers) in /verif/harness",
    "CPython 3.12 semantics, Arpeggio 2.0.3 (dependency; mirrored where stated)",
]


def use_repo():
    """Make `import textx` resolve to the tree under test."""
    if REPO not in sys.path[:1]:
        sys.path.insert(0, REPO)
    os.environ.setdefault(GUARD, "1")


# --------------------------------------------------------------------------
# PRNG: splitmix64, every random choice of a run derives from one state
# --------------------------------------------------------------------------
MASK = (1 << 64) - 1


class Rng:
    def __init__(self, seed):
        if isinstance(seed, str):
            seed = int.from_bytes(hashlib.sha256(seed.encode()).digest()[:8], "big")
        self.s = seed & MASK

    def next(self):
        self.s = (self.s + 0x9E3779B97F4A7C15) & MASK
        z = self.s
        z = ((z ^ (z >> 30)) * 0xBF58476D1CE4E5B9) & MASK
        z = ((z ^ (z >> 27)) * 0x94D049BB133111EB) & MASK
        return z ^ (z >> 31)

    def fork(self, label):
        return Rng(f"{self.next()}:{label}")

    def below(self, n):
        return self.next() % n if n > 0 else 0

    def randint(self, a, b):
        return a + self.below(b - a + 1)

    def chance(self, p):
        return (self.next() >> 11) / float(1 << 53) < p

    def choice(self, xs):
        return xs[self.below(len(xs))]

    def weighted(self, pairs):
        tot = sum(w for _, w in pairs)
        r = self.below(tot)
        for x, w in pairs:
            if r < w:
                return x
            r -= w
        return pairs[-1][0]

    def shuffle(self, xs):
        xs = list(xs)
        for i in range(len(xs) - 1, 0, -1):
            j = self.below(i + 1)
            xs[i], xs[j] = xs[j], xs[i]
        return xs

    def sample(self, xs, k):
        return self.shuffle(xs)[:k]

    def subset(self, xs, p=0.5):
        return [x for x in xs if self.chance(p)]


# --------------------------------------------------------------------------
# Lean side
# --------------------------------------------------------------------------
class InfraError(Exception):
    pass


class BuildLock:
    def __enter__(self):
        os.makedirs(os.path.join(LEAN_DIR, ".lake"), exist_ok=True)
        self.f = open(os.path.join(LEAN_DIR, ".lake", "verif.lock"), "w")
        fcntl.flock(self.f, fcntl.LOCK_EX)
        return self

    def __exit__(self, *a):
        fcntl.flock(self.f, fcntl.LOCK_UN)
        self.f.close()


def sh(cmd, cwd=None, timeout=1800, input=None):
    p = subprocess.run(
        cmd, cwd=cwd, capture_output=True, text=True, timeout=timeout, input=input
    )
    return p.returncode, p.stdout, p.stderr


def module_path(mod):
    return os.path.join(LEAN_DIR, *mod.split(".")) + ".lean"


def module_closure(mod, seen=None):
    """TextxVerif modules transitively imported by `mod` (source level)."""
    seen = seen if seen is not None else []
    if mod in seen:
        return seen
    path = module_path(mod)
    if not os.path.exists(path):
        return seen
    seen.append(mod)
    for line in open(path):
        m = re.match(r"\s*(?:public\s+)?import\s+(TextxVerif\.[\w.]+)", line)
        if m:
            module_closure(m.group(1), seen)
    return seen


def strip_comments(src):
    src = re.sub(r"/-.*?-/", "", src, flags=re.S)
    src = re.sub(r"--.*", "", src)
    return src


def driver_imports(driver):
    """TextxVerif modules imported by a driver file (they must be built before `lean --run`)."""
    mods = []
    if driver:
        path = os.path.join(LEAN_DIR, driver)
        if os.path.exists(path):
            for line in open(path):
                m = re.match(r"\s*import\s+(TextxVerif\.[\w.]+)", line)
                if m:
                    mods.append(m.group(1))
    return mods


def lean_build(mod, translate=None, driver=None):
    """Regenerate Gen files (if the property has a translator), build the
    property module and everything its driver imports.  Returns (ok, log)."""
    with BuildLock():
        if translate is not None:
            try:
                translate()
            except Exception:
                return False, "translator failed:\n" + traceback.format_exc()
        targets = [mod] + [m for m in driver_imports(driver) if m != mod]
        rc, out, err = sh(["lake", "build"] + targets, cwd=LEAN_DIR)
        return rc == 0, out + err


def lean_audit(mod, theorems):
    """#print axioms for each property theorem + forbidden-token grep over the
    module closure.  Returns (per-theorem dict, problems list)."""
    problems = []
    for m in module_closure(mod):
        src = strip_comments(open(module_path(m)).read())
        hit = FORBIDDEN.search(src)
        if hit:
            problems.append(f"forbidden token {hit.group(0).strip()!r} in {m}")
    audit_dir = os.path.join(LEAN_DIR, ".lake", "audit")
    os.makedirs(audit_dir, exist_ok=True)
    path = os.path.join(audit_dir, mod.replace(".", "_") + ".lean")
    with open(path, "w") as f:
        f.write(f"import {mod}\n")
        for t in theorems:
            f.write(f"#print axioms {t}\n")
    rc, out, err = sh(["lake", "env", "lean", path], cwd=LEAN_DIR)
    per = {}
    if rc != 0:
        problems.append("audit file failed: " + (out + err)[-2000:])
        return per, problems
    # messages look like: 'Thm' depends on axioms: [propext, Quot.sound]
    #                 or: 'Thm' does not depend on any axioms
    text = out + err
    for t in theorems:
        m = re.search(
            r"'" + re.escape(t) + r"' (does not depend on any axioms|depends on axioms: \[([^\]]*)\])",
            text,
            flags=re.S,
        )
        if not m:
            problems.append(f"no axiom report for {t}")
            continue
        axs = [] if m.group(2) is None else [a.strip() for a in m.group(2).replace("\n", " ").split(",") if a.strip()]
        per[t] = axs
        bad = [a for a in axs if a not in ALLOWED_AXIOMS]
        if bad:
            problems.append(f"{t} depends on disallowed axioms {bad}")
    return per, problems


def run_driver(driver, requests, timeout=1800):
    """Pipe one JSON request per line through `lake env lean --run <driver>`;
    returns the list of decoded answers (same order)."""
    if not requests:
        return []
    data = "".join(json.dumps(r, separators=(",", ":"), ensure_ascii=True) + "\n" for r in requests)
    rc, out, err = sh(["lake", "env", "lean", "--run", driver], cwd=LEAN_DIR, input=data, timeout=timeout)
    lines = [l for l in out.split("\n") if l.strip()]
    if rc != 0 or len(lines) != len(requests):
        raise InfraError(
            f"driver {driver}: rc={rc}, {len(lines)} answers for {len(requests)} requests\n{(err or out)[-3000:]}"
        )
    return [json.loads(l) for l in lines]


def run_driver_sharded(driver, requests, shards=8, timeout=1800):
    if len(requests) < 400 or shards <= 1:
        return run_driver(driver, requests, timeout)
    from concurrent.futures import ThreadPoolExecutor

    n = len(requests)
    size = (n + shards - 1) // shards
    chunks = [requests[i : i + size] for i in range(0, n, size)]
    with ThreadPoolExecutor(len(chunks)) as ex:
        outs = list(ex.map(lambda c: run_driver(driver, c, timeout), chunks))
    return [o for c in outs for o in c]


# --------------------------------------------------------------------------
# known findings
# --------------------------------------------------------------------------
def load_findings(prop):
    """Known findings of one property: known_findings/<ID>.json
    {"findings": [{"id", "status": "open"|"fixed", "what", "witness", "classifier"}], "fixed": ["fixed: property=... <commit> <what>"]}
    (known_findings.json at the top level is the generated aggregate for readers)."""
    path = os.path.join(VERIF, "known_findings", f"{prop}.json")
    if not os.path.exists(path):
        return []
    data = json.load(open(path))
    return [dict(f, property=prop) for f in data.get("findings", [])]


# --------------------------------------------------------------------------
# evidence / replay
# --------------------------------------------------------------------------
def write_json(path, obj):
    os.makedirs(os.path.dirname(path), exist_ok=True)
    tmp = path + ".tmp"
    with open(tmp, "w") as f:
        json.dump(obj, f, indent=1, sort_keys=True, default=str)
        f.write("\n")
    os.replace(tmp, path)


def canon(x):
    return json.dumps(x, sort_keys=True, separators=(",", ":"), default=str)


def parallel_map(fn, items, procs):
    """Run fn over items in forked workers (fn and items need not pickle:
    results must).  Order preserved.  A worker that dies (killed by a signal, os._exit, an exception that is not an
    Exception escaping from a signal handler) must not hang the check: the items it was working on are re-run one per
    process, and an item whose process dies again is reported as a crash observation."""
    if procs <= 1 or len(items) < 64:
        return [fn(x) for x in items]
    import multiprocessing as mp
    from concurrent.futures import ProcessPoolExecutor

    ctx = mp.get_context("fork")
    global _PM_FN, _PM_ITEMS
    _PM_FN, _PM_ITEMS = fn, items
    n = len(items)
    results = [None] * n
    size = max(1, n // (procs * 8))
    todo = [list(range(i, min(n, i + size))) for i in range(0, n, size)]
    while todo:
        failed = []
        ex = ProcessPoolExecutor(max_workers=procs, mp_context=ctx)
        futs = [(ex.submit(_pm_chunk, ch), ch) for ch in todo]
        for f, ch in futs:
            try:
                for i, r in zip(ch, f.result()):
                    results[i] = r
            except BaseException:  # BrokenProcessPool (a worker died) or an exception escaping fn in the worker
                failed.append(ch)
        ex.shutdown(wait=False, cancel_futures=True)
        if not failed:
            break
        if all(len(ch) == 1 for ch in failed):
            for (i,) in failed:  # one fresh process per item: the one that dies again is the culprit
                ex1 = ProcessPoolExecutor(max_workers=1, mp_context=ctx)
                try:
                    results[i] = ex1.submit(_pm_chunk, [i]).result()[0]
                except BaseException as e:
                    results[i] = {"__crash__": f"the worker process running this case died or raised outside Exception ({type(e).__name__})"}
                ex1.shutdown(wait=False, cancel_futures=True)
            break
        todo = [[i] for ch in failed for i in ch]
    return results


def _pm_call(i):
    return _PM_FN(_PM_ITEMS[i])


def _pm_chunk(idx):
    return [_PM_FN(_PM_ITEMS[i]) for i in idx]


# --------------------------------------------------------------------------
# the check runner
# --------------------------------------------------------------------------
class Check:
    """Base class; a property module defines a subclass named `Prop`."""

    ID = "C00"
    LEAN_MODULE = None  # e.g. "TextxVerif.Props.C09"
    THEOREMS: list = []  # fully qualified theorem names audited
    DRIVER = None  # e.g. "Drivers/C09.lean"
    TRANSLATE = None  # callable regenerating Gen files, or None
    QUICK_CASES = 500
    THOROUGH_CASES = 20000
    RULE = ""
    MODELLED = ""  # what is hand-modelled / regenerated / not exhibited
    ASSUMPTIONS: list = []
    PROCS_QUICK = 4
    PROCS_THOROUGH = 16

    def corpus(self):
        """Fixed cases run first (finding witnesses, minimised past failures)."""
        d = os.path.join(VERIF, "corpus", self.ID)
        out = []
        if os.path.isdir(d):
            for fn in sorted(os.listdir(d)):
                if fn.endswith(".json"):
                    c = json.load(open(os.path.join(d, fn)))
                    c.setdefault("origin", "corpus:" + fn)
                    out.append(c)
        return out

    def gen(self, rng, n, tier):
        return []

    def impl(self, case):
        raise NotImplementedError

    def model_req(self, case, obs):
        return None

    def compare(self, case, obs, out):
        return None

    def oracle(self, case, obs):
        return None

    def nontrivial(self, case, obs):
        return True

    def classify(self, case, obs, failure):
        """Return the id of the open known finding this failure belongs to, or None."""
        return None

    def shrink(self, case):
        return []

    def sample_view(self, case, obs):
        return {"case": case, "impl": obs}

    def extra_search(self, rng, tier, broken):
        """More cases for the failing-input search when an obligation broke."""
        return []


class CaseTimeout(BaseException):
    pass


def _on_alarm(signum, frame):
    raise CaseTimeout()


def _impl_safe(chk, case, factor=1, _again=True):
    """Run chk.impl(case) under a wall-clock limit (a hanging implementation must
    not hang the check) and turn unexpected exceptions into a visible observation."""
    import signal

    import resource

    limit = int(getattr(chk, "CASE_TIMEOUT", 30)) * factor
    old = signal.signal(signal.SIGALRM, _on_alarm)
    signal.alarm(limit)
    soft, hard = resource.getrlimit(resource.RLIMIT_AS)
    try:  # a runaway case must not take the machine down (soft limit only: Lean subprocesses need more)
        resource.setrlimit(resource.RLIMIT_AS, (int(os.environ.get("VERIF_MEM_GB", "6")) << 30, hard))
    except Exception:
        pass
    try:
        return chk.impl(case)
    except CaseTimeout:
        return {"__crash__": f"timeout: the implementation did not finish this case within {limit}s"}
    except MemoryError:
        return {"__crash__": "MemoryError: the implementation exhausted the address-space limit on this case"}
    except Exception as e:  # harness bug or unexpected impl crash: keep it visible
        return {"__crash__": f"{type(e).__name__}: {e}", "tb": traceback.format_exc()[-1500:]}
    except BaseException as e:  # e.g. a time-limit exception of a property module raised outside its own try block
        if type(e) in (KeyboardInterrupt, SystemExit):
            raise
        if _again and type(e).__name__ in ("_CpuTimeout", "_Timeout", "_Limit", "Watchdog"):
            # a per-parse time limit of the property module fired in the instant between the end of the guarded call
            # and the disarming of its timer: nothing was observed wrongly, run the case again
            signal.alarm(0)
            return _impl_safe(chk, case, factor, _again=False)
        return {"__crash__": f"{type(e).__name__} (not an Exception) escaped from the case", "tb": traceback.format_exc()[-1500:]}
    finally:
        signal.alarm(0)
        signal.signal(signal.SIGALRM, old)
        try:
            resource.setrlimit(resource.RLIMIT_AS, (soft, hard))
        except Exception:
            pass


def run_check(chk: Check, tier="quick", seed=0, replay=None):
    t0 = time.time()
    use_repo()
    prop = chk.ID
    rng = Rng(f"{seed}:{prop}")
    findings = load_findings(prop)
    open_ids = {f["id"] for f in findings if f.get("status") == "open"}
    problems = []  # broken obligations / ties (strings)
    violations = []  # dicts for replay files
    known_hits = {}

    # 1. obligations -------------------------------------------------------
    axioms = {}
    leanchecker = None
    build_ok = True
    if chk.LEAN_MODULE:
        ok, log = lean_build(chk.LEAN_MODULE, chk.TRANSLATE, chk.DRIVER)
        if not ok:
            build_ok = False
            problems.append({"kind": "obligation", "what": f"lake build {chk.LEAN_MODULE} failed", "log": log[-4000:]})
        else:
            axioms, probs = lean_audit(chk.LEAN_MODULE, chk.THEOREMS)
            for p in probs:
                problems.append({"kind": "obligation", "what": p})
            if tier == "thorough" and not replay:
                # independent re-check of the compiled proofs by Lean's external checker
                rc, out, err = sh(["lake", "env", "leanchecker", chk.LEAN_MODULE], cwd=LEAN_DIR, timeout=3600)
                leanchecker = {"exit": rc, "output": (out + err)[-500:]}
                if rc != 0:
                    problems.append({"kind": "obligation", "what": f"leanchecker rejected {chk.LEAN_MODULE}", "log": (out + err)[-2000:]})
    obligations = len(chk.THEOREMS)
    discharged = len([t for t in chk.THEOREMS if t in axioms and set(axioms[t]) <= ALLOWED_AXIOMS]) if build_ok else 0

    # 2. cases -------------------------------------------------------------
    if replay:
        rp = json.load(open(replay))
        cases = [rp["case"]] if "case" in rp else []
    else:
        n = chk.QUICK_CASES if tier == "quick" else chk.THOROUGH_CASES
        cases = chk.corpus() + list(chk.gen(rng.fork("gen"), n, tier))
    procs = chk.PROCS_QUICK if tier == "quick" else chk.PROCS_THOROUGH
    obs = parallel_map(lambda c: _impl_safe(chk, c), cases, procs)
    # a time-out on a loaded machine is not a property failure: retry alone with a 6x limit
    for i, o in enumerate(obs):
        if isinstance(o, dict) and str(o.get("__crash__", "")).startswith("timeout"):
            obs[i] = _impl_safe(chk, cases[i], factor=6)

    # 3. correspondence ------------------------------------------------------
    disagreements = []
    model_outs = [None] * len(cases)
    if chk.DRIVER and build_ok:
        reqs, idx = [], []
        for i, (c, o) in enumerate(zip(cases, obs)):
            if isinstance(o, dict) and "__crash__" in o:
                continue
            r = chk.model_req(c, o)
            if r is not None:
                reqs.append(r)
                idx.append(i)
        try:
            outs = run_driver_sharded(chk.DRIVER, reqs, shards=procs)
        except InfraError:
            # everything the driver imports was built successfully above: a driver that still does not
            # run is an infrastructure problem (exit 2), not a verdict about the property
            raise
        if outs is not None:
            for i, o in zip(idx, outs):
                model_outs[i] = o
                d = chk.compare(cases[i], obs[i], o)
                if d:
                    disagreements.append((i, d))

    # 4. direct oracle -------------------------------------------------------
    failures = []
    for i, (c, o) in enumerate(zip(cases, obs)):
        if isinstance(o, dict) and "__crash__" in o:
            failures.append((i, "implementation harness crashed: " + o["__crash__"]))
            continue
        f = chk.oracle(c, o)
        if f:
            failures.append((i, f))

    def handle_failure(i, what, kind):
        c, o = cases[i], obs[i]
        fid = chk.classify(c, o, what)
        if fid is not None and fid in open_ids:
            known_hits.setdefault(fid, []).append(i)
            return
        violations.append({"property": prop, "kind": kind, "what": what, "case": c, "impl": o,
                           "model": model_outs[i], "seed": seed, "tier": tier})

    for i, f in failures:
        handle_failure(i, f, "property-failure-on-implementation")
    failing_idx = {i for i, _ in failures}
    for i, d in disagreements:
        if i in failing_idx:
            continue
        fid = chk.classify(cases[i], obs[i], d)
        if fid is not None and fid in open_ids:
            known_hits.setdefault(fid, []).append(i)
            continue
        problems.append({"kind": "correspondence", "what": d, "case": cases[i], "impl": obs[i], "model": model_outs[i]})

    # 5. failing-input search when something is broken but no input fails ----
    if problems and not violations and not replay:
        # bounded in wall-clock time (quick: 4 min, thorough: 30 min); a search that runs out of time ends
        # like one that finds nothing: the violation is still reported, with no-failing-input-found
        deadline = time.time() + float(os.environ.get("VERIF_SEARCH_SECS", "240" if tier == "quick" else "1800"))
        chunk, searched = [], 0
        gen = iter(chk.extra_search(rng.fork("search"), tier, problems))
        done = False
        while not done and not violations and time.time() < deadline:
            chunk = []
            for c in gen:
                chunk.append(c)
                if len(chunk) >= max(64, 4 * procs):
                    break
            else:
                done = True
            if not chunk:
                break
            searched += len(chunk)
            eobs = parallel_map(lambda c: _impl_safe(chk, c), chunk, procs)
            for c, o in zip(chunk, eobs):
                if isinstance(o, dict) and "__crash__" in o:
                    continue
                f = chk.oracle(c, o)
                if f:
                    fid = chk.classify(c, o, f)
                    if fid is not None and fid in open_ids:
                        continue
                    violations.append({"property": prop, "kind": "property-failure-on-implementation(search)",
                                       "what": f, "case": c, "impl": o, "seed": seed, "tier": tier})
                    break

    # shrink the first concrete violation
    if violations and "case" in violations[0]:
        v = violations[0]
        cur = v["case"]
        budget = 200
        progress = True
        while progress and budget > 0:
            progress = False
            for cand in chk.shrink(cur):
                budget -= 1
                o = _impl_safe(chk, cand)
                if isinstance(o, dict) and "__crash__" in o:
                    continue
                f = chk.oracle(cand, o)
                if f and chk.classify(cand, o, f) not in open_ids:
                    cur, progress = cand, True
                    v.update(case=cand, impl=o, what=f, shrunk=True, model=None)
                    break
                if budget <= 0:
                    break

    # 6. verdict -------------------------------------------------------------
    lines = []
    rdir = os.path.join(VERIF, "replays", prop)
    exit_code = 0
    for fid, idxs in sorted(known_hits.items()):
        f = next(x for x in findings if x["id"] == fid)
        lines.append(f"KNOWN-FINDING: property={prop} {fid}: {f['what']} ({len(idxs)} case(s) this run)")
    # open findings whose witness is in the corpus are always reported
    for f in findings:
        if f.get("status") == "open" and f["id"] not in known_hits:
            lines.append(f"KNOWN-FINDING: property={prop} {f['id']}: {f['what']} (witness not exercised this run)")
    if violations:
        exit_code = 1
        for k, v in enumerate(violations[:5]):
            path = os.path.join(rdir, f"{tier}-seed{seed}-{k}.json")
            v["broken"] = [p["what"] for p in problems][:5]
            write_json(path, v)
            lines.append(f"VIOLATION property={prop} replay={os.path.relpath(path, VERIF)}")
    elif problems:
        exit_code = 1
        path = os.path.join(rdir, f"{tier}-seed{seed}-broken.json")
        write_json(path, {"property": prop, "kind": "broken-obligation-or-correspondence",
                          "broken": problems[:10], "theorems": chk.THEOREMS, "seed": seed, "tier": tier,
                          "case": problems[0].get("case")})
        lines.append(f"VIOLATION property={prop} replay={os.path.relpath(path, VERIF)} no-failing-input-found")

    # 7. evidence ------------------------------------------------------------
    nontriv = set()
    for c, o in zip(cases, obs):
        if isinstance(o, dict) and "__crash__" in o:
            continue
        try:
            if chk.nontrivial(c, o):
                nontriv.add(canon(c))
        except Exception:
            pass
    samples = []
    def _view(c, o):
        try:
            return chk.sample_view(c, o)
        except Exception:  # e.g. the observation is a crash record
            return {"case": c, "impl": o}

    for c, o in list(zip(cases, obs))[: 3]:
        samples.append(_view(c, o))
    if len(cases) > 6:
        for c, o in list(zip(cases, obs))[-2:]:
            samples.append(_view(c, o))
    ev = {
        "property_id": prop,
        "tier": tier,
        "seed": int(seed),
        "level": "proof",
        "coverage": {
            "obligations": obligations,
            "discharged": discharged,
            "checker_cmd": f"cd lean && lake build {chk.LEAN_MODULE} && lake env lean .lake/audit/{(chk.LEAN_MODULE or '').replace('.', '_')}.lean  (#print axioms per theorem)",
            "trusted_base": TRUSTED_BASE + ([chk.MODELLED] if chk.MODELLED else []),
            "theorems": {t: axioms.get(t) for t in chk.THEOREMS},
            "evaluations": len(cases),
            "distinct_nontrivial": len(nontriv),
            "rule": chk.RULE,
            "samples": samples,
            "model_requests": sum(1 for m in model_outs if m is not None),
            "disagreements_checked": len(disagreements),
            "oracle_failures": len(failures),
            "known_findings_hit": {k: len(v) for k, v in known_hits.items()},
            "broken": [p["what"] for p in problems][:10],
            "repo": REPO,
            "leanchecker": leanchecker,
        },
        "assumptions": list(chk.ASSUMPTIONS),
        "wall_s": round(time.time() - t0, 2),
        "violations": len(violations) + (1 if (problems and not violations) else 0),
    }
    if hasattr(chk, "extra_evidence"):
        try:
            ev["coverage"].update(chk.extra_evidence(cases, obs, model_outs))
        except Exception as e:
            ev["coverage"]["extra_evidence_error"] = str(e)
    cov = ev["coverage"]
    if "exhaustive" in cov and not isinstance(cov["exhaustive"], bool):  # schema: boolean
        cov["exhaustive_detail"] = cov["exhaustive"]
        cov["exhaustive"] = False
    if not replay:
        write_json(os.path.join(VERIF, "evidence", f"{prop}.json"), ev)
    for l in lines:
        print(l)
    print(f"{prop} {tier} seed={seed}: cases={len(cases)} nontrivial={len(nontriv)} theorems={discharged}/{obligations} "
          f"disagreements={len(disagreements)} oracle_failures={len(failures)} known={sum(len(v) for v in known_hits.values())} "
          f"-> exit {exit_code} ({ev['wall_s']}s)")
    return exit_code


def main(argv):
    import argparse

    ap = argparse.ArgumentParser()
    ap.add_argument("prop")
    ap.add_argument("tier", nargs="?", default=os.environ.get("VERIF_TIER", "quick"))
    ap.add_argument("--replay")
    a = ap.parse_args(argv)
    seed = int(os.environ.get("VERIF_SEED", "0") or 0)
    sys.path.insert(0, VERIF)

    try:
        mod = importlib.import_module(f"harness.props.{a.prop.lower()}")
        return run_check(mod.Prop(), a.tier, seed, a.replay)
    except subprocess.TimeoutExpired as e:
        print(f"INFRA: timeout {e}", file=sys.stderr)
        return 2
    except InfraError as e:
        print(f"INFRA: {e}", file=sys.stderr)
        return 2
    except Exception:
        print("INFRA: harness error\n" + traceback.format_exc(), file=sys.stderr)
        return 2
