"""Independent checkers used by the C29 oracle (plain Python, no model):

* `parse_dot(text)`   — the DOT language as specified in the Graphviz documentation
  (lexer: comments, identifiers, numerals, double-quoted strings with `+`
  concatenation, HTML strings; parser: the abstract grammar of dot(1)) ->
  `Graph` with nodes, edges and subgraphs, or `DotError`.
* `record_ok(label)`  — Graphviz' `parse_reclbl` for `shape=record` labels.
* `html_label_ok(s)`  — an HTML-like label must be well-formed XML.
* `check_puml(text)`  — balance of a PlantUML class diagram, declared classes.
"""
import re


class DotError(Exception):
    pass


KEYWORDS = {"node", "edge", "graph", "digraph", "subgraph", "strict"}
COMPASS = {"n", "ne", "e", "se", "s", "sw", "w", "nw", "c", "_"}

_ID_RE = re.compile(r"[A-Za-z_\u0080-\U0010ffff][A-Za-z_0-9\u0080-\U0010ffff]*")
_NUM_RE = re.compile(r"-?(\.[0-9]+|[0-9]+(\.[0-9]*)?)")


def lex_dot(text):
    """-> list of (kind, value); kinds: id num qstr html kw punct"""
    toks = []
    i, n = 0, len(text)
    bol = True
    while i < n:
        c = text[i]
        if c == "\n":
            bol = True
            i += 1
            continue
        if c in " \t\r\f\v":
            i += 1
            continue
        if c == "#" and bol:
            j = text.find("\n", i)
            i = n if j < 0 else j
            continue
        bol = False
        if text.startswith("/*", i):
            j = text.find("*/", i + 2)
            if j < 0:
                raise DotError("unterminated comment")
            i = j + 2
            continue
        if text.startswith("//", i):
            j = text.find("\n", i)
            i = n if j < 0 else j
            continue
        if c == '"':
            j = i + 1
            buf = []
            while True:
                if j >= n:
                    raise DotError("unterminated string")
                d = text[j]
                if d == "\\" and j + 1 < n:
                    buf.append(text[j : j + 2])
                    j += 2
                    continue
                if d == '"':
                    break
                buf.append(d)
                j += 1
            toks.append(("qstr", "".join(buf)))
            i = j + 1
            continue
        if c == "<":
            depth, j = 1, i + 1
            while j < n and depth > 0:
                if text[j] == "<":
                    depth += 1
                elif text[j] == ">":
                    depth -= 1
                j += 1
            if depth:
                raise DotError("unterminated HTML string")
            toks.append(("html", text[i + 1 : j - 1]))
            i = j
            continue
        if text.startswith("->", i) or text.startswith("--", i):
            toks.append(("punct", text[i : i + 2]))
            i += 2
            continue
        m = _NUM_RE.match(text, i)
        if m and m.group(0) not in ("-",):
            toks.append(("num", m.group(0)))
            i = m.end()
            # "12ab" is lexed by Graphviz as two tokens with a warning: reject
            if i < n and _ID_RE.match(text, i):
                raise DotError("identifier glued to a numeral")
            continue
        m = _ID_RE.match(text, i)
        if m:
            w = m.group(0)
            toks.append(("kw", w.lower()) if w.lower() in KEYWORDS else ("id", w))
            i = m.end()
            continue
        if c in "{}[]=,;:+":
            toks.append(("punct", c))
            i += 1
            continue
        raise DotError(f"unexpected character {c!r} at offset {i}")
    return toks


class Graph:
    def __init__(self):
        self.directed = True
        self.nodes = {}  # (kind, id) -> {"attrs": {...}, "stmts": n}
        self.node_stmts = []  # ids of node statements in order
        self.edges = []  # ((kind,id), (kind,id), attrs)
        self.subgraphs = []  # names
        self.graph_attrs = {}


class _P:
    def __init__(self, toks):
        self.t = toks
        self.i = 0
        self.g = Graph()

    def peek(self, k=0):
        return self.t[self.i + k] if self.i + k < len(self.t) else ("eof", None)

    def next(self):
        tok = self.peek()
        self.i += 1
        return tok

    def accept(self, kind, val=None):
        k, v = self.peek()
        if k == kind and (val is None or v == val):
            self.i += 1
            return True
        return False

    def expect(self, kind, val=None):
        k, v = self.peek()
        if not self.accept(kind, val):
            raise DotError(f"expected {val or kind}, found {v!r} ({k}) at token {self.i}")
        return v

    def is_id(self, tok=None):
        return (tok or self.peek())[0] in ("id", "num", "qstr", "html")

    def ident(self):
        k, v = self.peek()
        if k not in ("id", "num", "qstr", "html"):
            raise DotError(f"expected an ID, found {v!r} ({k}) at token {self.i}")
        self.i += 1
        if k == "qstr":
            while self.peek() == ("punct", "+"):
                self.i += 1
                k2, v2 = self.next()
                if k2 != "qstr":
                    raise DotError("'+' must join quoted strings")
                v += v2
        return (k, v)

    def graph(self):
        self.accept("kw", "strict")
        k, v = self.next()
        if k != "kw" or v not in ("graph", "digraph"):
            raise DotError("expected graph or digraph")
        self.g.directed = v == "digraph"
        if self.is_id():
            self.ident()
        self.expect("punct", "{")
        self.stmt_list({"node": {}, "edge": {}, "graph": {}}, top=True)
        self.expect("punct", "}")
        if self.peek()[0] != "eof":
            raise DotError("text after the closing brace")
        return self.g

    def stmt_list(self, defaults, top=False):
        while True:
            k, v = self.peek()
            if (k, v) == ("punct", "}") or k == "eof":
                return
            self.stmt(defaults, top)
            self.accept("punct", ";")

    def attr_list(self):
        attrs = {}
        if self.peek() != ("punct", "["):
            raise DotError("expected [")
        while self.accept("punct", "["):
            while self.peek() != ("punct", "]"):
                key = self.ident()
                self.expect("punct", "=")
                val = self.ident()
                attrs[key[1]] = val
                if not self.accept("punct", ";"):
                    self.accept("punct", ",")
            self.expect("punct", "]")
        return attrs

    def node_id(self):
        i = self.ident()
        if self.accept("punct", ":"):
            self.ident()
            if self.accept("punct", ":"):
                k, v = self.ident()
                if v not in COMPASS:
                    raise DotError("bad compass point")
        return i

    def subgraph(self, defaults):
        name = None
        if self.accept("kw", "subgraph") and self.is_id():
            name = self.ident()
        self.expect("punct", "{")
        self.g.subgraphs.append(name)
        inner = {k: dict(v) for k, v in defaults.items()}
        self.stmt_list(inner)
        self.expect("punct", "}")
        return ("sub", name)

    def touch(self, nid, defaults):
        if nid not in self.g.nodes:
            self.g.nodes[nid] = {"attrs": dict(defaults["node"]), "stmts": 0}
        return self.g.nodes[nid]

    def stmt(self, defaults, top):
        k, v = self.peek()
        if k == "kw" and v in ("node", "edge", "graph"):
            self.i += 1
            defaults[v].update(self.attr_list())
            return
        if (k == "kw" and v == "subgraph") or (k, v) == ("punct", "{"):
            left = self.subgraph(defaults)
        elif self.is_id():
            if self.peek(1) == ("punct", "="):
                key = self.ident()
                self.expect("punct", "=")
                val = self.ident()
                if top:
                    self.g.graph_attrs[key[1]] = val
                return
            left = self.node_id()
        else:
            raise DotError(f"unexpected {v!r} ({k}) at token {self.i}")
        ends = [left]
        while self.peek() in (("punct", "->"), ("punct", "--")):
            op = self.next()[1]
            if (op == "->") != self.g.directed:
                raise DotError("wrong edge operator for this kind of graph")
            k, v = self.peek()
            if (k == "kw" and v == "subgraph") or (k, v) == ("punct", "{"):
                ends.append(self.subgraph(defaults))
            else:
                ends.append(self.node_id())
        if len(ends) > 1:
            attrs = dict(defaults["edge"])
            if self.peek() == ("punct", "["):
                attrs.update(self.attr_list())
            for e in ends:
                if e[0] != "sub":
                    self.touch(e, defaults)
            for a, b in zip(ends, ends[1:]):
                self.g.edges.append((a, b, attrs))
            return
        if left[0] == "sub":
            return
        node = self.touch(left, defaults)
        node["stmts"] += 1
        self.g.node_stmts.append(left)
        if self.peek() == ("punct", "["):
            node["attrs"].update(self.attr_list())


def parse_dot(text):
    return _P(lex_dot(text)).graph()


# --------------------------------------------------------------------------
# record labels (lib/common/shapes.c parse_reclbl)
# --------------------------------------------------------------------------
def unquote(raw):
    """what the DOT scanner stores for the raw content of a quoted string: `\\"` -> `"`,
    backslash-newline removed, everything else (also `\\\\`) kept"""
    out = []
    i = 0
    while i < len(raw):
        if raw[i] == "\\" and i + 1 < len(raw):
            if raw[i + 1] == '"':
                out.append('"')
            elif raw[i + 1] == "\n":
                pass
            else:
                out.append(raw[i : i + 2])
            i += 2
        else:
            out.append(raw[i])
            i += 1
    return "".join(out)


def record_fields(label):
    """Parse a record label (after `unquote`); returns the nested field structure
    (list of str | list) or raises DotError."""
    pos = [0]
    n = len(label)

    def parse(top):
        fields = []
        text = []
        has_text = has_port = in_port = has_table = False
        sub = None

        def close_field():
            nonlocal text, has_text, has_port, in_port, has_table, sub
            if in_port:
                raise DotError("record: unterminated port")
            fields.append(sub if sub is not None else "".join(text))
            text, sub = [], None
            has_text = has_port = has_table = False

        while True:
            if pos[0] >= n:
                if not top:
                    raise DotError("record: missing }")
                close_field()
                return fields
            c = label[pos[0]]
            if c == "\\":
                if pos[0] + 1 < n:
                    nxt = label[pos[0] + 1]
                    if has_table:
                        raise DotError("record: text after }")
                    text.append(nxt if nxt in '{}|<> \\' else "\\" + nxt)
                    has_text = True
                    pos[0] += 2
                    continue
                raise DotError("record: dangling backslash")
            if c == "{":
                if has_text or has_port or in_port or has_table or sub is not None:
                    raise DotError("record: { after text")
                pos[0] += 1
                sub = parse(False)
                has_table = True
                continue
            if c == "}":
                if top:
                    raise DotError("record: unbalanced }")
                close_field()
                pos[0] += 1
                return fields
            if c == "|":
                close_field()
                pos[0] += 1
                continue
            if c == "<":
                if has_table or has_port or in_port:
                    raise DotError("record: bad port")
                in_port = has_port = True
                pos[0] += 1
                continue
            if c == ">":
                if not in_port:
                    raise DotError("record: > without <")
                in_port = False
                pos[0] += 1
                continue
            if c == " ":
                if not has_table and not in_port:
                    text.append(c)
                pos[0] += 1
                continue
            if has_table:
                raise DotError("record: text after }")
            if not in_port:
                text.append(c)
                has_text = True
            pos[0] += 1

    return parse(True)


def record_ok(raw):
    try:
        record_fields(unquote(raw))
        return None
    except DotError as e:
        return str(e)


def html_label_ok(s):
    import xml.etree.ElementTree as ET

    try:
        ET.fromstring("<label>" + s + "</label>")
        return None
    except ET.ParseError as e:
        return f"HTML label is not well-formed: {e}"


def check_dot(text):
    """Everything the oracle demands of a DOT export: parses; every node label is a
    well-formed record (or HTML label).  Returns (Graph|None, problem|None)."""
    try:
        g = parse_dot(text)
    except DotError as e:
        return None, f"not valid DOT: {e}"
    for nid, node in g.nodes.items():
        shape = node["attrs"].get("shape", ("id", "ellipse"))[1]
        lab = node["attrs"].get("label")
        if lab is None:
            continue
        if lab[0] == "html":
            p = html_label_ok(lab[1])
            if p:
                return g, f"node {nid[1]!r}: {p}"
        elif shape in ("record", "Mrecord") and lab[0] == "qstr":
            p = record_ok(lab[1])
            if p:
                return g, f"node {nid[1]!r}: bad record label {lab[1]!r}: {p}"
    return g, None


# --------------------------------------------------------------------------
# PlantUML
# --------------------------------------------------------------------------
def check_puml(text):
    """-> (declared class names | None, problem | None).  Balanced means: starts with
    @startuml, ends with @enduml, every `class X {` is closed by a `}` line before the
    next declaration, no other braces outside the legend, `legend`/`end legend` paired."""
    lines = text.split("\n")
    if lines and lines[-1] == "":
        lines.pop()
    state = "u0"
    classes = []
    for ln, l in enumerate(lines, 1):
        if state == "u0":
            if l.strip() == "":
                continue
            if l != "@startuml":
                return None, f"line {ln}: expected @startuml"
            state = "top"
        elif state == "top":
            if l == "@enduml":
                state = "done"
            elif l == "legend":
                state = "legend"
            elif l.startswith("class "):
                m = re.fullmatch(r"class (\S+) (<<\w+>>)? \{", l)
                if not m:
                    return None, f"line {ln}: malformed class declaration {l!r}"
                classes.append(m.group(1))
                state = "class"
            elif "{" in l or "}" in l:
                return None, f"line {ln}: brace outside a class body: {l!r}"
        elif state == "class":
            if l == "}":
                state = "top"
            elif "{" in l or "}" in l:
                return None, f"line {ln}: brace inside a class body: {l!r}"
            elif l.startswith("class ") or l.startswith("@") or l == "legend":
                return None, f"line {ln}: class body not closed before {l!r}"
        elif state == "legend":
            if l == "end legend":
                state = "top"
            elif l == "@enduml" or l == "legend":
                return None, f"line {ln}: legend not closed"
        elif state == "done":
            if l.strip():
                return None, f"line {ln}: text after @enduml"
    if state != "done":
        return None, f"document ends in state {state!r} (unbalanced)"
    return classes, None
