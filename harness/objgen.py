"""Grammar / model generator shared by the C05 and C06 checks.

A *case* is JSON: {"gram": grammar AST, "tree": derivation of the root rule,
"layout": separators between the tokens, "file": bool, ...}.  Grammar text, input
text, token offsets and the *expected* object tree (containment structure, names,
reference targets, first/last token of every object) are recomputed from it
deterministically; nothing of textX is consulted for the expectation.

Grammar family (all choices LL(1) by construction so the derivation is the parse):
  common rules   C<i>: [lead=C<j>] '@kw' [name=ID] elements... [';'|bare trailing child]
  abstract rules A<i>: alternatives = rule references, optionally decorated 'pre' R 'post' and /
                 or with calls of match rules of their own around the reference (D<i>: keyword |
                 keyword keyword | keyword / keyword keyword): 'pre' D1 R D2 'post' — a match-rule
                 NonTerminal before the common rule in one alternative, alternatives made of
                 match-rule calls only,
                 (common / abstract with larger index / match rule), disjoint FIRST sets
  match rules    M<i>: keyword | keyword keyword | /%[a-z]+/
  elements       keyword, flag ?=, primitive attrs (INT STRING ID BOOL match rule; one/opt/list),
                 containment (one, opt, * + with and without separator, repeated group,
                 two plain assignments), multi-typed containment (`mcont`, see multi_type: one attribute
                 assigned from several rules / base types in alternatives, in sequence or in several
                 lists — its meta-class is the generic OBJECT), references (opt, lists) to common or abstract
                 rules (default scope provider, globally unique names, also pointing
                 up the tree), unassigned common-rule call (object that is in no attribute),
                 unassigned match-rule call
  user classes   for some common rules (three flavours of __init__); with want_traits also
                 "traits": special methods that textX has to tolerate on model objects (TRAITS):
                 always falsy, container-like (__len__ = number of items in the list
                 attributes, so empty instances are falsy), iterable, unhashable
"""
import os
import shutil
import tempfile

from harness.core import use_repo

LETTERS = "abcdefghijklmnopqrstuvwxyz"
KW2 = [a + b for a in LETTERS for b in LETTERS]
BRACKETS = [("{", "}"), ("(", ")"), ("[", "]"), ("<", ">")]
LISTSEPS = [",", ";", "|"]
WS_SEPS = [" ", "  ", "\n", "\t", "\r\n", "\n\n   ", "\r", " \t "]
CM_SEPS = [" // c\n", " /* c */ ", "/* a\n b */", "//x\n//y\n ", "/**/", "\n// é中 /* \n\t", "/* // */"]
COMMENT_RULE = "Comment: /\\/\\/.*?$/ | /\\/\\*(.|\\n)*?\\*\\//;"


# --------------------------------------------------------------------------
# grammar generation
# --------------------------------------------------------------------------
class _Kw:
    def __init__(self):
        self.n = 0

    def new(self):
        k = "@" + KW2[self.n]
        self.n += 1
        return k


# special-method traits of user classes (any subset; see make_user_class)
TRAITS = ["falsy", "len", "iter", "nohash"]


def gen_traits(rng):
    """a non-trivial mix: half of the user classes are plain, the others get 1-3 traits"""
    if rng.chance(0.4):
        return []
    k = rng.weighted([(1, 5), (2, 3), (3, 1)])
    return sorted(rng.sample(TRAITS, k))


def _plan_decorations(d, rules, abstracts):
    """which alternatives of abstract rules get calls of dedicated match rules around their rule
    reference; every choice from the fork `d` (the main stream is what it was without decorations).
    Returns [(abstract rule, alternative index, 'mpre' | 'mpost', kind of match rule)]."""
    plan = []
    for a in abstracts:
        for i, alt in enumerate(rules[a]["alts"]):
            for side, p in (("mpre", 0.3), ("mpost", 0.2)):
                if d.chance(p):
                    plan.append((a, i, side, d.weighted([("seq", 5), ("kw", 2), ("choice", 3)])))
    return plan


def _apply_decorations(kw, rules, plan):
    """dedicated match rules D<i> (fresh keywords: no FIRST / FOLLOW conflicts); `seq` and `choice`
    leave a NonTerminal in the parse tree, `kw` a Terminal"""
    decos = []
    for a, i, side, kind in plan:
        if a not in rules or i >= len(rules[a]["alts"]):
            continue
        name = f"D{len(decos)}"
        alts = {"seq": [[kw.new(), kw.new()]], "kw": [[kw.new()]], "choice": [[kw.new()], [kw.new(), kw.new()]]}[kind]
        rules[name] = {"name": name, "kind": "match", "alts": alts}
        rules[a]["alts"][i][side] = name
        decos.append(name)
    return decos


def gen_grammar(rng, max_common=6, want_refs=True, want_user=True, want_traits=False, p_user=0.2, abs_deco=True):
    kw = _Kw()
    nc = rng.randint(2, max_common)
    na = rng.randint(0, 3)
    nm = rng.randint(0, 2)
    commons = [f"C{i}" for i in range(nc)]
    abstracts = [f"A{i}" for i in range(na)]
    matches = [f"M{i}" for i in range(nm)]
    rules = {}
    for m in matches:
        alts = []
        for _ in range(rng.randint(1, 3)):
            kind = rng.weighted([("kw", 4), ("seq", 2), ("re", 2)])
            if kind == "kw":
                alts.append([kw.new()])
            elif kind == "seq":
                alts.append([kw.new(), kw.new()])
            else:
                alts.append(["/%[a-z]+/"])
        # at most one regex alternative, kept last (a keyword never starts with '%')
        res = [a for a in alts if a[0].startswith("/")]
        alts = [a for a in alts if not a[0].startswith("/")] + res[:1]
        rules[m] = {"name": m, "kind": "match", "alts": alts}
    # common rule skeletons first (keyword, lead) so FIRST sets are known
    for i, c in enumerate(commons):
        r = {"name": c, "kind": "common", "kw": kw.new(), "elems": [], "user": None}
        if i > 0 and i < nc - 1 and rng.chance(0.2):
            r["lead"] = commons[rng.randint(i + 1, nc - 1)]
        rules[c] = r

    def first(name, seen=()):
        r = rules[name]
        if r["kind"] == "common":
            return first(r["lead"]) if r.get("lead") else {r["kw"]}
        if r["kind"] == "match":
            return {a[0] for a in r["alts"]}
        out = set()
        for a in r["alts"]:
            out |= {a["pre"]} if a.get("pre") else first(a["rule"])
        return out

    for i in reversed(range(na)):
        a = abstracts[i]
        cands = commons[1:] + abstracts[i + 1:] + matches
        cands = rng.shuffle(cands)
        alts, used, leaves = [], set(), set()
        for cnd in cands:
            if len(alts) >= rng.randint(2, 4):
                break
            alt = {"rule": cnd}
            if rules[cnd]["kind"] != "match" and rng.chance(0.25):
                alt["pre"] = kw.new()
                if rng.chance(0.7):
                    alt["post"] = kw.new()
            f = {alt["pre"]} if alt.get("pre") else first(cnd)
            lv = _leaves(rules, cnd)
            if f & used or lv & leaves:
                continue
            used |= f
            leaves |= lv
            alts.append(alt)
        if not any(rules[x["rule"]]["kind"] == "common" for x in alts):
            # an abstract rule needs a common rule somewhere below it to be abstract
            c = next((c for c in rng.shuffle(commons[1:]) if not (first(c) & used) and c not in leaves), None)
            if c is not None:
                alts.insert(0, {"rule": c})
        rules[a] = {"name": a, "kind": "abstract", "alts": alts}
    # drop abstract rules that ended up without a common alternative below them
    for a in list(abstracts):
        if not any(rules[l]["kind"] == "common" for l in _leaves(rules, a)):
            abstracts.remove(a)
            del rules[a]
            for b in abstracts:
                rules[b]["alts"] = [x for x in rules[b]["alts"] if x["rule"] != a]
    obj_targets = commons[1:] + abstracts
    prim_types = ["INT", "STRING", "ID", "BOOL"] + matches
    # a side stream seeded from the current state without drawing from `rng`
    deco_plan = _plan_decorations(type(rng)(f"{rng.s}:absdeco"), rules, abstracts) if abs_deco else []

    for i, c in enumerate(commons):
        r = rules[c]
        elems = []
        if r.get("lead"):
            elems.append({"k": "cont", "attr": "lead", "target": r["lead"], "mult": "one", "bare": True})
        elems.append({"k": "kw", "v": r["kw"]})
        if rng.chance(0.85 if i else 0.3):
            elems.append({"k": "name"})
        n_el = rng.randint(1, 4) if i == 0 else rng.randint(0, 4)
        for j in range(n_el):
            kind = rng.weighted([("cont", 10), ("ref", 5 if want_refs else 0), ("prim", 3), ("flag", 1),
                                 ("orphan", 1), ("matchcall", 1 if matches else 0), ("kw", 1)])
            if kind == "kw":
                elems.append({"k": "kw", "v": kw.new()})
            elif kind == "flag":
                elems.append({"k": "flag", "attr": f"f{j}", "kw": kw.new()})
            elif kind == "prim":
                br = rng.choice(BRACKETS)
                elems.append({"k": "prim", "attr": f"p{j}", "type": rng.choice(prim_types),
                              "mult": rng.weighted([("one", 3), ("opt", 2), ("star", 2)]), "kw": kw.new(),
                              "open": br[0], "close": br[1]})
            elif kind == "cont":
                br = rng.choice(BRACKETS)
                elems.append({"k": "cont", "attr": f"c{j}", "target": rng.choice(obj_targets),
                              "mult": rng.weighted([("one", 2), ("opt", 2), ("star", 4), ("plus", 2), ("starsep", 2),
                                                    ("plussep", 1), ("rep", 1), ("twice", 1)]),
                              "kw": kw.new(), "kw2": kw.new(), "open": br[0], "close": br[1],
                              "sep": rng.choice(LISTSEPS)})
            elif kind == "ref":
                br = rng.choice(BRACKETS)
                elems.append({"k": "ref", "attr": f"r{j}", "target": rng.choice(obj_targets),
                              "mult": rng.weighted([("opt", 3), ("star", 2), ("plus", 1), ("starsep", 1), ("plussep", 2)]),
                              "kw": kw.new(), "open": br[0], "close": br[1], "sep": rng.choice(LISTSEPS)})
            elif kind == "orphan":
                if i < nc - 1:
                    elems.append({"k": "orphan", "target": commons[rng.randint(i + 1, nc - 1)]})
            elif kind == "matchcall":
                elems.append({"k": "matchcall", "target": rng.choice(matches)})
        if i < nc - 1 and rng.chance(0.2):
            elems.append({"k": "cont", "attr": "tail", "target": commons[rng.randint(i + 1, nc - 1)], "mult": "one",
                          "bare": True})
        elif rng.chance(0.3):
            elems.append({"k": "kw", "v": ";"})
        r["elems"] = elems
        if want_user and rng.chance(p_user):
            r["user"] = rng.choice(["store", "child", "eq"])
            if want_traits:
                r["traits"] = gen_traits(rng)
    # keywords of the decorating match rules are drawn last: all other keywords are what they were
    decos = _apply_decorations(kw, rules, deco_plan)
    gram = {"rules": [rules[n] for n in commons + abstracts + matches + decos],
            "comment": rng.chance(0.75),
            "opts": {"auto_init_attributes": rng.chance(0.8), "memoization": rng.chance(0.2),
                     "textx_tools_support": rng.chance(0.15)}}
    _make_finite(gram)
    _normalize(gram)
    return gram


def fresh_kw(gram):
    """keyword source continuing after the keywords the grammar already uses"""
    import json
    import re

    used = set(re.findall(r"@([a-z][a-z])", json.dumps(gram)))
    kw = _Kw()
    kw.n = max((KW2.index(k) for k in used), default=-1) + 1
    return kw


def multi_type(rng, gram, p_elem=0.5):
    """Multi-typed containment attributes: some containment elements of the common rules become `mcont`
    elements — the *same attribute* assigned from several rules (common / abstract rules, match rules,
    base types; now and then the same rule twice), every assignment behind a keyword of its own:

      choice       (k1 a=T1 | k2 a=T2 | k3 a=INT)      single-valued
      choiceopt    (k1 a=T1 | k2 a=T2)?                 single-valued, optional
      choicerep    (k1 a=T1 | k2 a=T2)*                 list (assignment inside a repetition)
      seq          k1 a=T1 k2 a=T2                      list (assigned twice in one sequence)
      lists        k1 '[' a*=T1 ']' k2 '{' a+=T2[','] '}'   list filled by several list assignments
      choicelists  (k1 '[' a+=T1 ']' | k2 '{' a+=T2 '}')     list filled by one of several list assignments

    textX gives such an attribute the generic meta-class OBJECT when the types differ: what the meta-model
    says about the attribute's type no longer tells which classes the contained objects have.  All choices
    from `rng` (callers pass a side stream); returns the number of elements changed."""
    commons = [r for r in gram["rules"] if r["kind"] == "common"]
    objs = [r["name"] for r in commons[1:]] + [r["name"] for r in gram["rules"] if r["kind"] == "abstract"]
    prims = list(BASE_TYPES) + [r["name"] for r in gram["rules"] if r["kind"] == "match" and r["name"].startswith("M")]
    cands = [(r, i) for r in commons for i, e in enumerate(r["elems"]) if e["k"] == "cont" and not e.get("bare")]
    if not cands or not objs:
        return 0
    chosen = [c for c in cands if rng.chance(p_elem)] or [rng.choice(cands)]
    kw = fresh_kw(gram)
    for r, i in chosen:
        e = r["elems"][i]
        targets = [e["target"]]
        for _ in range(rng.weighted([(1, 5), (2, 3)])):
            kind = rng.weighted([("obj", 6), ("prim", 2), ("same", 1)])
            if kind == "same":
                targets.append(rng.choice(targets))
            elif kind == "prim":
                targets.append(rng.choice(prims))
            else:
                others = [t for t in objs if t not in targets]
                targets.append(rng.choice(others or objs))
        targets = rng.shuffle(targets)
        m = e["mult"]
        if m == "one":
            form = rng.weighted([("choice", 3), ("seq", 1)])
        elif m == "opt":
            form = "choiceopt"
        elif m in ("star", "starsep"):
            form = rng.weighted([("lists", 1), ("choicerep", 1)])
        elif m in ("plus", "plussep"):
            form = rng.weighted([("lists", 1), ("choicelists", 1)])
        else:
            form = "choicerep" if m == "rep" else "seq"
        alts = []
        for j, t in enumerate(targets):
            br = rng.choice(BRACKETS)
            if form == "choicelists" or (form == "lists" and j == 0 and m in ("plus", "plussep")):
                op = "+="
            else:
                op = rng.choice(["*=", "+="])
            alts.append({"kw": e["kw"] if j == 0 else kw.new(), "t": t, "op": op, "open": br[0], "close": br[1],
                         "sep": rng.choice([None, None] + LISTSEPS)})
        r["elems"][i] = {"k": "mcont", "attr": e["attr"], "form": form, "alts": alts}
    _make_finite(gram)
    _normalize(gram)
    return len(chosen)


def _open_ended(e):
    """an element that may match nothing or repeat: a rule must not end with it (an inner
    instance of the same rule would swallow the continuation of the outer one)"""
    if e["k"] in ("flag", "ref"):
        return True
    if e["k"] in ("prim", "cont"):
        return e["mult"] in ("opt", "rep")
    if e["k"] == "mcont":
        return e["form"] in ("choiceopt", "choicerep")
    return False


def _normalize(gram):
    for r in gram["rules"]:
        if r["kind"] != "common":
            continue
        elems = r["elems"]
        if not any(e["k"] in ("name", "flag", "prim", "cont", "mcont", "ref") for e in elems):
            i = next(j for j, e in enumerate(elems) if e["k"] == "kw")
            elems.insert(i + 1, {"k": "name"})
        if _open_ended(elems[-1]):
            elems.append({"k": "kw", "v": ";"})


def _leaves(rules, name):
    r = rules[name]
    if r["kind"] != "abstract":
        return {name}
    out = set()
    for a in r["alts"]:
        out |= _leaves(rules, a["rule"])
    return out


def rules_of(gram):
    return {r["name"]: r for r in gram["rules"]}


def _mindepth(gram):
    """least derivation depth per rule (None = no finite derivation)"""
    R = rules_of(gram)
    d = {n: (0 if r["kind"] == "match" else None) for n, r in R.items()}
    changed = True
    while changed:
        changed = False
        for n, r in R.items():
            if r["kind"] == "abstract":
                vals = [d[a["rule"]] for a in r["alts"] if d[a["rule"]] is not None]
                new = min(vals) if vals else None
            elif r["kind"] == "common":
                new = 0
                for e in r["elems"]:
                    if e["k"] == "orphan" or (e["k"] == "cont" and e["mult"] in ("one", "plus", "plussep", "twice")):
                        if d[e["target"]] is None:
                            new = None
                            break
                        new = max(new, d[e["target"]] + 1)
                    elif e["k"] == "mcont":
                        need = mcont_need(e, d)
                        if need is None:
                            new = None
                            break
                        new = max(new, need)
            else:
                continue
            if new is not None and (d[n] is None or new < d[n]):
                d[n] = new
                changed = True
    return d


BASE_TYPES = ("INT", "STRING", "ID", "BOOL")
MCONT_LIST_FORMS = ("choicerep", "seq", "lists", "choicelists")


def mcont_need(e, d):
    """least depth below a multi-typed containment element (None = no finite derivation);
    d = least derivation depth per rule"""
    def dep(a):
        if a["t"] in BASE_TYPES:
            return 0
        return None if d[a["t"]] is None else d[a["t"]] + 1

    deps = [dep(a) for a in e["alts"]]
    f = e["form"]
    if f in ("choiceopt", "choicerep"):
        return 0
    if f in ("choice", "choicelists"):
        ok = [x for x in deps if x is not None]
        return min(ok) if ok else None
    if f == "seq":
        return None if any(x is None for x in deps) else max(deps)
    need = 0  # lists: the parts written with += need an item
    for a, x in zip(e["alts"], deps):
        if a["op"] == "+=":
            if x is None:
                return None
            need = max(need, x)
    return need


def _mcont_weaker(e):
    """the same alternatives in a form that may stay empty"""
    if e["form"] == "choice":
        return dict(e, form="choiceopt")
    if e["form"] in ("seq", "choicelists"):
        return dict(e, form="choicerep")
    return dict(e, alts=[dict(a, op="*=") for a in e["alts"]])


def _make_finite(gram):
    weaker = {"one": "opt", "plus": "star", "plussep": "starsep", "twice": "rep"}
    for _ in range(50):
        d = _mindepth(gram)
        bad = [r for r in gram["rules"] if d[r["name"]] is None]
        if not bad:
            return
        for r in bad:
            if r["kind"] != "common":
                continue
            new = []
            for e in r["elems"]:
                if e["k"] == "cont" and e["mult"] in weaker and d[e["target"]] is None:
                    if e.get("bare"):
                        continue
                    e = dict(e, mult=weaker[e["mult"]])
                if e["k"] == "mcont" and mcont_need(e, d) is None:
                    e = _mcont_weaker(e)
                if e["k"] == "orphan" and d[e["target"]] is None:
                    continue
                new.append(e)
            r["elems"] = new
    raise AssertionError("grammar could not be made finite")


# --------------------------------------------------------------------------
# grammar text
# --------------------------------------------------------------------------
def q(s):
    return "'" + s.replace("\\", "\\\\").replace("'", "\\'") + "'"


def render_elem(e):
    k = e["k"]
    if k == "kw":
        return q(e["v"])
    if k == "name":
        return "name=ID"
    if k == "flag":
        return f"{e['attr']}?={q(e['kw'])}"
    if k == "orphan" or k == "matchcall":
        return e["target"]
    if k == "mcont":
        return render_mcont(e)
    a, t, m = e["attr"], e.get("target", e.get("type")), e["mult"]
    rhs = f"[{t}]" if k == "ref" else t
    if e.get("bare"):
        return f"{a}={rhs}"
    g, o, c = q(e["kw"]), q(e["open"]) if "open" in e else "", q(e["close"]) if "close" in e else ""
    if m == "one":
        s = f"{g} {a}={rhs}"
    elif m == "opt":
        s = f"({g} {a}={rhs})?"
        return s
    elif m == "star":
        s = f"{g} {o} {a}*={rhs} {c}"
    elif m == "plus":
        s = f"{g} {o} {a}+={rhs} {c}"
    elif m == "starsep":
        s = f"{g} {o} {a}*={rhs}[{q(e['sep'])}] {c}"
    elif m == "plussep":
        s = f"{g} {o} {a}+={rhs}[{q(e['sep'])}] {c}"
    elif m == "rep":
        return f"({g} {a}={rhs})*"
    elif m == "twice":
        s = f"{g} {a}={rhs} {q(e['kw2'])} {a}={rhs}"
    else:
        raise AssertionError(m)
    if k == "ref":
        return f"({s})?"
    return s


def render_mcont(e):
    """one attribute assigned from several rules (textX: attribute of the generic type OBJECT when
    the types differ); every alternative starts with a keyword of its own"""
    a, f = e["attr"], e["form"]
    if f in ("lists", "choicelists"):
        parts = []
        for x in e["alts"]:
            mod = f"[{q(x['sep'])}]" if x.get("sep") else ""
            parts.append(f"{q(x['kw'])} {q(x['open'])} {a}{x['op']}{x['t']}{mod} {q(x['close'])}")
        return " ".join(parts) if f == "lists" else "(" + " | ".join(parts) + ")"
    parts = [f"{q(x['kw'])} {a}={x['t']}" for x in e["alts"]]
    if f == "seq":
        return " ".join(parts)
    return "(" + " | ".join(parts) + ")" + {"choice": "", "choiceopt": "?", "choicerep": "*"}[f]


def render_grammar(gram):
    out = []
    for r in gram["rules"]:
        if r["kind"] == "common":
            out.append(f"{r['name']}: " + " ".join(render_elem(e) for e in r["elems"]) + ";")
        elif r["kind"] == "abstract":
            alts = []
            for a in r["alts"]:
                s = a["rule"]
                if a.get("mpre"):
                    s = a["mpre"] + " " + s
                if a.get("mpost"):
                    s = s + " " + a["mpost"]
                if a.get("pre"):
                    s = q(a["pre"]) + " " + s
                if a.get("post"):
                    s = s + " " + q(a["post"])
                alts.append(s)
            out.append(f"{r['name']}: " + " | ".join(alts) + ";")
        else:
            alts = [" ".join(x if x.startswith("/") else q(x) for x in a) for a in r["alts"]]
            out.append(f"{r['name']}: " + " | ".join(alts) + ";")
    if gram.get("comment"):
        out.append(COMMENT_RULE)
    return "\n".join(out) + "\n"


# --------------------------------------------------------------------------
# derivation
# --------------------------------------------------------------------------
class _Names:
    def __init__(self):
        self.n = 0

    def new(self, rng):
        self.n += 1
        return rng.weighted([("n", 8), ("é", 1), ("_x", 1), ("ж", 1)]) + str(self.n)


def derive(rng, gram, maxdepth=4):
    """derivation tree of the root rule, references filled in"""
    R = rules_of(gram)
    md = _mindepth(gram)
    names = _Names()

    budget = [40]

    def count(lo, depth):
        if depth >= maxdepth or budget[0] <= 0:
            return lo
        return lo + rng.weighted([(0, 4), (1, 4), (2, 3), (3, 1)])

    def mitems(e, depth):
        """items of a multi-typed containment element: [{"x": alternative, "v": value}]"""
        alts = e["alts"]
        stop = depth >= maxdepth or budget[0] <= 0

        def dep(i):
            t = alts[i]["t"]
            return 0 if t in BASE_TYPES else md[t]

        def item(i):
            return {"x": i, "v": value(alts[i]["t"], depth + 1)}

        def pick():
            idxs = [i for i in range(len(alts)) if dep(i) is not None]
            if stop:
                best = min(dep(i) for i in idxs)
                idxs = [i for i in idxs if dep(i) == best]
            return rng.choice(idxs)

        f = e["form"]
        if f in ("choiceopt", "choicerep") and all(dep(i) is None for i in range(len(alts))):
            return []
        if f == "choice":
            return [item(pick())]
        if f == "choiceopt":
            return [] if stop or rng.chance(0.3) else [item(pick())]
        if f == "choicerep":
            return [item(pick()) for _ in range(count(0, depth))]
        if f == "seq":
            return [item(i) for i in range(len(alts))]
        if f == "lists":
            out = []
            for i, a in enumerate(alts):
                lo = 1 if a["op"] == "+=" else 0
                n = lo if dep(i) is None else count(lo, depth)
                out.extend(item(i) for _ in range(n))
            return out
        i = pick()  # choicelists
        return [item(i) for _ in range(count(1, depth))]

    def value(T, depth):
        if T in BASE_TYPES:
            return {"m": T, "t": [prim_token(rng, R, T)]}
        r = R[T]
        if r["kind"] == "match":
            alt = rng.choice(r["alts"])
            toks = ["%" + "".join(rng.choice(LETTERS) for _ in range(rng.randint(1, 4))) if x.startswith("/") else x
                    for x in alt]
            return {"m": T, "t": toks}
        if r["kind"] == "abstract":
            idxs = list(range(len(r["alts"])))
            if depth >= maxdepth:
                best = min(md[r["alts"][i]["rule"]] for i in idxs)
                idxs = [i for i in idxs if md[r["alts"][i]["rule"]] == best]
            i = rng.choice(idxs)
            out = {"a": T, "i": i}
            for side in ("mpre", "mpost"):
                if r["alts"][i].get(side):
                    out[side] = value(r["alts"][i][side], depth)
            out["v"] = value(r["alts"][i]["rule"], depth)
            return out
        node = {"r": T, "n": None, "e": []}
        budget[0] -= 1
        for e in r["elems"]:
            k = e["k"]
            if k == "kw":
                node["e"].append(None)
            elif k == "name":
                node["n"] = names.new(rng)
                node["e"].append(None)
            elif k == "flag":
                node["e"].append(rng.chance(0.5))
            elif k == "matchcall":
                node["e"].append(value(e["target"], depth + 1))
            elif k == "orphan":
                node["e"].append(value(e["target"], depth + 1))
            elif k == "prim":
                n = {"one": 1, "opt": rng.below(2), "star": rng.below(4)}[e["mult"]]
                node["e"].append([prim_token(rng, R, e["type"]) for _ in range(n)])
            elif k == "cont":
                m = e["mult"]
                if m == "one":
                    n = 1
                elif m == "twice":
                    n = 2
                elif m == "opt":
                    n = 0 if depth >= maxdepth or budget[0] <= 0 else rng.below(2)
                elif m in ("plus", "plussep"):
                    n = count(1, depth)
                else:
                    n = count(0, depth)
                node["e"].append([value(e["target"], depth + 1) for _ in range(n)])
            elif k == "mcont":
                node["e"].append(mitems(e, depth))
            elif k == "ref":
                want = 1 if e["mult"] == "opt" else rng.randint(1, 3)
                node["e"].append({"want": want if rng.chance(0.7) else 0})
        return node

    tree = value(gram["rules"][0]["name"], 0)
    fill_refs(rng, gram, tree)
    return tree


def prim_token(rng, R, typ):
    if typ == "INT":
        return str(rng.randint(-9, 120))
    if typ == "ID":
        return "v" + str(rng.below(50))
    if typ == "BOOL":
        return rng.choice(["true", "false"])
    if typ == "STRING":
        return '"' + rng.choice(["", "a", "a b", "x // y", "/* z */", "q\\\"r", "é 中"]) + '"'
    r = R[typ]
    alt = rng.choice(r["alts"])
    return " ".join("%" + "".join(rng.choice(LETTERS) for _ in range(rng.randint(1, 3))) if x.startswith("/") else x
                    for x in alt)


def walk_nodes(gram, tree, contained_only=True):
    """yield (node, parent node or None, attr, in_orphan) for common-rule nodes, document order"""
    R = rules_of(gram)

    def unwrap(v):
        while "a" in v or "x" in v:
            v = v["v"]
        return v if "r" in v else None

    def rec(node, parent, attr, orphan):
        yield node, parent, attr, orphan
        for e, p in zip(R[node["r"]]["elems"], node["e"]):
            if e["k"] in ("cont", "mcont"):
                for v in p:
                    c = unwrap(v)
                    if c is not None:
                        yield from rec(c, node, e["attr"], orphan)
            elif e["k"] == "orphan" and not contained_only:
                c = unwrap(p)
                if c is not None:
                    yield from rec(c, node, None, True)

    yield from rec(tree, None, None, False)


def instances_of(gram, T):
    R = rules_of(gram)
    return {x for x in _leaves(R, T) if R[x]["kind"] == "common"}


def fill_refs(rng, gram, tree):
    R = rules_of(gram)
    named = {}
    for node, _, _, _ in walk_nodes(gram, tree):
        if node["n"] is not None:
            named.setdefault(node["r"], []).append(node["n"])
    for node, _, _, _ in walk_nodes(gram, tree, contained_only=False):
        for i, (e, p) in enumerate(zip(R[node["r"]]["elems"], node["e"])):
            if e["k"] == "ref" and isinstance(p, dict):
                cands = sorted(n for c in instances_of(gram, e["target"]) for n in named.get(c, []))
                k = p["want"] if cands else 0
                node["e"][i] = [rng.choice(cands) for _ in range(k)]


# --------------------------------------------------------------------------
# tokens, layout, expected object tree
# --------------------------------------------------------------------------
def tokens(gram, tree):
    """list of ("tok", text) / ("open", node) / ("close", node) in document order"""
    R = rules_of(gram)
    out = []

    def val(v):
        if "m" in v:
            for t in v["t"]:
                out.append(("tok", t))
        elif "a" in v:
            alt = R[v["a"]]["alts"][v["i"]]
            if alt.get("pre"):
                out.append(("tok", alt["pre"]))
            if alt.get("mpre"):
                val(v["mpre"])
            val(v["v"])
            if alt.get("mpost"):
                val(v["mpost"])
            if alt.get("post"):
                out.append(("tok", alt["post"]))
        else:
            node(v)

    def lst(e, items, emit):
        m = e["mult"]
        if e.get("bare"):
            emit(items[0])
            return
        if m == "rep":
            for it in items:
                out.append(("tok", e["kw"]))
                emit(it)
            return
        if m == "twice":
            out.append(("tok", e["kw"]))
            emit(items[0])
            out.append(("tok", e["kw2"]))
            emit(items[1])
            return
        if m == "opt" or (e["k"] == "ref"):
            if not items:
                return
        out.append(("tok", e["kw"]))
        if m in ("one", "opt"):
            emit(items[0])
            return
        out.append(("tok", e["open"]))
        for j, it in enumerate(items):
            if j and m in ("starsep", "plussep"):
                out.append(("tok", e["sep"]))
            emit(it)
        out.append(("tok", e["close"]))

    def node(n):
        out.append(("open", n))
        for e, p in zip(R[n["r"]]["elems"], n["e"]):
            k = e["k"]
            if k == "kw":
                out.append(("tok", e["v"]))
            elif k == "name":
                out.append(("tok", n["n"]))
            elif k == "flag":
                if p:
                    out.append(("tok", e["kw"]))
            elif k in ("matchcall", "orphan"):
                val(p)
            elif k == "prim":
                def emit_prim(t):
                    for piece in t.split(" ") if not t.startswith('"') else [t]:
                        out.append(("tok", piece))
                lst(e, p, emit_prim)
            elif k == "cont":
                lst(e, p, val)
            elif k == "mcont":
                if e["form"] in ("lists", "choicelists"):
                    parts = range(len(e["alts"])) if e["form"] == "lists" else sorted({it["x"] for it in p})
                    for i in parts:
                        a = e["alts"][i]
                        out.append(("tok", a["kw"]))
                        out.append(("tok", a["open"]))
                        for j, it in enumerate(x for x in p if x["x"] == i):
                            if j and a.get("sep"):
                                out.append(("tok", a["sep"]))
                            val(it["v"])
                        out.append(("tok", a["close"]))
                else:
                    for it in p:
                        out.append(("tok", e["alts"][it["x"]]["kw"]))
                        val(it["v"])
            elif k == "ref":
                lst(e, p, lambda t: out.append(("tok", t)))
        out.append(("close", n))

    val(tree)
    return out


def _wordch(c):
    return c.isalnum() or c == "_"


def gen_layout(rng, gram, ntoks, style=None):
    style = style or rng.weighted([("plain", 2), ("ws", 3), ("comments", 4), ("dense", 2)])
    seps = list(WS_SEPS) + (list(CM_SEPS) if gram.get("comment") else [])
    n = len(seps)

    def pick():
        if style == "plain":
            return 0
        if style == "ws":
            return rng.below(len(WS_SEPS))
        if style == "dense":
            return rng.weighted([(-1, 6), (0, 2), (rng.below(n), 2)])
        return rng.weighted([(0, 3), (rng.below(n), 5), (-1, 1)])

    def edge():
        if style == "plain":
            return None
        return rng.weighted([(None, 2), (rng.below(n), 5)])

    return {"lead": edge(), "trail": edge(), "seps": [pick() for _ in range(max(0, ntoks - 1))]}


def universal_newlines(s):
    return s.replace("\r\n", "\n").replace("\r", "\n")


def assemble(gram, toks, layout, translate=False):
    """text and [start, end) of every token; separator -1 = glued where lexically safe"""
    seps = list(WS_SEPS) + (list(CM_SEPS) if gram.get("comment") else [])
    tr = universal_newlines if translate else (lambda s: s)

    def sep(i):
        return tr(seps[i % len(seps)])

    parts, offs, pos = [], [], 0
    if layout.get("lead") is not None:
        s = sep(layout["lead"])
        parts.append(s)
        pos += len(s)
    prev = None
    for j, t in enumerate(toks):
        if j:
            i = layout["seps"][j - 1] if j - 1 < len(layout["seps"]) else 0
            if i == -1:
                s = " " if (_wordch(prev[-1]) and _wordch(t[0])) or (prev[-1] == "/" and t[0] in "/*") else ""
            else:
                s = sep(i)
            parts.append(s)
            pos += len(s)
        offs.append((pos, pos + len(t)))
        parts.append(t)
        pos += len(t)
        prev = t
    if layout.get("trail") is not None:
        parts.append(sep(layout["trail"]))
    return "".join(parts), offs


def expected(gram, tree, layout, translate=False):
    """(text, expected objects).  Expected objects: list indexed by eid (document order of the
    contained common-rule nodes), each {"eid","cls","name","span","parent","attrs":[[attr,kind,val]]}
    with kind in cont / ref / prim / flag and val = eids (cont), names (ref)."""
    R = rules_of(gram)
    evs = tokens(gram, tree)
    toks = [x[1] for x in evs if x[0] == "tok"]
    text, offs = assemble(gram, toks, layout, translate)
    span = {}
    stack, ti = [], 0
    for kind, x in evs:
        if kind == "tok":
            for fr in stack:
                if fr[1] is None:
                    fr[1] = offs[ti][0]
                fr[2] = offs[ti][1]
            ti += 1
        elif kind == "open":
            stack.append([x, None, None])
        else:
            fr = stack.pop()
            span[id(fr[0])] = (fr[1], fr[2])
    objs, eid = [], {}
    for node, parent, attr, _ in walk_nodes(gram, tree):
        eid[id(node)] = len(objs)
        objs.append({"eid": len(objs), "cls": node["r"], "name": node["n"], "span": list(span[id(node)]),
                     "parent": None if parent is None else eid[id(parent)], "attrs": []})

    def unwrap(v):
        while "a" in v or "x" in v:
            v = v["v"]
        return v

    for node, _, _, _ in walk_nodes(gram, tree):
        o = objs[eid[id(node)]]
        for e, p in zip(R[node["r"]]["elems"], node["e"]):
            if e["k"] in ("cont", "mcont"):
                vals = []
                for v in p:
                    u = unwrap(v)
                    vals.append(eid[id(u)] if "r" in u else None)
                many = e["form"] in MCONT_LIST_FORMS if e["k"] == "mcont" else e["mult"] not in ("one", "opt")
                o["attrs"].append([e["attr"], "cont", vals, many])
            elif e["k"] == "ref":
                o["attrs"].append([e["attr"], "ref", list(p), e["mult"] != "opt"])
    return text, objs


# --------------------------------------------------------------------------
# running the real code
# --------------------------------------------------------------------------
def list_attrs(rule):
    """names of the list-valued containment attributes of a common rule (from the grammar AST):
    lists of objects / match-rule values and lists of primitives (textX: cont and mult * / +);
    lists of references are not containment"""
    out = []
    for e in rule["elems"]:
        if (e["k"] == "cont" and e["mult"] not in ("one", "opt")) or (e["k"] == "prim" and e["mult"] == "star") \
                or (e["k"] == "mcont" and e["form"] in MCONT_LIST_FORMS):
            if e["attr"] not in out:
                out.append(e["attr"])
    return out


def truth_spec(gram, names):
    """[[class index, "f" | "l"]] for the user classes whose instances are not always truthy
    ("f": never, "l": iff one of the list_attrs has an item) — the `truth` field of the Lean
    driver's build request"""
    out = []
    for r in gram["rules"]:
        t = r.get("traits") or ()
        if r.get("user") and ("falsy" in t or "len" in t):
            out.append([names.index(r["name"]), "f" if "falsy" in t else "l"])
    return out


def make_user_class(name, flavour, traits=(), lists=(), bases=(), cell=None):
    """user class for rule `name`.  flavour = what __init__ does with `parent`;
    traits = special methods that make the instances unusual Python values:
      falsy   __bool__ is always False
      len     container: __len__ = number of items in the list-valued containment attributes
              (`lists`; an instance without items is falsy, a class without such attributes is
              always falsy)
      iter    iterating the object yields the items of those attributes
      nohash  __eq__ without __hash__ (instances are unhashable)
    The special methods only read attributes, also while the object is under construction.
    bases = other user classes this one derives from; cell = a list object used *as is* for `lists`
    (a class that serves several grammars one after the other is told the list attributes of the
    grammar it is currently used with by updating the cell in place)."""
    lists = cell if cell is not None else list(lists)

    def items(self):
        out = []
        for a in lists:
            v = getattr(self, a, None)
            if isinstance(v, list):
                out.extend(v)
        return out

    ns = {}
    if flavour == "store":
        def __init__(self, parent=None, **kw):
            self.parent = parent
            for k, v in kw.items():
                setattr(self, k, v)
    else:
        def __init__(self, parent=None, **kw):
            if parent is not None:
                self.parent = parent
            for k, v in kw.items():
                setattr(self, k, v)
    ns["__init__"] = __init__
    if flavour == "eq":
        ns["__eq__"] = lambda a, b: True
        ns["__hash__"] = lambda a: 0
    if "falsy" in traits:
        ns["__bool__"] = lambda self: False
    if "len" in traits:
        ns["__len__"] = lambda self: len(items(self))
    if "iter" in traits:
        ns["__iter__"] = lambda self: iter(items(self))
    if "nohash" in traits and flavour != "eq":
        ns["__eq__"] = lambda a, b: a is b
        ns["__hash__"] = None
    return type(name, tuple(bases), ns)


class Loaded:
    pass


def load(case):
    """metamodel + model from the real code.  Returns Loaded with .mm .model .text .error"""
    use_repo()
    from textx import metamodel_from_str

    gram = case["gram"]
    L = Loaded()
    L.grammar = render_grammar(gram)
    classes = [make_user_class(r["name"], r["user"], r.get("traits") or (), list_attrs(r))
               for r in gram["rules"] if r.get("user")]
    L.file = None
    L.tmp = None
    L.text, L.exp = expected(gram, case["tree"], case["layout"], translate=bool(case.get("file")))
    raw, _ = expected(gram, case["tree"], case["layout"], translate=False)
    L.mm = metamodel_from_str(L.grammar, classes=classes, **gram.get("opts", {}))
    if case.get("file"):
        L.tmp = tempfile.mkdtemp(prefix="verif-obj-")
        L.file = os.path.join(L.tmp, "model.txt")
        try:
            with open(L.file, "wb") as f:
                f.write(raw.encode("utf-8"))
            L.model = L.mm.model_from_file(L.file)
        except BaseException:
            cleanup(L)
            raise
    else:
        L.model = L.mm.model_from_str(raw)
    return L


def cleanup(L):
    if getattr(L, "tmp", None):
        shutil.rmtree(L.tmp, ignore_errors=True)


def is_txobj(v):
    return hasattr(type(v), "_tx_attrs") and not isinstance(v, (str, int, float, bool))


def match_objects(L):
    """parallel walk of the expected tree and the real model along the expected containment
    attributes.  Returns (list real object per eid, None) or (None, reason)."""
    exp = L.exp
    real = [None] * len(exp)
    if not is_txobj(L.model):
        return None, f"model is {type(L.model).__name__}, expected an object of {exp[0]['cls']}"
    real[0] = L.model
    for o in exp:
        ro = real[o["eid"]]
        if ro is None:
            return None, f"expected object {o['eid']} not reached"
        if type(ro).__name__ != o["cls"]:
            return None, f"object {o['eid']}: class {type(ro).__name__}, expected {o['cls']}"
        if o["name"] is not None and getattr(ro, "name", None) != o["name"]:
            return None, f"object {o['eid']}: name {getattr(ro, 'name', None)!r}, expected {o['name']!r}"
        for attr, kind, vals, many in o["attrs"]:
            got = getattr(ro, attr, None)
            if kind == "cont":
                if many:
                    if not isinstance(got, list) or len(got) != len(vals):
                        return None, f"object {o['eid']}.{attr}: {len(got) if isinstance(got, list) else got!r} items, expected {len(vals)}"
                    pairs = list(zip(vals, got))
                else:
                    if not vals:
                        if is_txobj(got):
                            return None, f"object {o['eid']}.{attr}: unexpected object"
                        pairs = []
                    else:
                        pairs = [(vals[0], got)]
                for e, g in pairs:
                    if e is None:
                        if is_txobj(g):
                            return None, f"object {o['eid']}.{attr}: object where a match-rule value was expected"
                    else:
                        if not is_txobj(g):
                            return None, f"object {o['eid']}.{attr}: {g!r} where an object was expected"
                        real[e] = g
    return real, None


# --------------------------------------------------------------------------
# shrinking (on the derivation tree, never on text)
# --------------------------------------------------------------------------
def _copy(x):
    import json

    return json.loads(json.dumps(x))


def prune_refs(gram, tree):
    """drop reference names whose target no longer exists"""
    R = rules_of(gram)
    names = {n["n"] for n, _, _, _ in walk_nodes(gram, tree) if n["n"] is not None}
    for node, _, _, _ in walk_nodes(gram, tree, contained_only=False):
        for i, (e, p) in enumerate(zip(R[node["r"]]["elems"], node["e"])):
            if e["k"] == "ref":
                node["e"][i] = [x for x in p if x in names]
    return tree


def mcont_valid(e, items):
    """is this list of items a derivation of the multi-typed element?"""
    f, n = e["form"], len(items)
    if f == "choice":
        return n == 1
    if f == "choiceopt":
        return n <= 1
    if f == "choicerep":
        return True
    if f == "seq":
        return [it["x"] for it in items] == list(range(len(e["alts"])))
    if f == "choicelists":
        return n >= 1 and len({it["x"] for it in items}) == 1
    return all(a["op"] != "+=" or any(it["x"] == i for it in items) for i, a in enumerate(e["alts"]))


def shrink_tree(gram, tree):
    """smaller derivations: one list item / optional part removed at a time"""
    R = rules_of(gram)
    nodes = [n for n, _, _, _ in walk_nodes(gram, tree, contained_only=False)]
    for ni in range(len(nodes)):
        node = nodes[ni]
        for ei, (e, p) in enumerate(zip(R[node["r"]]["elems"], node["e"])):
            lo = None
            if e["k"] == "cont" and not e.get("bare"):
                lo = {"one": 1, "twice": 2, "plus": 1, "plussep": 1}.get(e["mult"], 0)
            elif e["k"] == "mcont":
                for k in range(len(p)):
                    if mcont_valid(e, p[:k] + p[k + 1:]):
                        t = _copy(tree)
                        tn = [n for n, _, _, _ in walk_nodes(gram, t, contained_only=False)][ni]
                        del tn["e"][ei][k]
                        yield prune_refs(gram, t)
                continue
            elif e["k"] == "ref":
                lo = 0
            elif e["k"] == "prim":
                lo = 1 if e["mult"] == "one" else 0
            elif e["k"] == "flag" and p:
                t = _copy(tree)
                [n for n, _, _, _ in walk_nodes(gram, t, contained_only=False)][ni]["e"][ei] = False
                yield t
                continue
            if lo is None or not isinstance(p, list):
                continue
            for k in range(len(p)):
                if len(p) - 1 < lo:
                    break
                t = _copy(tree)
                tn = [n for n, _, _, _ in walk_nodes(gram, t, contained_only=False)][ni]
                del tn["e"][ei][k]
                yield prune_refs(gram, t)


# --------------------------------------------------------------------------
# the real Arpeggio parse tree, classified the way process_node classifies it
# --------------------------------------------------------------------------
def dump_ptree(L, names):
    from arpeggio import Terminal
    from textx.const import MULT_ONEORMORE, MULT_ZEROORMORE, RULE_ABSTRACT, RULE_MATCH

    parser = getattr(L.model, "_tx_parser", None)
    if parser is None:
        return {"ptree": None}
    attr_ids = {}

    def aid(name):
        return attr_ids.setdefault(name, len(attr_ids))

    procs = L.mm._obj_processors

    def rec(node, sep_rule=None):
        if isinstance(node, Terminal):
            try:
                truthy = bool(procs.get(node.rule_name, lambda x: x)(node.value))
            except Exception:
                truthy = True
            # separator of a repeat modifier: told by the match that made the node (model.py 817-820:
            # `sep_rule = getattr(node.rule, "sep", None)` … `n.rule is not sep_rule`), not by its name
            return ["t", node.position, len(node.value), sep_rule is not None and node.rule is sep_rule, truthy]
        rn = node.rule_name
        own_sep = getattr(node.rule, "sep", None) if rn.startswith("__asgn") else None
        kids = [rec(k, own_sep) for k in node]
        if rn.startswith("__asgn"):
            op = rn.split("_")[-1]
            opk = op if op in ("optional", "plain") else "many"
            return ["n", ["asgn", aid(node.rule._attr_name), opk], kids]
        t = node.rule._tx_class._tx_type
        if t == RULE_ABSTRACT:
            return ["n", ["abs"], kids]
        if t == RULE_MATCH:
            return ["n", ["mat", True], kids]
        return ["n", ["obj", names.index(node.rule._tx_class.__name__)], kids]

    tree = rec(parser.parse_tree[0])
    mm = []
    for ci, name in enumerate(names):
        try:
            cls = L.mm[name]
        except Exception:
            continue
        attrs = getattr(cls, "_tx_attrs", None)
        if attrs is None:
            continue
        mm.append([ci, [[aid(a.name), a.mult in (MULT_ONEORMORE, MULT_ZEROORMORE), bool(a.cont)]
                        for a in attrs.values()]])
    return {"ptree": tree, "mm": mm}


def abs_stats(ptree, acc=None):
    """abstract-rule nodes with several children in a dumped parse tree, by what model.py 671-683
    does with them: `differs` = a match-rule NonTerminal comes before the first common / abstract
    one (the pinned code took the former, the repaired code takes the latter)"""
    acc = acc if acc is not None else {"nodes": 0, "first_nt_is_result": 0, "differs": 0, "only_match_nts": 0,
                                       "only_terminals": 0}

    def rec(t):
        if t[0] != "n":
            return
        kind, kids = t[1], t[2]
        if kind[0] == "abs" and len(kids) > 1:
            acc["nodes"] += 1
            nts = [k for k in kids if k[0] == "n"]
            nonmatch = [i for i, k in enumerate(nts) if k[1][0] != "mat"]
            if not nts:
                acc["only_terminals"] += 1
            elif not nonmatch:
                acc["only_match_nts"] += 1
            elif nonmatch[0] == 0:
                acc["first_nt_is_result"] += 1
            else:
                acc["differs"] += 1
        for k in kids:
            rec(k)

    if ptree is not None:
        rec(ptree)
    return acc

