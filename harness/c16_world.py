"""C16 world: pools of metamodels, load operations, structural dumps, observers of
the state that survives between loads, and the server that supplies *fresh states*
of textX.

A case (JSON) is
  {"pool": [mmcfg…], "extras": [mmcfg…], "files": {name: text}, "histories": [[op…]…]}
  mmcfg = {"grammar": str, "opts": {...metamodel_from_str keyword options...},
           "classes": {rule: variant}, "objprocs": {rule: variant}, "modelprocs": [variant…],
           "scope": None | "plain_instances" | "plain_importuri" | "fqn_importuri" | "fqn", "params": [name…],
           "search_path": [dir…] (relative to the scratch directory; the import scope provider is created with it),
           "sp_share": key (providers of metamodels with the same key are given the *same* list object),
           "gfiles": {path: text}, "gmain": path (the grammar is written to these files — overwriting what
           another metamodel of the case wrote there — and compiled with metamodel_from_file)}
  files may live in sub-directories ("m1/pa/main.ent")
  op    = ["str", k, text] | ["strp", k, text, {param: value}] | ["file", k, name] | ["new", k]
          k = metamodel slot: pool entries first, then the extras; an extra exists in a history only
          after its ["new", k]

Fresh state: `fresh_textx()` removes textx and arpeggio from sys.modules and imports them again
(~20 ms, compiled modules are kept in memory), so every module global, class and rule object of the code
under test is new; user classes, processors and providers are rebuilt from the configuration.
`run_case` produces

  runs[h].hist[i]  outcome of op i inside history h + the observable surviving state after it
                   (every history starts from a fresh state in which the pool has been created)
  r1[key]  outcome of the same load alone on a fresh state "pool created, nothing loaded" (DESIGN.md Reading)
  r2[key]  outcome of the same load on a fresh state in which only its metamodel was created (statement,
           literally; for pool metamodels: their first distinct load, for extras: every load)
  r3[key]  (flagged cases) r2 once more in a really new interpreter (`--oneshot`): guards the harness's
           notion of "fresh"
  mm_solo  outcome of creating each metamodel alone on a fresh state

Nothing here knows about the Lean side except `pool_dump` / `lean_material`, which serialise the real
parser models for the mirror.
"""
import json
import os
import re
import signal
import sys
import traceback

MAXMSG = 240
HEX = re.compile(r"0x[0-9a-fA-F]+")


# ----------------------------------------------------------------------------
# building one metamodel from its JSON configuration
# ----------------------------------------------------------------------------
class World:
    def __init__(self, tmp):
        self.tmp = tmp
        self.log = []          # events of the load in progress
        self.mms = []          # metamodel | None (creation failed)
        self.mm_errs = []
        self.classes = []      # per metamodel: {rule: class}
        self.cfgs = []
        self.shared = {}       # sp_share key -> the list object handed to several providers
        self.fp_seen = {}      # slot -> last fingerprint digest reported in full


def short(v):
    if isinstance(v, (str, int, float, bool)) or v is None:
        return repr(v)[:40]
    try:
        nm = getattr(v, "name", None)
    except Exception:
        nm = "?"
    return f"<{type(v).__name__} {nm!r}>"[:60]


def mk_class(rule, variant, log):
    """User classes.  Every variant accepts the rule's attributes as keyword arguments."""

    def init(self, **kw):
        log.append(["init", rule, sorted(kw), short(kw.get("name")), type(self).__dict__.get("_tx_instrumented")])
        if variant == "initraise" and kw.get("name") == "initboom":
            raise ValueError("initboom")
        for k, v in kw.items():
            setattr(self, k, v)
        if variant in ("plain", "setattr"):
            self.inited = True

    ns = {"__init__": init}
    if variant == "setattr":
        # a class with its own __setattr__: it logs, and it upper-cases the `tag` attribute
        def own_setattr(self, name, value):
            log.append(["setattr", rule, name])
            if name == "tag" and isinstance(value, str):
                value = value.upper()
            object.__setattr__(self, name, value)

        ns["__setattr__"] = own_setattr
    if variant == "getattribute":
        def own_getattribute(self, name):
            if name == "probe":
                return "own-getattribute"
            return object.__getattribute__(self, name)

        ns["__getattribute__"] = own_getattribute
    if variant == "slots":
        ns["__slots__"] = ("name", "val", "tag", "subs", "parent", "target", "more", "imports", "items", "refs",
                           "importURI", "_tx_position", "_tx_position_end", "_tx_filename", "_tx_metamodel",
                           "_tx_model_params", "_tx_reference_resolver", "_tx_parser", "_tx_model_repository",
                           "_pos_crossref_list", "_pos_rule_dict")
    return type(rule, (object,), ns)


def mk_objproc(rule, variant, log):
    from textx.exceptions import TextXSemanticError

    def proc(x):
        log.append(["op", rule, short(x)])
        nm = getattr(x, "name", None) if not isinstance(x, (str, int, float, bool)) else x
        if variant == "raise" and nm in ("opboom", 13, "13"):
            raise TextXSemanticError("opboom")
        if variant == "raiseval" and nm in ("opboom", 13, "13"):
            raise ValueError("opboom")
        if variant == "double" and isinstance(x, (int, float)) and not isinstance(x, bool):
            return x * 2
        if variant == "upper" and isinstance(x, str):
            return x.upper()
        return None

    return proc


def mk_modelproc(variant, log):
    from textx.exceptions import TextXSemanticError

    def proc(model, mm):
        log.append(["mp", short(model)])
        if variant == "raise":
            items = getattr(model, "items", None) or []
            if any(getattr(i, "name", None) == "mpboom" for i in items):
                raise TextXSemanticError("mpboom")

    return proc


def build_mm(world, cfg):
    """Create one metamodel; returns (mm | None, error view | None, {rule: class})."""
    import textx
    from textx.scoping import providers as sp

    classes = {r: mk_class(r, v, world.log) for r, v in sorted((cfg.get("classes") or {}).items())}
    opts = dict(cfg.get("opts") or {})
    try:
        if cfg.get("gfiles"):
            # the grammar lives in files: (re)write them — another metamodel of the case may have written
            # other content to the same paths before — and compile from the file
            for fn, text in sorted(cfg["gfiles"].items()):
                path = os.path.join(world.tmp, fn)
                os.makedirs(os.path.dirname(path), exist_ok=True)
                with open(path, "w") as f:
                    f.write(text)
            mm = textx.metamodel_from_file(os.path.join(world.tmp, cfg["gmain"]), classes=list(classes.values()), **opts)
        else:
            mm = textx.metamodel_from_str(cfg["grammar"], classes=list(classes.values()), **opts)
        procs = {r: mk_objproc(r, v, world.log) for r, v in sorted((cfg.get("objprocs") or {}).items())}
        if procs:
            mm.register_obj_processors(procs)
        for v in cfg.get("modelprocs") or []:
            mm.register_model_processor(mk_modelproc(v, world.log))
        scope = cfg.get("scope")
        spkw = {}
        if cfg.get("search_path") is not None:
            key = cfg.get("sp_share")
            if key is not None and key in world.shared:
                lst = world.shared[key]
            else:
                lst = [os.path.join(world.tmp, d) for d in cfg["search_path"]]
                if key is not None:
                    world.shared[key] = lst
            spkw = {"search_path": lst}
        if scope == "plain_instances":
            mm.register_scope_providers({"*.*": sp.PlainName(multi_metamodel_support=False)})
        elif scope == "plain_importuri":
            mm.register_scope_providers({"*.*": sp.PlainNameImportURI(**spkw)})
        elif scope == "fqn_importuri":
            mm.register_scope_providers({"*.*": sp.FQNImportURI(**spkw)})
        elif scope == "fqn":
            mm.register_scope_providers({"*.*": sp.FQN()})
        for p in cfg.get("params") or []:
            mm.model_param_defs.add(p, "a model parameter of the pool")
        return mm, None, classes
    except Exception as e:  # noqa: BLE001 - every failure of the code under test is an observation
        return None, exc_view(e, world.tmp), classes


# ----------------------------------------------------------------------------
# outcomes: structural dump of the model, or of the error
# ----------------------------------------------------------------------------
def norm_text(s, tmp):
    s = str(s)
    if tmp:
        s = s.replace(tmp, "<tmp>")
    return HEX.sub("0x", s)[:MAXMSG]


def rel_name(fn, tmp):
    """file name relative to the scratch directory (base name for anything outside it)"""
    if fn is None:
        return None
    fn = str(fn)
    if tmp:
        a = os.path.abspath(fn)
        if a.startswith(tmp.rstrip("/") + "/"):
            return os.path.relpath(a, tmp)
    return os.path.basename(fn)


def exc_view(e, tmp):
    from textx.exceptions import TextXError

    if isinstance(e, TextXError):
        fn = getattr(e, "filename", None)
        return {"err": {
            "cls": type(e).__name__, "err_type": getattr(e, "err_type", None),
            "file": rel_name(fn, tmp),
            "line": getattr(e, "line", None), "col": getattr(e, "col", None), "nchar": getattr(e, "nchar", None),
            "msg": norm_text(getattr(e, "message", e), tmp),
        }}
    if isinstance(e, RecursionError):
        return {"other": "RecursionError"}
    return {"other": type(e).__name__, "msg": norm_text(e, tmp)}


def dump_value(model, tmp):
    """Canonical structural dump (objects numbered in first-visit order, containment first,
    attributes in _tx_attrs order, references as numbers, primitives with their Python type,
    text positions); imported models follow, keyed by file name."""
    ids = {}
    done = set()

    def is_obj(v):
        return hasattr(type(v), "_tx_attrs") and not isinstance(v, type)

    def prim(v):
        if v is None:
            return None
        if isinstance(v, bool):
            return ["b", v]
        if isinstance(v, int):
            return ["i", v]
        if isinstance(v, float):
            return ["f", repr(v)]
        if isinstance(v, str):
            return ["s", v]
        return ["?", type(v).__name__, norm_text(repr(v), tmp)[:60]]

    def number(o):
        if id(o) not in ids:
            ids[id(o)] = len(ids)
        return ids[id(o)]

    def val(v, cont):
        if isinstance(v, list):
            return [val(x, cont) for x in v]
        if is_obj(v):
            return obj(v) if cont else {"ref": number(v), "cls": type(v).__name__}
        return prim(v)

    def obj(o):
        if id(o) in ids and ids[id(o)] in done:
            return {"ref": ids[id(o)], "again": True}
        n = number(o)
        done.add(n)
        if len(ids) > 3000:
            return {"n": n, "truncated": True}
        d = {"n": n, "cls": type(o).__name__, "pos": [getattr(o, "_tx_position", None), getattr(o, "_tx_position_end", None)],
             "attrs": []}
        for name, a in type(o)._tx_attrs.items():
            try:
                v = getattr(o, name)
            except AttributeError:
                d["attrs"].append([name, "<unset>"])
                continue
            d["attrs"].append([name, val(v, a.cont)])
        extra = getattr(o, "__dict__", None)
        if isinstance(extra, dict):
            d["own"] = sorted(k for k in extra if not k.startswith("_tx") and k not in type(o)._tx_attrs
                              and k not in ("parent", "_pos_crossref_list", "_pos_rule_dict"))
            if "inited" in extra:
                d["inited"] = extra["inited"]
        p = getattr(o, "parent", None)
        if p is not None and is_obj(p):
            d["parent"] = number(p)
        return d

    if not is_obj(model):
        return {"root": prim(model)}
    out = {"root": obj(model)}
    params = getattr(model, "_tx_model_params", None)
    if params is not None:
        out["params"] = sorted((str(k), repr(v)[:40]) for k, v in getattr(params, "params", {}).items())
        out["used"] = sorted(str(k) for k in getattr(params, "used_keys", ()))
    fn = getattr(model, "_tx_filename", None)
    out["file"] = rel_name(fn, tmp)
    repo = getattr(model, "_tx_model_repository", None)
    if repo is not None:
        others = []
        for f in sorted(repo.all_models.filename_to_model):
            m = repo.all_models.filename_to_model[f]
            if m is not model and is_obj(m):
                others.append([rel_name(f, tmp), obj(m)])
        out["imported"] = others
        # the files of the load in the order they were parsed (main model first)
        out["order"] = [rel_name(f, tmp) for f in repo.all_models.filename_to_model]
    if hasattr(model, "_pos_crossref_list"):
        out["tools"] = [len(model._pos_crossref_list), len(model._pos_rule_dict),
                        [[r.name, r.ref_pos_start, r.def_pos_start] for r in model._pos_crossref_list][:20]]
    return out


class OpTimeout(BaseException):
    pass


def _alarm(signum, frame):
    raise OpTimeout()


def run_op(world, op, timeout=10):
    """Perform one operation; returns (outcome, model | None, exception | None).
    The limit is CPU time of this process (a loaded machine must not produce time-outs)."""
    del world.log[:]
    kind = op[0]
    model = exc = None
    old = signal.signal(signal.SIGPROF, _alarm)
    signal.setitimer(signal.ITIMER_PROF, timeout)
    try:
        if True:
            mm = world.mms[op[1]]
            if mm is None:
                out = {"skip": "metamodel was not created"}
            else:
                try:
                    if kind == "str":
                        model = mm.model_from_str(op[2])
                    elif kind == "strp":
                        model = mm.model_from_str(op[2], **op[3])
                    elif kind == "file":
                        model = mm.model_from_file(os.path.join(world.tmp, op[2]))
                    else:
                        raise ValueError("unknown op " + str(kind))
                    out = {"ok": dump_value(model, world.tmp)}
                except OpTimeout:
                    raise
                except Exception as e:  # noqa: BLE001
                    exc = e
                    out = exc_view(e, world.tmp)
    except OpTimeout:
        out = {"other": "Timeout"}
    finally:
        signal.setitimer(signal.ITIMER_PROF, 0)
        signal.signal(signal.SIGPROF, old)
    out["log"] = [list(x) for x in world.log]
    return out, model, exc


# ----------------------------------------------------------------------------
# observers of the state that survives a load
# ----------------------------------------------------------------------------
CONTAINERS = ["_inst_stack", "_instances", "_crossrefs", "comments", "comment_positions", "sem_actions"]


def reachable_rules(parser):
    seen, order, todo = set(), [], []
    for root in (parser.parser_model, parser.comments_model):
        if root is not None:
            todo.append(root)
    while todo:
        e = todo.pop()
        if id(e) in seen:
            continue
        seen.add(id(e))
        order.append(e)
        todo.extend(getattr(e, "nodes", []) or [])
        s = getattr(e, "sep", None)
        if s is not None:
            todo.append(s)
    return order


def is_tx_method(f):
    return "_replace_user_attr_methods_for_class" in getattr(f, "__qualname__", "")


def _digest(x):
    import hashlib

    return hashlib.sha1(json.dumps(x, sort_keys=True, default=str).encode()).hexdigest()[:12]


def mm_fingerprint(mm):
    """What a metamodel *is* as far as loading is concerned: the options its parser runs with, the compiled
    parser model (rule objects with their match strings / regular expressions incl. flags, structure,
    modifiers) and the class table (rule types, attributes, inheritance, namespaces).  Object identities and
    the `_tx_class` back-pointers of the shared base-type rules (history dependent by design, modelled as
    `baseOwner`) are left out.  Compared between a metamodel inside a history and the same configuration
    created alone on a fresh state."""
    b = mm._parser_blueprint
    flags = {a: getattr(b, a, None) for a in ("memoization", "skipws", "ws", "autokwd", "ignore_case", "debug",
                                              "reduce_tree")}
    for a in ("memoization", "skipws", "ws", "autokwd", "ignore_case", "auto_init_attributes",
              "textx_tools_support", "use_regexp_group"):
        flags["mm." + a] = getattr(mm, a, None)
    ids, rows, regex = {}, [], {}

    def visit(e):
        if id(e) in ids:
            return ids[id(e)]
        ids[id(e)] = i = len(ids)
        row = [type(e).__name__, e.rule_name, bool(e.root), bool(getattr(e, "suppress", False))]
        rows.append(row)
        if hasattr(e, "to_match"):
            row += [str(e.to_match), getattr(e, "ignore_case", None)]
            rx = getattr(e, "regex", None)
            if rx is not None and hasattr(rx, "pattern"):
                row += [rx.pattern, int(rx.flags)]
                if e.root:
                    regex[str(e.rule_name)] = [rx.pattern, int(rx.flags)]
        row.append([getattr(e, a, None) for a in ("ws", "skipws", "eolterm")])
        row.append([visit(c) for c in (getattr(e, "nodes", None) or [])])
        sep = getattr(e, "sep", None)
        row.append(visit(sep) if sep is not None else None)
        return i

    tops = [visit(b.parser_model), visit(b.comments_model) if b.comments_model is not None else None]
    classes = []
    for ns in sorted(mm.namespaces, key=str):
        for name in sorted(mm.namespaces[ns], key=str):
            c = mm.namespaces[ns][name]
            attrs = [[a.name, getattr(a.cls, "_tx_fqn", getattr(a.cls, "__name__", str(a.cls))), a.mult, bool(a.cont),
                      bool(a.ref), bool(a.bool_assignment)] for a in getattr(c, "_tx_attrs", {}).values()]
            classes.append([str(ns), str(name), getattr(c, "_tx_fqn", None), getattr(c, "_tx_type", None), attrs,
                            [getattr(x, "_tx_fqn", str(x)) for x in getattr(c, "_tx_inh_by", [])]])
    fp = {"flags": flags, "parser": _digest([tops, rows]), "classes": _digest(classes), "regex": regex}
    fp["id"] = _digest(fp)
    return fp


def observe(world, last_clone=None, nm_pos=None):
    import textx.lang as L

    rules = {}
    for r in L.BASE_TYPE_RULES.values():
        rules[id(r)] = r
    bp = []
    for mm in world.mms:
        if mm is None:
            bp.append(None)
            continue
        b = mm._parser_blueprint
        for r in reachable_rules(b):
            rules[id(r)] = r
        bp.append([len(getattr(b, c)) for c in CONTAINERS])
    cls = []
    for cs in world.classes:
        row = []
        for name in sorted(cs):
            c = cs[name]
            d = c.__dict__
            row.append([name, d.get("_tx_instrumented"), sorted(k for k in d if k.startswith("_tx_real_")),
                        len(d.get("_tx_obj_attrs", {})) if isinstance(d.get("_tx_obj_attrs"), dict) else None,
                        sorted(k for k in ("__setattr__", "__delattr__", "__getattribute__")
                               if k in d and is_tx_method(d[k]))])
        cls.append(row)
    owner = None
    tc = getattr(L.INT, "_tx_class", None)
    if tc is not None:
        for k, mm in enumerate(world.mms):
            if mm is not None and getattr(tc, "_tx_metamodel", None) is mm:
                owner = k
    hid = {
        "cache": sum(len(r._result_cache) for r in rules.values()),
        "bp": bp, "cls": cls,
        "gp": sorted([bool(k), bool(p.memoization)] for k, p in L.textX_parsers.items()),
        "base_owner": owner,
    }
    # configuration of every existing metamodel (digest; spelled out whenever it changed)
    fps, full = [], {}
    for k, mm in enumerate(world.mms):
        if mm is None:
            fps.append(None)
            continue
        try:
            fp = mm_fingerprint(mm)
        except Exception as e:  # noqa: BLE001
            fp = {"id": f"unreadable: {type(e).__name__}: {e}"[:120]}
        fps.append(fp["id"])
        if world.fp_seen.get(k) != fp["id"]:
            world.fp_seen[k] = fp["id"]
            full[str(k)] = fp
    hid["fp"] = fps
    if full:
        hid["fp_full"] = full
    if last_clone is not None:
        mm = last_clone.metamodel
        b = mm._parser_blueprint
        hid["clone"] = {
            "alias": [c for c in CONTAINERS if getattr(last_clone, c, None) is getattr(b, c, None)],
            "is_bp": last_clone is b,
            "misses": getattr(last_clone, "cache_misses", None),
            "hits": getattr(last_clone, "cache_hits", None),
            "nm_pos": nm_pos,
        }
    return hid


def clone_of(model, exc):
    p = getattr(model, "_tx_parser", None) if model is not None else None
    if p is not None:
        return p
    c = getattr(exc, "__cause__", None)
    return getattr(c, "parser", None) if c is not None else None


# ----------------------------------------------------------------------------
# dump of the real parser models for the Lean mirror (pool wide node numbering)
# ----------------------------------------------------------------------------
def pool_dump(world, texts_by_mm):
    """nodes (shared objects get one id), per metamodel top/comments/flags and, for every
    (metamodel, text) pair, the token tables of that metamodel's Match nodes."""
    from harness import peg

    ids, objs, nodes = {}, [], []

    def visit(e):
        if id(e) in ids:
            return ids[id(e)]
        # subclasses (e.g. textX's KeywordMatch(RegExMatch)) behave like their Arpeggio base class for the mirror
        k = next((peg.KIND[c.__name__] for c in type(e).__mro__ if c.__name__ in peg.KIND), None)
        if k is None:
            raise peg.Unsupported(type(e).__name__)
        i = len(objs)
        ids[id(e)] = i
        objs.append(e)
        nd = {"k": k, "root": bool(e.root), "rule": e.rule_name or "", "sup": bool(e.suppress)}
        nodes.append(nd)
        if k in ("str", "re"):
            nd["tok"] = i
        else:
            nd["kids"] = [visit(c) for c in e.nodes]
        if k in ("seq", "choice"):
            ws = getattr(e, "ws", None)
            if ws is not None and not isinstance(ws, str):
                raise peg.Unsupported("ws of type " + type(ws).__name__)
            nd["ws"] = ws
            nd["skipws"] = getattr(e, "skipws", None)
        if k in ("star", "plus", "unord", "opt"):
            sep = getattr(e, "sep", None)
            nd["sep"] = visit(sep) if sep is not None else None
            nd["eol"] = bool(getattr(e, "eolterm", False))
        return i

    mms = []
    for k, mm in enumerate(world.mms):
        if mm is None:
            mms.append(None)
            continue
        b = mm._parser_blueprint
        before = len(objs)
        top = visit(b.parser_model)
        com = visit(b.comments_model) if b.comments_model is not None else None
        own = sorted({ids[id(r)] for r in reachable_rules(b)})
        mms.append({"top": top, "comments": com, "memo": bool(b.memoization), "skipws": bool(b.skipws), "ws": b.ws,
                    "own": own, "new": len(objs) - before,
                    "user": sorted(world.classes[k]) if k < len(world.classes) else []})
    toks = {}
    for k, texts in texts_by_mm.items():
        if mms[k] is None:
            continue
        for t in texts:
            rows = [[] for _ in objs]
            sub_nodes = [nodes[i] for i in mms[k]["own"]]
            sub_objs = [objs[i] for i in mms[k]["own"]]
            for i, row in zip(mms[k]["own"], peg.tok_tables(sub_nodes, sub_objs, t)):
                rows[i] = row
            toks.setdefault(str(k), []).append([t, rows])
    return {"nodes": nodes, "mms": mms, "toks": toks}, ids, objs


def tree_of(world, k, clone, ids):
    """parse tree of the clone as JSON with pool wide node numbers."""
    from harness import peg

    t = getattr(clone, "parse_tree", None)
    if t is None:
        return None
    j = peg.tree_json(t, ids)
    b = world.mms[k]._parser_blueprint
    eof = [ids[id(n)] for n in b.parser_model.nodes if type(n).__name__ == "EndOfFile"]

    def fix(x):
        if x and x[0] == "t" and x[1] == -1 and x[3] == 0 and eof:
            x[1] = eof[0]
        elif x and x[0] in ("n", "l"):
            for c in x[-1]:
                fix(c)
        return x

    return fix(j)


# ----------------------------------------------------------------------------
# cases
# ----------------------------------------------------------------------------
def op_key(op):
    return json.dumps(op, sort_keys=True)


def all_cfgs(case):
    return list(case["pool"]) + list(case.get("extras") or [])


def new_world(case, tmp):
    """slots for every metamodel of the case; nothing created yet."""
    w = World(tmp)
    for cfg in all_cfgs(case):
        w.mms.append(None)
        w.mm_errs.append({"skip": "not created"})
        w.classes.append({})
        w.cfgs.append(cfg)
    return w


def create_slot(world, k):
    mm, err, classes = build_mm(world, world.cfgs[k])
    world.mms[k], world.mm_errs[k], world.classes[k] = mm, err, classes
    del world.log[:]


def lean_material(world, case, ops, clones, full):
    """what the Lean mirror needs to replay this history: the real parse trees with pool wide node
    numbers and — once per case (`full`) — the real parser models and the token tables of every text
    of the case.  Metamodels the history did not create are created now (all observations are done),
    so that every history of a case numbers the nodes identically."""
    from harness import peg

    try:
        created = [m is not None for m in world.mms]
        for k in range(len(world.mms)):
            if world.mms[k] is None and world.mm_errs[k] == {"skip": "not created"}:
                create_slot(world, k)
        texts = {}
        if full:
            def add(k, t):
                if world.mms[k] is not None:
                    texts.setdefault(k, [])
                    if t not in texts[k]:
                        texts[k].append(t)
            for hops in case["histories"]:
                for op in hops:
                    if op[0] in ("str", "strp"):
                        add(op[1], op[2])
                    elif op[0] == "file":
                        for fn in import_order(case["files"], op[2], world.cfgs[op[1]].get("search_path")):
                            if fn in case["files"]:
                                add(op[1], case["files"][fn])
        pd, ids, objs = pool_dump(world, texts)
        trees = []
        for op, c in zip(ops, clones):
            trees.append(tree_of(world, op[1], c, ids) if (c is not None and op[0] != "new") else None)
        out = {"trees": trees, "nnodes": len(pd["nodes"]), "created": created}
        if full:
            out.update(pd)
        return out
    except peg.Unsupported as e:
        return {"unsupported": str(e)[:200]}


IMPORT_RE = re.compile(r"""\bimport\s+(["'])(.*?)\1""")


def import_order(files, main, search_path=None):
    """files in the order textX parses them: main, then imports depth first in textual order, each once;
    a missing file ends the list (the load fails there).  An import is looked up in the directory of the
    importing file, then in the directories of `search_path` (harness-side helper: it only selects the texts
    whose token tables are sent to the Lean driver; the driver computes the order itself, `History.loadOrder`)."""
    order, seen = [], set()

    def find(name, base):
        for d in [base] + list(search_path or []):
            fn = os.path.normpath(os.path.join(d, name)) if d else name
            if fn in files:
                return fn
        return os.path.normpath(os.path.join(base, name)) if base else name

    def go(fn):
        if fn in seen:
            return True
        seen.add(fn)
        order.append(fn)
        if fn not in files:
            return False
        for m in IMPORT_RE.finditer(files[fn]):
            if not go(find(m.group(2), os.path.dirname(fn))):
                return False
        return True

    go(main)
    return order


def run_history(world, case, ops, lean, full):
    hist, clones = [], []
    for op in ops:
        if op[0] == "new":
            del world.log[:]
            create_slot(world, op[1])
            out = {"created": world.mm_errs[op[1]] is None, "err": world.mm_errs[op[1]], "log": []}
            c = exc = None
        else:
            out, model, exc = run_op(world, op)
            c = clone_of(model, exc)
        clones.append(c)
        nm = getattr(getattr(exc, "__cause__", None), "position", None) if exc is not None else None
        hist.append({"out": out, "hid": observe(world, c, nm)})
    res = {"hist": hist}
    if lean:
        res["lean"] = lean_material(world, case, ops, clones, full)
    return res


BASE_MODULES = None  # sys.modules before textx was imported for the first time


def install_code_cache():
    """Keep the compiled code of every module imported from now on in memory, so that importing textx /
    arpeggio (and language plugins that import textx) afresh executes the module code again without
    touching the file system.  Must be called before textx is imported for the first time."""
    import importlib.abc
    import importlib.machinery

    global BASE_MODULES
    BASE_MODULES = set(sys.modules)

    class MemoLoader(importlib.machinery.SourceFileLoader):
        codes = {}

        def get_code(self, fullname):
            c = MemoLoader.codes.get(fullname)
            if c is None:
                c = super().get_code(fullname)
                MemoLoader.codes[fullname] = c
            return c

    class MemoFinder(importlib.abc.MetaPathFinder):
        def find_spec(self, fullname, path, target=None):
            spec = importlib.machinery.PathFinder.find_spec(fullname, path)
            if spec is not None and type(spec.loader) is importlib.machinery.SourceFileLoader:
                spec.loader = MemoLoader(spec.loader.name, spec.loader.path)
            return spec

    sys.meta_path.insert(0, MemoFinder())


_STD = []


def _is_stdlib(mod):
    f = getattr(mod, "__file__", None)
    if f is None:
        return True  # builtin / frozen
    if not _STD:
        import sysconfig

        _STD.append(sysconfig.get_paths()["stdlib"])
    return f.startswith(_STD[0]) and "site-packages" not in f


def fresh_textx():
    """A fresh state of the code under test inside this interpreter: textx, arpeggio and every other
    non-stdlib module that was imported after them (language plugins found through entry points keep
    references to textx classes) are removed from sys.modules and textx is imported again, so every
    module global (textX_parsers, the base-type rule objects, the language registry, …), every class and
    everything reachable from them is new.  (All state of the code under test lives there; a sample of the
    references is cross-checked in really new interpreters, see `r3`.)"""
    for name in [m for m in sys.modules if m not in BASE_MODULES]:
        mod = sys.modules.get(name)
        if mod is not None and not _is_stdlib(mod):
            del sys.modules[name]
    import textx  # noqa: F401
    import textx.export  # noqa: F401
    import textx.scoping.providers  # noqa: F401


def fresh_world(case, tmp, slots):
    fresh_textx()
    w = new_world(case, tmp)
    for k in slots:
        create_slot(w, k)
    return w


def run_case(case, tmp, lean=True):
    os.chdir(tmp)  # metamodels with debug=True write .dot files into the current directory
    try:
        return _run_case(case, tmp, lean)
    finally:
        os.chdir("/")


def _run_case(case, tmp, lean):
    res = {}
    npool = len(case["pool"])
    distinct, seen = [], set()
    for ops in case["histories"]:
        for op in ops:
            if op[0] != "new" and op_key(op) not in seen:
                seen.add(op_key(op))
                distinct.append(op)

    # --- r2: a fresh state in which only the metamodel of the load is created ----------------
    # (every distinct load of every metamodel; `solo_fp`: the configuration fingerprint of each metamodel
    # created alone)
    r2, mm_solo, solo_fp = {}, {}, {}
    for k in sorted(set(range(npool)) | {op[1] for ops in case["histories"] for op in ops}):
        mine = [op for op in distinct if op[1] == k]
        for op in (mine or [None]):
            w = fresh_world(case, tmp, [k])
            mm_solo[str(k)] = w.mm_errs[k]
            if str(k) not in solo_fp and w.mms[k] is not None:
                solo_fp[str(k)] = mm_fingerprint(w.mms[k])
            if op is not None:
                r2[op_key(op)] = run_op(w, op)[0]
    res["r2"], res["mm_solo"], res["solo_fp"] = r2, mm_solo, solo_fp

    # --- r1: each load alone on the state "pool created, nothing loaded" ----------------------
    r1 = {}
    for op in distinct:
        if op[1] < npool:
            w = fresh_world(case, tmp, range(npool))
            r1[op_key(op)] = run_op(w, op)[0]
    res["r1"] = r1

    # --- the histories, each from the state "pool created, nothing loaded" --------------------
    runs = []
    for i, ops in enumerate(case["histories"]):
        w = fresh_world(case, tmp, range(npool))
        if i == 0:
            res["pool"] = list(w.mm_errs[:npool])
            res["hid0"] = observe(w)
        try:
            runs.append(run_history(w, case, ops, lean, i == 0))
        except Exception as e:  # noqa: BLE001 - a bug of this harness, kept visible
            runs.append({"crash": f"{type(e).__name__}: {e}", "tb": traceback.format_exc()[-1200:]})
    res["runs"] = runs

    # --- r3: a sample of the references once more, in really fresh interpreters ---------------
    if case.get("check_fresh_interpreter"):
        r3 = {}
        for k in sorted({op[1] for op in distinct})[:2]:
            op = [o for o in distinct if o[1] == k][0]
            r3[op_key(op)] = oneshot(case, tmp, op)
        res["r3"] = r3
    import gc

    gc.collect()
    return res


def oneshot(case, tmp, op):
    """the load `op` in a new interpreter that creates only its metamodel"""
    import subprocess

    req = json.dumps({"case": {"pool": case["pool"], "extras": case.get("extras") or [], "files": {}, "histories": []},
                      "tmp": tmp, "op": op})
    try:
        p = subprocess.run([sys.executable, "-m", "harness.c16_world", "--oneshot"], input=req, capture_output=True,
                           text=True, timeout=120, cwd=HERE, env=dict(os.environ, PYTHONDONTWRITEBYTECODE="1"))
        return json.loads(p.stdout.strip().splitlines()[-1])
    except Exception as e:  # noqa: BLE001
        return {"crash": f"{type(e).__name__}: {e}"[:200]}


HERE = os.path.dirname(os.path.dirname(os.path.abspath(__file__)))


def _paths():
    repo = os.environ.get("VERIF_REPO", "/repo")
    if repo not in sys.path[:1]:
        sys.path.insert(0, repo)
    if HERE not in sys.path:
        sys.path.insert(1, HERE)


def serve():
    """Server: one request (case) per line, one answer per line.  textX is imported afresh for every
    reference and every history (`fresh_textx`); the compiled modules are kept in memory so that a fresh
    import costs ~20 ms."""
    _paths()
    install_code_cache()
    sys.setrecursionlimit(3000)
    out = sys.stdout
    sys.stdout = open(os.devnull, "w")  # the code under test may print (debug=True)
    try:
        import textx

        where = os.path.dirname(textx.__file__)
        for line in sys.stdin:
            line = line.strip()
            if not line:
                continue
            req = json.loads(line)
            try:
                ans = run_case(req["case"], req["tmp"], req.get("lean", True))
            except Exception as e:  # noqa: BLE001
                ans = {"crash": f"{type(e).__name__}: {e}", "tb": traceback.format_exc()[-1500:]}
            ans["textx"] = where
            out.write(json.dumps(ans, default=str) + "\n")
            out.flush()
    finally:
        pass


def serve_oneshot():
    _paths()
    req = json.loads(sys.stdin.read())
    out = sys.stdout
    sys.stdout = open(os.devnull, "w")
    os.chdir(req["tmp"])
    import textx  # noqa: F401

    w = new_world(req["case"], req["tmp"])
    create_slot(w, req["op"][1])
    res = run_op(w, req["op"])[0]
    out.write(json.dumps(res, default=str) + "\n")
    out.flush()


if __name__ == "__main__":
    if "--oneshot" in sys.argv:
        serve_oneshot()
    else:
        serve()
