"""Shared case generator / renderer for the processor properties C13 and C33.

A *case* is JSON-able:

  schema  : generated grammar (common rules with attribute parts, abstract rules
            with common / abstract / match alternatives, match rules), root kind,
            metamodel options, user-class rules
  files   : 1..3 model files; file 0 is the main model.  Each file has an object
            tree (`root`) and, for multi-file schemas, the list of imported files
  refs    : every reference occurrence gets its target uid and a postponement count

`render(case)` produces grammar text, the text of every file and — recorded while
rendering, independently of textX — for every object its start / end offset and
for every match-rule value its offset, so that the oracles can decide the
properties from the case alone.
"""
from __future__ import annotations

BASES = ["INT", "ID", "STRING"]
MATCH_PREFIX = ["%", "$", "@"]


# ---------------------------------------------------------------------------
# schema
# ---------------------------------------------------------------------------
def gen_schema(rng, multi=None, want_match=False):
    ncommon = rng.randint(2, 5)
    nabs = rng.weighted([(0, 2), (1, 4), (2, 3), (3, 1)])
    nmatch = rng.weighted([(0, 3), (1, 3), (2, 2)]) if not want_match else rng.randint(1, 3)
    commons = [f"R{i}" for i in range(ncommon)]
    abstracts = [f"A{j}" for j in range(nabs)]
    matches = []
    for j in range(nmatch):
        kind = rng.weighted([("re", 3), ("seq", 2), ("alt", 2 if j > 0 else 0)])
        m = {"name": f"M{j}", "kind": kind, "prefix": MATCH_PREFIX[j]}
        if kind == "alt":
            m["alts"] = [rng.choice([x["name"] for x in matches]), "INT"]
        matches.append(m)
    mnames = [m["name"] for m in matches]

    abs_rules = []
    for j, name in enumerate(abstracts):
        pool = commons + abstracts[j + 1:]
        k = rng.randint(1, min(4, len(pool)))
        alts = [{"rule": r, "wrap": rng.chance(0.15) and r in commons} for r in rng.sample(pool, k)]
        if rng.chance(0.35):
            # a match-rule alternative: its values are primitives, not model objects
            alts.insert(rng.randint(0, len(alts)), {"rule": rng.choice(["INT"] + mnames), "wrap": False})
        abs_rules.append({"name": name, "alts": alts})

    def rand_type(cont=True):
        return rng.choice(commons + abstracts + (abstracts if abstracts else []))

    rules = []
    for i, name in enumerate(commons):
        parts = [{"lit": f"r{i}"}]
        named = rng.chance(0.8)
        if named:
            parts.append({"attr": "name", "kind": "prim", "mult": "one", "type": "ID", "kw": "", "br": False, "sep": False})
        # A rule without braces must be "closed" (no optional or open-ended part), otherwise PEG
        # greediness lets a nested object swallow what the generator meant for its container.
        delim = rng.chance(0.6)
        if delim:
            parts.append({"lit": "{"})
        nattr = rng.weighted([(0, 1), (1, 3), (2, 4), (3, 3), (4, 1)])
        if not named and nattr == 0:
            nattr = 1  # a rule without assignments would be a match rule
        for a in range(nattr):
            an = f"a{a}"
            kw = f"k{i}{a}"  # unique per rule and never a prefix of another keyword
            kind = rng.weighted([("cont", 6), ("ref", 2), ("prim", 2), ("bool", 1 if delim else 0)])
            p = {"attr": an, "kind": kind, "kw": kw, "br": True, "sep": rng.chance(0.3)}
            prev_lit = "lit" in parts[-1] or parts[-1].get("attr") == "name"
            if kind == "cont":
                p["type"] = rand_type()
                if delim:
                    p["mult"] = rng.weighted([("one", 2), ("opt", 4), ("star", 4), ("plus", 1), ("rep", 1), ("two", 1)])
                else:
                    p["mult"] = rng.weighted([("one", 3), ("star", 4), ("plus", 1), ("two", 1)])
                if p["mult"] in ("star", "plus"):
                    p["br"] = rng.chance(0.5) if delim else True
                if p["mult"] in ("one", "two", "star", "plus") and prev_lit and rng.chance(0.5):
                    p["kw"] = ""
                if not p["br"]:
                    p["sep"] = False
            elif kind == "ref":
                p["type"] = rand_type()
                p["mult"] = rng.weighted([("opt", 3), ("star", 2)]) if delim else "star"
            elif kind == "prim":
                p["type"] = rng.choice(BASES + mnames)
                p["mult"] = rng.weighted([("one", 2), ("opt", 2), ("star", 1)]) if delim else rng.weighted([("one", 2), ("star", 1)])
            else:
                p["mult"] = "bool"
            parts.append(p)
        if delim:
            parts.append({"lit": "}"})
        rules.append({"name": name, "parts": parts, "named": named, "delim": delim})

    root = rng.weighted([("common", 6), ("abstract", 2 if abstracts else 0)])
    if multi is None:
        multi = rng.chance(0.25)
    schema = {
        "rules": rules,
        "abstracts": abs_rules,
        "matches": matches,
        "root": "multi" if multi else root,
        "top": rng.choice(commons + abstracts),
        "user": [r for r in commons if rng.chance(0.25)],
        "opts": {"auto_init_attributes": not rng.chance(0.2)},
    }
    if multi:
        schema["rules"] = [
            {"name": "Model", "named": False, "parts": [
                {"attr": "imports", "kind": "cont", "mult": "star", "type": "Import", "kw": "", "br": False, "sep": False},
                {"lit": "model"},
                {"attr": "items", "kind": "cont", "mult": "star", "type": schema["top"], "kw": "", "br": False, "sep": False},
            ]},
            {"name": "Import", "named": False, "parts": [
                {"lit": "import"},
                {"attr": "importURI", "kind": "prim", "mult": "one", "type": "STRING", "kw": "", "br": False, "sep": False},
                {"lit": ";"},
            ]},
        ] + rules
    fix_heights(schema)
    return schema


def rule_map(schema):
    return {r["name"]: r for r in schema["rules"]}


def abs_map(schema):
    return {a["name"]: a for a in schema["abstracts"]}


INF = 10 ** 6


def heights(schema):
    """minimal containment height of every rule (match alternatives: 0)."""
    rm, am = rule_map(schema), abs_map(schema)
    h = {n: INF for n in list(rm) + list(am)}
    changed = True
    while changed:
        changed = False
        for n, r in rm.items():
            v = 1
            for p in r["parts"]:
                if p.get("kind") == "cont" and p["mult"] in ("one", "two", "plus"):
                    v = max(v, 1 + h[p["type"]])
            v = min(v, INF)
            if v < h[n]:
                h[n], changed = v, True
        for n, a in am.items():
            v = min((h.get(x["rule"], 0) for x in a["alts"]), default=INF)
            if v < h[n]:
                h[n], changed = v, True
    return h


def fix_heights(schema):
    """make mandatory containment optional until every rule has a finite height."""
    for _ in range(50):
        h = heights(schema)
        bad = [n for n, v in h.items() if v >= INF]
        if not bad:
            return
        for r in schema["rules"]:
            if r["name"] in bad:
                for p in r["parts"]:
                    if p.get("kind") == "cont" and p["mult"] in ("one", "two", "plus") and h[p["type"]] >= INF:
                        if p["mult"] == "plus":
                            p["mult"] = "star"
                        else:
                            p["mult"] = "opt"
                            p["br"] = True
                            if not r.get("delim"):
                                # an optional part needs a closed container
                                r["delim"] = True
                                k0 = 2 if r.get("named") else 1
                                r["parts"].insert(k0, {"lit": "{"})
                                r["parts"].append({"lit": "}"})
                        if not p["kw"]:
                            p["kw"] = "k" + r["name"][1:] + p["attr"][1:]
                        break
                else:
                    continue
                break
    raise RuntimeError("schema heights do not converge")


def concrete_of(schema, tname):
    """common rules an attribute declared `tname` can hold."""
    rm, am = rule_map(schema), abs_map(schema)
    out, seen = [], set()

    def go(n):
        if n in seen:
            return
        seen.add(n)
        if n in rm:
            out.append(n)
        elif n in am:
            for x in am[n]["alts"]:
                go(x["rule"])

    go(tname)
    return out


# ---------------------------------------------------------------------------
# grammar text
# ---------------------------------------------------------------------------
def grammar_text(schema):
    lines = []
    rules = list(schema["rules"])

    def part_text(p):
        if "lit" in p:
            return f"'{p['lit']}'"
        a, t, kw = p["attr"], p.get("type"), (f"'{p['kw']}' " if p.get("kw") else "")
        if p["kind"] == "bool":
            return f"{a}?='{p['kw']}'"
        rhs = f"[{t}]" if p["kind"] == "ref" else t
        m = p["mult"]
        if m == "one":
            return f"{kw}{a}={rhs}"
        if m == "opt":
            return f"({kw}{a}={rhs})?"
        if m == "two":
            return f"{kw}{a}={rhs} {a}={rhs}"
        if m == "rep":
            return f"({kw}{a}={rhs})*"
        op = "*=" if m == "star" else "+="
        sep = "[',']" if p.get("sep") else ""
        if p.get("br"):
            return f"{kw}'[' {a}{op}{rhs}{sep} ']'"
        return f"{kw}{a}{op}{rhs}"

    def rule_text(r):
        return f"{r['name']}: " + " ".join(part_text(p) for p in r["parts"]) + ";"

    def abs_text(a):
        alts = []
        for x in a["alts"]:
            alts.append(f"'<' {x['rule']} '>'" if x["wrap"] else x["rule"])
        return f"{a['name']}: " + " | ".join(alts) + ";"

    def match_text(m):
        if m["kind"] == "re":
            return f"{m['name']}: /{re_pattern(m)}/;"
        if m["kind"] == "seq":
            return f"{m['name']}: '{m['prefix']}' INT ':' INT;"
        return f"{m['name']}: " + " | ".join(m["alts"]) + ";"

    if schema["root"] == "abstract":
        # the first rule of the grammar is the model rule
        tops = [a for a in schema["abstracts"]]
        first = tops[0]
        lines.append(abs_text(first))
        for r in rules:
            lines.append(rule_text(r))
        for a in tops[1:]:
            lines.append(abs_text(a))
    else:
        for r in rules:
            lines.append(rule_text(r))
        for a in schema["abstracts"]:
            lines.append(abs_text(a))
    for m in schema["matches"]:
        lines.append(match_text(m))
    return "\n".join(lines) + "\n"


# shapes of a regexp match rule (C33: `use_regexp_group` takes the value of a regexp with exactly one group
# from the group; the match still starts where the whole regexp matched):
#   plain  no group                      g1   one group behind a fixed part and optional white space
#   g1s    one group at the match start  g2   two groups            g0   only a non-capturing group
#   g1n    one capturing group behind a non-capturing one and optional white space
RE_SHAPES = ["plain", "g1", "g1s", "g2", "g0", "g1n"]


def re_pattern(m):
    p, shape = "\\" + m["prefix"], m.get("shape", "plain")
    return {
        "plain": p + "[a-z0-9]+",
        "g1": p + "<\\s*([a-z0-9]+)>",
        "g1s": "(" + p + "[a-z0-9]+)!",
        "g2": p + "([a-z]+)=\\s*([a-z0-9]+)",
        "g0": p + "(?:<)\\s*[a-z0-9]+>",
        "g1n": p + "(?:<|=)\\s*([a-z0-9]+)>",
    }[shape]


def re_lit(m, body, ws=""):
    """text of a value of regexp match rule `m` (`body`: the identifier part, `ws`: white space inside the match)."""
    p, shape = m["prefix"], m.get("shape", "plain")
    return {
        "plain": p + body,
        "g1": p + "<" + ws + body + ">",
        "g1s": p + body + "!",
        "g2": p + "k=" + ws + body,
        "g0": p + "<" + ws + body + ">",
        "g1n": p + "=" + ws + body + ">",
    }[shape]


def re_group_start(m, lit):
    """offset inside `lit` at which the only capturing group of the rule's regexp starts (None: not exactly one)."""
    shape = m.get("shape", "plain")
    if shape == "g1s":
        return 0
    if shape in ("g1", "g1n"):
        return len(lit) - 1 - len(lit[2:-1].lstrip())
    return None


def apply_re_shapes(case, rng, p_shape=0.7):
    """give the regexp match rules of a generated case one of `RE_SHAPES` and rewrite their values
    (white space inside a match is chosen here, per value, so that rendering stays a function of the case)."""
    mm = {m["name"]: m for m in case["schema"]["matches"]}
    for m in mm.values():
        if m["kind"] == "re" and rng.chance(p_shape):
            m["shape"] = rng.weighted([("g1", 5), ("g1n", 2), ("g1s", 1), ("g2", 2), ("g0", 1)])

    def fix(v):
        if isinstance(v, list):
            for x in v:
                fix(x)
        elif isinstance(v, dict):
            if "uid" in v:
                for x in v["vals"].values():
                    fix(x)
            elif "inner" in v:
                fix(v["inner"])
                v["lit"] = v["inner"]["lit"]
            elif v.get("rule") in mm and mm[v["rule"]]["kind"] == "re" and "shape" in mm[v["rule"]]:
                m = mm[v["rule"]]
                body = v.setdefault("body", v["lit"][len(m["prefix"]):])
                ws = rng.weighted([("", 3), (" ", 2), ("\n", 2), ("\n   ", 2), ("  \n\n ", 1)])
                v["lit"] = re_lit(m, body, ws)

    for f in case["files"]:
        fix(f["root"])
    return [m["name"] for m in mm.values() if "shape" in m]


def root_rule(schema):
    if schema["root"] == "multi":
        return "Model"
    if schema["root"] == "abstract":
        return schema["abstracts"][0]["name"]
    return schema["rules"][0]["name"]


# ---------------------------------------------------------------------------
# models
# ---------------------------------------------------------------------------
class _Gen:
    def __init__(self, rng, schema, cap):
        self.rng, self.schema = rng, schema
        self.rm, self.am = rule_map(schema), abs_map(schema)
        self.mm = {m["name"]: m for m in schema["matches"]}
        self.h = heights(schema)
        self.cap = cap
        self.count = 0
        self.uid = 0
        self.lit = 0

    # --- primitive values: PEG ordered choice decides which alternative derives a token, so a
    # value is generated as (token kind, route through the first alternative able to derive it)
    def kinds(self, name, seen=()):
        if name == "INT":
            return ["INT"]
        if name in ("ID", "STRING"):
            return [name]
        if name in self.mm:
            m = self.mm[name]
            if m["kind"] in ("re", "seq"):
                return [m["kind"] + ":" + name]
            out = []
            for a in m["alts"]:
                out += [k for k in self.kinds(a) if k not in out]
            return out
        if name in self.am and name not in seen:
            out = []
            for x in self.am[name]["alts"]:
                out += [k for k in self.kinds(x["rule"], seen + (name,)) if k not in out]
            return out
        return []

    def derive(self, name, kind):
        self.lit += 1
        n = self.lit
        if name == "INT":
            return {"lit": str(n % 97), "rule": "INT"}
        if name == "ID":
            return {"lit": f"x{n}", "rule": "ID"}
        if name == "STRING":
            return {"lit": f'"s{n}"', "rule": "STRING"}
        if name in self.am:
            for x in self.am[name]["alts"]:
                if kind in self.kinds(x["rule"]):
                    return self.derive(x["rule"], kind)
            raise RuntimeError("no route")
        m = self.mm[name]
        if m["kind"] == "re":
            return {"lit": f"{m['prefix']}v{n}", "rule": name}
        if m["kind"] == "seq":
            return {"lit": f"{m['prefix']} {n % 50} : {n % 7}", "rule": name, "parts": [n % 50, n % 7]}
        for a in m["alts"]:
            if kind in self.kinds(a):
                inner = self.derive(a, kind)
                return {"lit": inner["lit"], "rule": name, "inner": inner}
        raise RuntimeError("no route")

    def literal(self, t):
        return self.derive(t, self.rng.choice(self.kinds(t)))

    def can_obj(self, name, budget, seen=()):
        if name in self.rm:
            return self.h[name] <= budget
        if name in self.am and name not in seen:
            return any(self.can_obj(x["rule"], budget, seen + (name,)) for x in self.am[name]["alts"])
        return False

    def value(self, t, budget, want=None):
        if t in self.rm:
            return self.obj(t, budget)
        if t in self.am:
            objs = [x for x in self.am[t]["alts"] if self.can_obj(x["rule"], budget)]
            prims = self.kinds(t)
            if want is None:
                want = "obj" if objs and (not prims or (self.count < self.cap and self.rng.chance(0.75))) else "prim"
            if want == "obj":
                x = self.rng.choice(objs)
                v = self.value(x["rule"], budget, "obj")
                if x["wrap"] and isinstance(v, dict) and "uid" in v:
                    v["wrap"] = v.get("wrap", 0) + 1
                return v
            return self.literal(t)
        return self.literal(t)

    def obj(self, rule, budget):
        self.count += 1
        self.uid += 1
        o = {"uid": self.uid, "rule": rule, "vals": {}}
        r = self.rm[rule]
        for p in r["parts"]:
            if "lit" in p:
                continue
            a, k, m = p["attr"], p["kind"], p["mult"]
            if a == "name":
                o["vals"][a] = {"lit": f"n{o['uid']}", "rule": "ID"}
                continue
            if k == "bool":
                o["vals"][a] = self.rng.chance(0.5)
            elif k == "prim":
                if m == "one":
                    o["vals"][a] = self.literal(p["type"])
                elif m == "opt":
                    o["vals"][a] = self.literal(p["type"]) if self.rng.chance(0.6) else None
                else:
                    o["vals"][a] = [self.literal(p["type"]) for _ in range(self.rng.randint(0, 3))]
            elif k == "ref":
                o["vals"][a] = {"want": "opt"} if m == "opt" else {"want": "star"}
            else:
                t = p["type"]
                room = self.h[t] <= budget - 1 and self.count < self.cap
                if m == "one":
                    o["vals"][a] = self.value(t, budget - 1)
                elif m == "two":
                    o["vals"][a] = [self.value(t, budget - 1), self.value(t, budget - 1)]
                elif m == "opt":
                    o["vals"][a] = self.value(t, budget - 1) if room and self.rng.chance(0.65) else None
                else:
                    lo = 1 if m == "plus" else 0
                    n = self.rng.randint(lo, 3) if room else lo
                    o["vals"][a] = [self.value(t, budget - 1) for _ in range(n)]
        return o


def walk_objs(v):
    """all objects of a case value, pre-order."""
    if isinstance(v, list):
        for x in v:
            yield from walk_objs(x)
    elif isinstance(v, dict) and "uid" in v:
        yield v
        for x in v["vals"].values():
            yield from walk_objs(x)


def gen_case(rng, multi=None, want_match=False, cap=18):
    schema = gen_schema(rng, multi=multi, want_match=want_match)
    g = _Gen(rng, schema, cap)
    h = g.h
    nfiles = rng.weighted([(2, 3), (3, 2)]) if schema["root"] == "multi" else 1
    files = []
    for k in range(nfiles):
        g.count = 0
        depth = rng.randint(2, 5)
        if schema["root"] == "multi":
            root = g.obj("Model", max(depth, h["Model"]) + 1)
        else:
            rr = root_rule(schema)
            budget = max(depth, h[rr])
            while not g.can_obj(rr, budget):
                budget += 1  # the object alternatives of an abstract root rule need more depth
                if budget > 50:
                    raise RuntimeError("no object root")
            root = g.value(rr, budget, "obj")
        files.append({"root": root, "imports": []})
    if nfiles > 1:
        for j in range(1, nfiles):
            files[rng.below(j)]["imports"].append(j)
        if rng.chance(0.4):
            a, b = rng.below(nfiles), rng.below(nfiles)
            if a != b and b not in files[a]["imports"]:
                files[a]["imports"].append(b)
        for f in files:
            f["root"]["vals"]["imports"] = []
            for j in f["imports"]:
                g.uid += 1
                f["root"]["vals"]["imports"].append(
                    {"uid": g.uid, "rule": "Import", "vals": {"importURI": {"lit": f'"f{j}.m"', "rule": "STRING"}}})
    # references: same file or directly imported file, target of a compatible class with a name
    rm = rule_map(schema)
    named = {k: [o for o in walk_objs(f["root"]) if rm[o["rule"]].get("named")] for k, f in enumerate(files)}
    nref = 0
    for k, f in enumerate(files):
        visible = named[k] + [o for j in f["imports"] for o in named[j]]
        for o in walk_objs(f["root"]):
            for p in rm[o["rule"]]["parts"]:
                if p.get("kind") != "ref":
                    continue
                ok = set(concrete_of(schema, p["type"]))
                cands = [t for t in visible if t["rule"] in ok]
                if p["mult"] == "opt":
                    if cands and rng.chance(0.75):
                        o["vals"][p["attr"]] = {"ref": rng.choice(cands)["uid"], "wait": rng.weighted([(0, 6), (1, 2), (2, 1)])}
                        nref += 1
                    else:
                        o["vals"][p["attr"]] = None
                else:
                    n = rng.randint(0, 3) if cands else 0
                    o["vals"][p["attr"]] = [
                        {"ref": rng.choice(cands)["uid"], "wait": rng.weighted([(0, 6), (1, 2), (2, 1)])} for _ in range(n)]
                    nref += n
    return {"schema": schema, "files": files, "from_file": nfiles > 1 or rng.chance(0.3)}


# ---------------------------------------------------------------------------
# rendering (records positions independently of textX)
# ---------------------------------------------------------------------------
class Rendered:
    pass


class _FileRenderer:
    def __init__(self, case, out, k, lay, names):
        self.schema = case["schema"]
        self.rm = rule_map(self.schema)
        self.mm = {x["name"]: x for x in self.schema["matches"]}
        self.out, self.k, self.lay, self.names = out, k, lay, names
        self.buf, self.pos, self.started, self.last_end = [], 0, False, 0
        self.open = []  # records of the objects being rendered (for start offsets)

    def emit(self, tok):
        """append a token (after whitespace, except for the first one); return its start offset."""
        if self.started:
            ws = self.lay.weighted([(" ", 6), ("\n", 2), ("  ", 1), ("\n  ", 1), ("\t", 1)])
            self.buf.append(ws)
            self.pos += len(ws)
        self.started = True
        start = self.pos
        self.buf.append(tok)
        self.pos += len(tok)
        self.last_end = self.pos
        for rec in self.open:
            if rec["start"] is None:
                rec["start"] = start
        return start

    def literal(self, v):
        """a match-rule value; records the match-processor calls it causes (inner before outer) and the
        match parse tree `[rule, start, kids | None]` (`None`: a terminal; rule "" = a string match)."""
        s, tree = self._literal(v)
        self.out.mtrees.append((self.k, tree))
        return s

    def _literal(self, v):
        rule, k = v["rule"], self.k
        if "inner" in v:
            s, t = self._literal(v["inner"])
            self.out.matches.append((k, rule, s, v["lit"]))
            return s, [rule, s, [t]]
        if "parts" in v:
            m = self.mm[rule]
            s = self.emit(m["prefix"])
            s1 = self.emit(str(v["parts"][0]))
            self.out.matches.append((k, "INT", s1, str(v["parts"][0])))
            sc = self.emit(":")
            s2 = self.emit(str(v["parts"][1]))
            self.out.matches.append((k, "INT", s2, str(v["parts"][1])))
            self.out.matches.append((k, rule, s, f"{m['prefix']}{v['parts'][0]}:{v['parts'][1]}"))
            return s, [rule, s, [["", s, None], ["INT", s1, None], ["", sc, None], ["INT", s2, None]]]
        s = self.emit(v["lit"])
        self.out.matches.append((k, rule, s, v["lit"]))
        return s, [rule, s, None]

    def value(self, v, decl, parent, attr, idx):
        if isinstance(v, dict) and "uid" in v:
            for _ in range(v.get("wrap", 0)):
                self.emit("<")
            self.obj(v, decl, parent, attr, idx)
            for _ in range(v.get("wrap", 0)):
                self.emit(">")
        else:
            self.literal(v)

    def obj(self, o, decl, parent, attr, idx):
        rec = {"file": self.k, "rule": o["rule"], "decl": decl, "parent": parent, "attr": attr, "idx": idx,
               "start": None, "end": None}
        self.out.objs[o["uid"]] = rec
        self.open.append(rec)
        tok = self.emit
        for p in self.rm[o["rule"]]["parts"]:
            if "lit" in p:
                tok(p["lit"])
                continue
            a, kind, m = p["attr"], p["kind"], p["mult"]
            v = o["vals"].get(a)
            if kind == "bool":
                if v:
                    tok(p["kw"])
                continue
            if kind == "ref":
                if m == "opt" and not v:
                    continue
                items = [v] if m == "opt" else v
                if p["kw"]:
                    tok(p["kw"])
                if m == "star":
                    tok("[")
                for j, r in enumerate(items):
                    if j and p.get("sep"):
                        tok(",")
                    s = tok(self.names[r["ref"]])
                    self.out.matches.append((self.k, "ID", s, self.names[r["ref"]]))
                    self.out.mtrees.append((self.k, ["ID", s, None]))
                    self.out.refs.append((self.k, s, o["uid"], a, r["ref"], r.get("wait", 0)))
                if m == "star":
                    tok("]")
                continue
            # prim / cont
            if m == "opt":
                if v is None:
                    continue
                items = [v]
            elif m == "one":
                items = [v]
            else:
                items = v
            if m == "rep":
                for j, x in enumerate(items):
                    tok(p["kw"])
                    self.value(x, p["type"], o["uid"], a, j)
                continue
            if p["kw"]:
                tok(p["kw"])
            brackets = m in ("star", "plus") and p.get("br")
            if brackets:
                tok("[")
            for j, x in enumerate(items):
                if j and p.get("sep") and m in ("star", "plus"):
                    tok(",")
                self.value(x, p["type"], o["uid"], a, j if m not in ("one", "opt") else None)
            if brackets:
                tok("]")
        rec["end"] = self.last_end
        self.open.pop()


def render(case, layout_seed=0):
    """-> Rendered with
    .grammar, .texts[k],
    .objs {uid: {file, rule, decl (declared rule of the holding attribute), parent uid, attr, idx, start, end}},
    .matches [(file, rule, offset, text)] — match-processor calls in call order per file,
    .mtrees [(file, [rule, offset, kids | None])] — the match parse trees behind them, same order,
    .refs [(file, offset, source uid, attr, target uid, wait)]."""
    from harness.core import Rng

    out = Rendered()
    out.grammar = grammar_text(case["schema"])
    out.texts, out.objs, out.matches, out.refs = [], {}, [], []
    out.mtrees = []
    lay = Rng(f"layout:{layout_seed}")
    names = {}
    for f in case["files"]:
        for o in walk_objs(f["root"]):
            if "name" in o["vals"]:
                names[o["uid"]] = o["vals"]["name"]["lit"]
    for k, f in enumerate(case["files"]):
        fr = _FileRenderer(case, out, k, lay, names)
        lead = lay.weighted([("", 5), ("\n", 1), ("  ", 1)])
        fr.buf.append(lead)
        fr.pos = len(lead)
        root = f["root"]
        fr.value(root, root_rule(case["schema"]), None, None, None)
        tail = lay.weighted([("\n", 5), ("", 2), (" \n", 1)])
        out.texts.append("".join(fr.buf) + tail)
    return out


def line_col(text, offset):
    """1-based line and column of an offset, straight from the definition."""
    before = text[:offset]
    line = before.count("\n") + 1
    col = offset - (before.rfind("\n") + 1) + 1
    return line, col


# ---------------------------------------------------------------------------
# grammars spread over several files (`import`)
# ---------------------------------------------------------------------------
def rule_uses(schema):
    """rule name -> names of the grammar rules its body mentions (base types excluded)."""
    uses = {}
    for r in schema["rules"]:
        uses[r["name"]] = {p["type"] for p in r["parts"] if p.get("type") and p["type"] not in BASES}
    for a in schema["abstracts"]:
        uses[a["name"]] = {x["rule"] for x in a["alts"] if x["rule"] not in BASES}
    for m in schema["matches"]:
        uses[m["name"]] = {x for x in m.get("alts", []) if x not in BASES}
    return uses


def split_levels(schema, rng, nfiles):
    """Assign every rule to one of `nfiles` grammar files g0..g{n-1} such that a rule only
    mentions rules of its own file or of a file with a higher number (imports are acyclic) and
    the model rule is in g0: mutually recursive rules share a file, a rule goes into the file of
    its deepest user or one below it.  Returns {rule: file number}."""
    uses = rule_uses(schema)
    names = list(uses)
    # strongly connected components (Tarjan), numbered in reverse topological order
    index, low, comp, stack, on = {}, {}, {}, [], set()
    comps = []

    def visit(v):
        index[v] = low[v] = len(index)
        stack.append(v)
        on.add(v)
        for w in sorted(uses[v]):
            if w not in index:
                visit(w)
                low[v] = min(low[v], low[w])
            elif w in on:
                low[v] = min(low[v], index[w])
        if low[v] == index[v]:
            c = []
            while True:
                w = stack.pop()
                on.discard(w)
                comp[w] = len(comps)
                c.append(w)
                if w == v:
                    break
            comps.append(c)

    for v in names:
        if v not in index:
            visit(v)
    users = {i: set() for i in range(len(comps))}
    for x, ys in uses.items():
        for y in ys:
            if comp[x] != comp[y]:
                users[comp[y]].add(comp[x])
    # the model rule and every rule that (transitively) mentions it stay in g0
    top, todo = {comp[root_rule(schema)]}, [comp[root_rule(schema)]]
    while todo:
        for u in users[todo.pop()]:
            if u not in top:
                top.add(u)
                todo.append(u)
    # the other components in an order in which users come before the rules they use (Tarjan numbers
    # components in reverse topological order), cut into at most nfiles-1 consecutive groups
    rest = [i for i in range(len(comps) - 1, -1, -1) if i not in top]
    clev = {i: 0 for i in top}
    if rest:
        ncut = min(nfiles - 1, len(rest)) - 1
        cuts = sorted(rng.sample(list(range(1, len(rest))), ncut)) if ncut > 0 else []
        lev = 1
        for pos, i in enumerate(rest):
            if cuts and pos == cuts[0]:
                cuts.pop(0)
                lev += 1
            clev[i] = lev
    return {n: clev[comp[n]] for n in names}


def grammar_files(schema, levels):
    """-> [text of g0.tx, text of g1.tx, …]; a file imports exactly the files whose rules it
    mentions itself, so rules may be reachable from g0 through a chain of imports only."""
    nfiles = max(levels.values()) + 1
    uses = rule_uses(schema)
    whole = grammar_text(schema).split("\n")
    per = [[] for _ in range(nfiles)]
    for line in whole:
        if line:
            per[levels[line.split(":", 1)[0]]].append(line)
    out = []
    for i in range(nfiles):
        imps = sorted({levels[y] for x, ys in uses.items() if levels[x] == i for y in ys} - {i})
        out.append("".join(f"import g{j}\n" for j in imps) + "\n".join(per[i]) + "\n")
    return out


def loaded_rules(schema, levels):
    """rules of the grammar files that g0 imports, directly or through other files."""
    uses = rule_uses(schema)
    imports = {}
    for x, ys in uses.items():
        imports.setdefault(levels[x], set()).update(levels[y] for y in ys)
    seen, todo = {0}, [0]
    while todo:
        for j in imports.get(todo.pop(), ()):
            if j not in seen:
                seen.add(j)
                todo.append(j)
    return {x for x in uses if levels[x] in seen}
