"""Tie T for C04 / C21: regenerate Lean definitions from the live textX source.

  lean/TextxVerif/Gen/Regexes.lean  <- textx.lang.{ID,BOOL,INT,FLOAT,STRICTFLOAT,STRING}.to_match_regex,
                                       TextXVisitor(...).keyword_regex, and what visit_str_match builds
                                       for a probe literal under autokwd (with and without ignore_case)
  lean/TextxVerif/Gen/Procs.lean    <- the lambdas of TextXMetaModel._default_obj_processors
                                       (textx/metamodel.py), read with `ast`

Regexes are parsed by Python's own `re._parser` and mapped to the AST of
TextxVerif/Re.lean.  Anything outside the supported fragment raises
`Untranslatable` (a broken tie, never a silent default).  Files are rewritten
only when their bytes change.

The same translation, as JSON, is what the harness sends to the Lean driver
(`to_json`) so the matcher can be compared with `re` on arbitrary patterns of
the fragment.
"""
from __future__ import annotations

import ast
import os
import re

from harness.core import LEAN_DIR, use_repo

try:  # Python >= 3.11
    import re._parser as sre_parse
    import re._constants as sre_c
except ImportError:  # pragma: no cover
    import sre_parse
    import sre_constants as sre_c


class Untranslatable(Exception):
    pass


# ---------------------------------------------------------------------------
# regex -> tuple tree
#   ("eps",) ("chr", cp) ("chrI", cp) ("cls", neg, items) ("seq", a, b) ("alt", a, b)
#   ("star", greedy, r) ("opt", greedy, r) ("plus", greedy, r) ("wordB", neg) ("ahead", neg, r)
#   ("behind", neg, cneg, items);  items: ("c", cp) ("r", lo, hi) ("k", cat, neg)
# ---------------------------------------------------------------------------
CATS = {
    sre_c.CATEGORY_DIGIT: ("digit", False),
    sre_c.CATEGORY_NOT_DIGIT: ("digit", True),
    sre_c.CATEGORY_WORD: ("word", False),
    sre_c.CATEGORY_NOT_WORD: ("word", True),
    sre_c.CATEGORY_SPACE: ("space", False),
    sre_c.CATEGORY_NOT_SPACE: ("space", True),
}


def _cased(cp):
    c = chr(cp)
    return c.lower() != c or c.upper() != c


def _items(av, icase):
    neg = False
    items = []
    for op, a in av:
        if op is sre_c.NEGATE:
            neg = True
        elif op is sre_c.LITERAL:
            if icase and _cased(a):
                raise Untranslatable("cased literal inside a set under IGNORECASE")
            items.append(("c", a))
        elif op is sre_c.RANGE:
            if icase and any(_cased(x) for x in range(a[0], min(a[1], a[0] + 200) + 1)):
                raise Untranslatable("cased range inside a set under IGNORECASE")
            items.append(("r", a[0], a[1]))
        elif op is sre_c.CATEGORY:
            if a not in CATS:
                raise Untranslatable(f"category {a}")
            items.append(("k",) + CATS[a])
        else:
            raise Untranslatable(f"set member {op}")
    # the order of the members of a set is irrelevant: normalise it, so that e.g. `[+-]` -> `[-+]` is no change
    items.sort(key=lambda it: (it[0], [str(x) for x in it[1:]]) if it[0] == "k" else (it[0], list(it[1:])))
    return neg, items


def _seq(nodes, flags):
    parts = [_node(op, av, flags) for op, av in nodes]
    if not parts:
        return ("eps",)
    t = parts[-1]
    for p in reversed(parts[:-1]):
        t = ("seq", p, t)
    return t


def _one_char_set(body, icase):
    """body of a look-behind: exactly one single-character item"""
    if len(body) != 1:
        raise Untranslatable("look-behind wider than one character")
    op, av = body[0]
    if op is sre_c.IN:
        return _items(av, icase)
    if op is sre_c.LITERAL:
        if icase and _cased(av):
            raise Untranslatable("cased literal in look-behind under IGNORECASE")
        return False, [("c", av)]
    if op is sre_c.NOT_LITERAL:
        return True, [("c", av)]
    raise Untranslatable(f"look-behind body {op}")


def _node(op, av, flags):
    icase = bool(flags & re.IGNORECASE)
    if op is sre_c.LITERAL:
        return ("chrI", av) if icase else ("chr", av)
    if op is sre_c.NOT_LITERAL:
        if icase and _cased(av):
            raise Untranslatable("cased NOT_LITERAL under IGNORECASE")
        return ("cls", True, [("c", av)])
    if op is sre_c.ANY:
        return ("cls", True, [] if flags & re.DOTALL else [("c", 10)])
    if op is sre_c.IN:
        neg, items = _items(av, icase)
        return ("cls", neg, items)
    if op is sre_c.BRANCH:
        alts = [_seq(list(a), flags) for a in av[1]]
        t = alts[-1]
        for a in reversed(alts[:-1]):
            t = ("alt", a, t)
        return t
    if op is sre_c.SUBPATTERN:
        _group, add_flags, del_flags, body = av
        if add_flags or del_flags:
            raise Untranslatable("inline flags")
        return _seq(list(body), flags)
    if op in (sre_c.MAX_REPEAT, sre_c.MIN_REPEAT):
        lo, hi, body = av
        greedy = op is sre_c.MAX_REPEAT
        b = _seq(list(body), flags)
        if hi is sre_c.MAXREPEAT:
            if lo == 0:
                return ("star", greedy, b)
            tail = ("plus", greedy, b)
            lo -= 1
        else:
            if hi - lo > 8 or lo > 8:
                raise Untranslatable("large counted repetition")
            tail = None
            for _ in range(hi - lo):
                tail = ("opt", greedy, b if tail is None else ("seq", b, tail))
        for _ in range(lo):
            tail = b if tail is None else ("seq", b, tail)
        return tail if tail is not None else ("eps",)
    if op is sre_c.AT:
        if av is sre_c.AT_BOUNDARY:
            return ("wordB", False)
        if av is sre_c.AT_NON_BOUNDARY:
            return ("wordB", True)
        raise Untranslatable(f"anchor {av}")
    if op in (sre_c.ASSERT, sre_c.ASSERT_NOT):
        direction, body = av
        neg = op is sre_c.ASSERT_NOT
        if direction == 1:
            return ("ahead", neg, _seq(list(body), flags))
        cneg, items = _one_char_set(list(body), icase)
        return ("behind", neg, cneg, items)
    raise Untranslatable(f"regex construct {op}")


def translate(pattern: str, flags: int = 0):
    """pattern string (+ re flags) -> tuple tree"""
    if flags & (re.VERBOSE | re.ASCII | re.LOCALE):
        raise Untranslatable("flags X/A/L")
    try:
        p = sre_parse.parse(pattern, flags)
    except re.error as e:
        raise Untranslatable(f"re.error: {e}") from e
    fl = p.state.flags
    if fl & (re.VERBOSE | re.ASCII | re.LOCALE):
        raise Untranslatable("flags X/A/L")
    return _seq(list(p), fl)


def expand(t):
    """remove the opt / plus shorthands (the driver's JSON has only core constructors)"""
    k = t[0]
    if k == "opt":
        r = expand(t[2])
        return ("alt", r, ("eps",)) if t[1] else ("alt", ("eps",), r)
    if k == "plus":
        r = expand(t[2])
        return ("seq", r, ("star", t[1], r))
    if k in ("seq", "alt"):
        return (k, expand(t[1]), expand(t[2]))
    if k == "star":
        return ("star", t[1], expand(t[2]))
    if k == "ahead":
        return ("ahead", t[1], expand(t[2]))
    return t


def to_json(t):
    t = expand(t)

    def items(xs):
        return [list(x) for x in xs]

    def go(t):
        k = t[0]
        if k in ("eps",):
            return ["eps"]
        if k in ("chr", "chrI", "wordB"):
            return [k, t[1]]
        if k == "cls":
            return ["cls", t[1], items(t[2])]
        if k in ("seq", "alt"):
            return [k, go(t[1]), go(t[2])]
        if k in ("star", "ahead"):
            return [k, t[1], go(t[2])]
        if k == "behind":
            return ["behind", t[1], t[2], items(t[3])]
        raise Untranslatable(k)

    return go(t)


# ---------------------------------------------------------------------------
# Lean rendering
# ---------------------------------------------------------------------------
def lean_char(cp):
    c = chr(cp)
    if 32 <= cp < 127 and c not in "'\\":
        return f"'{c}'"
    if c == "'":
        return "'\\''"
    if c == "\\":
        return "'\\\\'"
    return f"(Char.ofNat {cp})"


def lean_bool(b):
    return "true" if b else "false"


def lean_items(items):
    out = []
    for it in items:
        if it[0] == "c":
            out.append(f".chr {lean_char(it[1])}")
        elif it[0] == "r":
            out.append(f".range {lean_char(it[1])} {lean_char(it[2])}")
        else:
            out.append(f".cat .{it[1]} {lean_bool(it[2])}")
    return "[" + ", ".join(out) + "]"


def lean_re(t):
    k = t[0]
    if k == "eps":
        return ".eps"
    if k in ("chr", "chrI"):
        return f"(.{k} {lean_char(t[1])})"
    if k == "cls":
        return f"(.cls {lean_bool(t[1])} {lean_items(t[2])})"
    if k in ("seq", "alt"):
        return f"(.{k} {lean_re(t[1])} {lean_re(t[2])})"
    if k == "star":
        return f"(.star {lean_bool(t[1])} {lean_re(t[2])})"
    if k == "opt":
        if not t[1]:
            return f"(.alt .eps {lean_re(t[2])})"
        return f"(R.opt {lean_re(t[2])})"
    if k == "plus":
        if not t[1]:
            return f"(.seq {lean_re(t[2])} (.star false {lean_re(t[2])}))"
        return f"(R.plus {lean_re(t[2])})"
    if k == "wordB":
        return f"(.wordB {lean_bool(t[1])})"
    if k == "ahead":
        return f"(.ahead {lean_bool(t[1])} {lean_re(t[2])})"
    if k == "behind":
        return f"(.behind {lean_bool(t[1])} {lean_bool(t[2])} {lean_items(t[3])})"
    raise Untranslatable(k)


# ---------------------------------------------------------------------------
# live source objects
# ---------------------------------------------------------------------------
BASE_TYPES = ["ID", "BOOL", "INT", "FLOAT", "STRICTFLOAT", "STRING"]
PROBE = "kw_1"  # a keyword-like literal: what does visit_str_match build for it?


class _MM:
    debug = False

    def __init__(self, ignore_case, autokwd):
        self.ignore_case = ignore_case
        self.autokwd = autokwd


def live_base_regex(name):
    """(pattern, flags) of a base type as Arpeggio compiles it"""
    use_repo()
    from textx import lang

    r = getattr(lang, name)
    r.compile()
    return r.regex.pattern, r.regex.flags


def live_keyword_regex(ignore_case=False):
    use_repo()
    from textx.lang import TextXVisitor

    v = TextXVisitor(None, _MM(ignore_case, True))
    return v.keyword_regex.pattern, v.keyword_regex.flags


def live_str_match(literal, ignore_case, autokwd):
    """What visit_str_match compiles a grammar literal (given unquoted) to:
    ("str", to_match, ignore_case) or ("re", pattern, flags, str_repr)."""
    use_repo()
    from arpeggio import RegExMatch, StrMatch
    from textx.lang import TextXVisitor

    v = TextXVisitor(None, _MM(ignore_case, autokwd))
    m = v.visit_str_match(None, ["'" + literal + "'"])
    if isinstance(m, RegExMatch):
        if not hasattr(m, "regex"):
            m.compile()
        return ("re", m.regex.pattern, m.regex.flags, m.to_match)
    if isinstance(m, StrMatch):
        return ("str", m.to_match, bool(m.ignore_case))
    raise Untranslatable(f"visit_str_match returned {type(m).__name__}")


def gen_regexes():
    out = [
        "import TextxVerif.Re",
        "/-! GENERATED by harness/translate_re.py from the live textX source (textx/lang.py) on every",
        "check run — do not edit.  Capturing groups dropped, `x?` = `R.opt x`, `x+` = `R.plus x`. -/",
        "namespace Gen.Regexes",
        "open Re",
        "",
    ]
    for n in BASE_TYPES:
        pat, fl = live_base_regex(n)
        out.append(f"/-- `textx.lang.{n}`: {pat!r} -/".replace("-/ -/", "-/"))
        out.append(f"def {n} : R :=\n  {lean_re(translate(pat, fl))}")
        out.append("")
    pat, fl = live_keyword_regex(False)
    out.append(f"/-- `TextXVisitor.keyword_regex`: {pat!r} -/")
    out.append(f"def keyword : R :=\n  {lean_re(translate(pat, fl))}")
    out.append("")
    pat, fl = live_keyword_regex(True)
    out.append(f"/-- `TextXVisitor.keyword_regex` when the metamodel has ignore_case: {pat!r} + IGNORECASE -/")
    out.append(f"def keywordI : R :=\n  {lean_re(translate(pat, fl))}")
    out.append("")
    for nm, ic in (("kwProbe", False), ("kwProbeI", True)):
        got = live_str_match(PROBE, ic, True)
        if got[0] != "re":
            raise Untranslatable(f"visit_str_match({PROBE!r}) under autokwd no longer builds a regex match: {got}")
        out.append(f"/-- what `visit_str_match` builds for the literal {PROBE!r} with autokwd"
                   f"{' and ignore_case' if ic else ''}: {got[1]!r} -/")
        out.append(f"def {nm} : R :=\n  {lean_re(translate(got[1], got[2]))}")
        out.append("")
    got = live_str_match("+=", False, True)
    out.append(f"/-- `visit_str_match` keeps a plain string match for the literal '+=' under autokwd -/")
    out.append(f"def symProbeIsStr : Bool := {lean_bool(got[0] == 'str' and got[1] == '+=')}")
    out.append("")
    out.append("end Gen.Regexes")
    return "\n".join(out) + "\n"


# ---------------------------------------------------------------------------
# the default processor lambdas (tiny Python subset -> Lean terms)
# ---------------------------------------------------------------------------
def lean_str_lit(s):
    return "[" + ", ".join(lean_char(ord(c)) for c in s) + "]"


class _Lam:
    def __init__(self, arg):
        self.arg = arg

    def const_int(self, e):
        if isinstance(e, ast.Constant) and isinstance(e.value, int) and not isinstance(e.value, bool):
            return e.value
        if isinstance(e, ast.UnaryOp) and isinstance(e.op, ast.USub):
            return -self.const_int(e.operand)
        raise Untranslatable("non-constant index")

    def expr(self, e):
        """-> (type, lean term); type in str / bool / val"""
        if isinstance(e, ast.Name):
            if e.id != self.arg:
                raise Untranslatable(f"free variable {e.id}")
            return "str", "x"
        if isinstance(e, ast.Constant) and isinstance(e.value, str):
            return "str", lean_str_lit(e.value)
        if isinstance(e, ast.Compare) and len(e.ops) == 1 and isinstance(e.ops[0], (ast.Eq, ast.NotEq)):
            ta, a = self.expr(e.left)
            tb, b = self.expr(e.comparators[0])
            if ta != "str" or tb != "str":
                raise Untranslatable("comparison of non-strings")
            return "bool", f"({a} {'==' if isinstance(e.ops[0], ast.Eq) else '!='} {b})"
        if isinstance(e, ast.BoolOp):
            parts = [self.expr(v) for v in e.values]
            if any(t != "bool" for t, _ in parts):
                raise Untranslatable("and/or on non-bools")
            op = " || " if isinstance(e.op, ast.Or) else " && "
            return "bool", "(" + op.join(p for _, p in parts) + ")"
        if isinstance(e, ast.UnaryOp) and isinstance(e.op, ast.Not):
            t, a = self.expr(e.operand)
            if t != "bool":
                raise Untranslatable("not on non-bool")
            return "bool", f"(!{a})"
        if isinstance(e, ast.IfExp):
            tc, c = self.expr(e.test)
            ta, a = self.expr(e.body)
            tb, b = self.expr(e.orelse)
            if tc != "bool" or ta != tb:
                raise Untranslatable("conditional expression")
            return ta, f"(if {c} then {a} else {b})"
        if isinstance(e, ast.Subscript):
            t, a = self.expr(e.value)
            if t != "str":
                raise Untranslatable("subscript of non-string")
            s = e.slice
            if isinstance(s, ast.Slice):
                if s.step is not None:
                    raise Untranslatable("slice step")
                if s.lower is None or s.upper is None:
                    raise Untranslatable("open slice")
                return "str", f"(Py.slice {a} ({self.const_int(s.lower)}) ({self.const_int(s.upper)}))"
            return "str", f"(Py.item {a} ({self.const_int(s)}))"
        if isinstance(e, ast.Call) and not e.keywords:
            f = e.func
            if isinstance(f, ast.Name) and f.id in ("int", "float") and len(e.args) == 1:
                t, a = self.expr(e.args[0])
                if t != "str":
                    raise Untranslatable("int()/float() of non-string")
                return "val", f"(Py.Val.{f.id} {a})"
            if isinstance(f, ast.Attribute):
                t, a = self.expr(f.value)
                if t != "str":
                    raise Untranslatable("method of non-string")
                if f.attr == "lower" and not e.args:
                    return "str", f"(Py.lower {a})"
                if f.attr == "replace" and len(e.args) == 2:
                    t1, o = self.expr(e.args[0])
                    t2, n = self.expr(e.args[1])
                    if t1 != "str" or t2 != "str":
                        raise Untranslatable("replace arguments")
                    return "str", f"(Py.replace {a} {o} {n})"
        raise Untranslatable("expression outside the translated subset: " + ast.dump(e)[:120])


def live_processor_lambdas():
    """name -> ast.Lambda, from the dict assigned to self._default_obj_processors"""
    use_repo()
    import textx.metamodel as mmod

    src = open(mmod.__file__, encoding="utf-8").read()
    tree = ast.parse(src)
    for node in ast.walk(tree):
        if isinstance(node, ast.Assign) and len(node.targets) == 1:
            t = node.targets[0]
            if isinstance(t, ast.Attribute) and t.attr == "_default_obj_processors" and isinstance(node.value, ast.Dict):
                out = {}
                for k, v in zip(node.value.keys, node.value.values):
                    if not (isinstance(k, ast.Constant) and isinstance(k.value, str)):
                        raise Untranslatable("non-constant key in _default_obj_processors")
                    out[k.value] = v
                return out
    raise Untranslatable("assignment to self._default_obj_processors (dict literal) not found in textx/metamodel.py")


def gen_procs():
    lams = live_processor_lambdas()
    want = ["BOOL", "INT", "FLOAT", "STRICTFLOAT", "STRING"]
    out = [
        "import TextxVerif.Py",
        "/-! GENERATED by harness/translate_re.py from `TextXMetaModel._default_obj_processors`",
        "(textx/metamodel.py) on every check run — do not edit. -/",
        "namespace Gen.Procs",
        "",
    ]
    for n in want:
        if n not in lams:
            raise Untranslatable(f"no default processor for {n}")
    for n in sorted(lams):
        lam = lams[n]
        if not (isinstance(lam, ast.Lambda) and len(lam.args.args) == 1 and not lam.args.defaults
                and not lam.args.kwonlyargs and lam.args.vararg is None and lam.args.kwarg is None):
            raise Untranslatable(f"processor {n} is not a one-argument lambda")
        t, term = _Lam(lam.args.args[0].arg).expr(lam.body)
        if t == "str":
            term = f"Py.Val.str {term}"
        elif t == "bool":
            term = f"Py.Val.bool {term}"
        out.append(f"/-- `{ast.unparse(lam)}` -/".replace("-/ -/", "-/"))
        out.append(f"def {n} (x : List Char) : Py.Val :=\n  {term}")
        out.append("")
    out.append(f"def names : List String := [{', '.join(chr(34) + n + chr(34) for n in sorted(lams))}]")
    out.append("")
    out.append("end Gen.Procs")
    return "\n".join(out) + "\n"


def write_if_changed(path, text):
    os.makedirs(os.path.dirname(path), exist_ok=True)
    try:
        if open(path, encoding="utf-8").read() == text:
            return False
    except FileNotFoundError:
        pass
    tmp = path + ".tmp"
    with open(tmp, "w", encoding="utf-8") as f:
        f.write(text)
    os.replace(tmp, path)
    return True


def run():
    """Prop.TRANSLATE: regenerate both Gen files (called under the build lock)."""
    gen = os.path.join(LEAN_DIR, "TextxVerif", "Gen")
    a = write_if_changed(os.path.join(gen, "Regexes.lean"), gen_regexes())
    b = write_if_changed(os.path.join(gen, "Procs.lean"), gen_procs())
    return a or b


if __name__ == "__main__":
    print("changed" if run() else "unchanged")
