"""C24 history worker — runs in a FRESH Python process (no textX state inherited from the check).

stdin:  {"repo": path, "history": [step…], "opts": {meta-model options for the checked texts}, "texts": [str…]}
        step = {"do": "compile", "grammar": str, "opts": {…}, "model": str?}   metamodel_from_str(grammar, **opts)
                                                                              (+ model_from_str(model))
               {"do": "textx", "text": str}                                   grammar_model_from_str(text)
stdout: {"history": [outcome…], "results": [{"c": {...}, "t": {...}}…]}

Per text, in this order: the grammar compiler (metamodel_from_str(text, **opts)), then the registered 'textx'
language (looked up lazily, so that a history-free run really makes the checked text the first compilation of the
process).  Same accept/reject definitions as harness/props/c24.py.
"""
import json
import os
import sys
import tempfile


def main():
    req = json.load(sys.stdin)
    out_fd = os.dup(1)
    devnull = os.open(os.devnull, os.O_WRONLY)
    os.dup2(devnull, 1)  # debug=True prints the parser trace
    os.dup2(devnull, 2)
    sys.setrecursionlimit(3000)
    tmp = tempfile.mkdtemp(prefix="c24w-")  # debug=True writes .dot files into the cwd
    os.chdir(tmp)
    try:
        res = run(req)
    finally:
        os.chdir("/")
        import shutil

        shutil.rmtree(tmp, ignore_errors=True)
    with os.fdopen(out_fd, "w") as f:
        json.dump(res, f)


def run(req):
    sys.path.insert(0, req["repo"])
    from arpeggio import NoMatch
    from textx import metamodel_for_language, metamodel_from_str
    from textx.exceptions import TextXSyntaxError

    def compiler(text, opts):
        try:
            metamodel_from_str(text, **opts)
            return {"acc": True, "stage": "ok"}
        except TextXSyntaxError as e:
            if isinstance(e.__cause__, NoMatch):
                return {"acc": False, "line": e.line, "col": e.col}
            return {"acc": True, "stage": "TextXSyntaxError(visitor)"}
        except RecursionError:
            return {"acc": True, "stage": "RecursionError"}
        except Exception as e:
            return {"acc": True, "stage": type(e).__name__}

    def selfhosted(text):
        try:
            metamodel_for_language("textx").grammar_model_from_str(text)
            return {"acc": True}
        except TextXSyntaxError as e:
            return {"acc": False, "line": e.line, "col": e.col, "nomatch": isinstance(e.__cause__, NoMatch)}
        except RecursionError:
            return {"acc": None, "other": "RecursionError"}
        except Exception as e:
            return {"acc": None, "other": type(e).__name__, "msg": str(e)[:200]}

    hist = []
    for st in req.get("history", []):
        try:
            if st["do"] == "compile":
                mm = metamodel_from_str(st["grammar"], **st.get("opts", {}))
                if st.get("model") is not None:
                    mm.model_from_str(st["model"])
            elif st["do"] == "textx":
                metamodel_for_language("textx").grammar_model_from_str(st["text"])
            else:
                hist.append("bad-step")
                continue
            hist.append("ok")
        except Exception as e:  # a failing step is part of the history
            hist.append(type(e).__name__)
    results = []
    for text in req["texts"]:
        c = compiler(text, req.get("opts", {}))
        t = selfhosted(text)
        results.append({"c": c, "t": t})
    return {"history": hist, "results": results}


if __name__ == "__main__":
    main()
