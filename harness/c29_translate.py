"""Tie T for C29: regenerate lean/TextxVerif/Gen/DotExport.lean from the source
of textx/export.py of the tree under test.

Translated (deliberately tiny Python subset, anything else is a translation
failure = broken tie, never skipped):

* `dot_escape`: a single `return` of a chain `s.replace(LIT, LIT)....` on the
  parameter, every `old` a one-character literal  ->  `escapePairs`;
* `dot_repr`:  `if isinstance(o, str): escaped = dot_escape(str(o));
  if len(escaped) > N: return f"P{escaped[:N]}Q" else: return f"P'{escaped}Q'"
  else: return str(o)`  ->  `reprLimit`, `reprOpen`, `reprCloseLong`,
  `reprOpenShort`, `reprCloseShort`;
* `HEADER` (module constant, a string literal) -> `header`.

The file is rewritten only when its bytes change.
"""
import ast
import os


class TranslationError(Exception):
    pass


def lean_char(c):
    o = ord(c)
    if c == "\n":
        return r"'\n'"
    if c == "\t":
        return r"'\t'"
    if c == "\r":
        return r"'\r'"
    if c == "\\":
        return r"'\\'"
    if c == "'":
        return r"'\''"
    if c == '"':
        return "'\"'"
    if 32 <= o < 127:
        return f"'{c}'"
    if 0xD800 <= o <= 0xDFFF:
        raise TranslationError("surrogate in literal")
    return "'\\u{%x}'" % o


def lean_chars(s):
    return "[" + ", ".join(lean_char(c) for c in s) + "]"


def _const_str(node, what):
    if isinstance(node, ast.Constant) and isinstance(node.value, str):
        return node.value
    raise TranslationError(f"{what}: expected a string literal, got {ast.dump(node)[:80]}")


def translate_escape(fn):
    body = [s for s in fn.body if not (isinstance(s, ast.Expr) and isinstance(s.value, ast.Constant))]
    if len(fn.args.args) != 1 or len(body) != 1 or not isinstance(body[0], ast.Return):
        raise TranslationError("dot_escape: expected one parameter and a single return")
    param = fn.args.args[0].arg
    pairs = []
    e = body[0].value
    while True:
        if isinstance(e, ast.Name) and e.id == param:
            break
        if (isinstance(e, ast.Call) and isinstance(e.func, ast.Attribute) and e.func.attr == "replace"
                and len(e.args) == 2 and not e.keywords):
            old = _const_str(e.args[0], "dot_escape replace old")
            new = _const_str(e.args[1], "dot_escape replace new")
            if len(old) != 1:
                raise TranslationError(f"dot_escape: replace of a {len(old)}-character pattern is outside the subset")
            pairs.append((old, new))
            e = e.func.value
            continue
        raise TranslationError(f"dot_escape: construct outside the subset: {ast.dump(e)[:100]}")
    pairs.reverse()  # innermost call is applied first
    return pairs


def _fstring_parts(node, var, what):
    """f"P{var[:N]}Q" or f"P{var}Q" -> (P, N|None, Q)"""
    if not isinstance(node, ast.JoinedStr):
        raise TranslationError(f"{what}: expected an f-string")
    pre, post, lim, seen = "", "", None, False
    for v in node.values:
        if isinstance(v, ast.Constant) and isinstance(v.value, str):
            if seen:
                post += v.value
            else:
                pre += v.value
        elif isinstance(v, ast.FormattedValue) and not seen and v.conversion == -1 and v.format_spec is None:
            seen = True
            x = v.value
            if isinstance(x, ast.Name) and x.id == var:
                lim = None
            elif (isinstance(x, ast.Subscript) and isinstance(x.value, ast.Name) and x.value.id == var
                  and isinstance(x.slice, ast.Slice) and x.slice.lower is None and x.slice.step is None
                  and isinstance(x.slice.upper, ast.Constant) and isinstance(x.slice.upper.value, int)
                  and x.slice.upper.value >= 0):
                lim = x.slice.upper.value
            else:
                raise TranslationError(f"{what}: hole outside the subset: {ast.dump(x)[:100]}")
        else:
            raise TranslationError(f"{what}: f-string outside the subset")
    if not seen:
        raise TranslationError(f"{what}: no hole")
    return pre, lim, post


def translate_repr(fn):
    body = [s for s in fn.body if not (isinstance(s, ast.Expr) and isinstance(s.value, ast.Constant))]
    if len(fn.args.args) != 1 or len(body) != 1 or not isinstance(body[0], ast.If):
        raise TranslationError("dot_repr: expected `if isinstance(o, str): ... else: ...`")
    param = fn.args.args[0].arg
    top = body[0]
    t = top.test
    ok = (isinstance(t, ast.Call) and isinstance(t.func, ast.Name) and t.func.id == "isinstance" and len(t.args) == 2
          and isinstance(t.args[0], ast.Name) and t.args[0].id == param
          and isinstance(t.args[1], ast.Name) and t.args[1].id == "str")
    if not ok:
        raise TranslationError("dot_repr: test is not isinstance(o, str)")
    # else: return str(o)
    oe = top.orelse
    if not (len(oe) == 1 and isinstance(oe[0], ast.Return) and isinstance(oe[0].value, ast.Call)
            and isinstance(oe[0].value.func, ast.Name) and oe[0].value.func.id == "str"
            and len(oe[0].value.args) == 1 and isinstance(oe[0].value.args[0], ast.Name)
            and oe[0].value.args[0].id == param):
        raise TranslationError("dot_repr: else branch is not `return str(o)`")
    b = top.body
    if not (len(b) == 2 and isinstance(b[0], ast.Assign) and len(b[0].targets) == 1
            and isinstance(b[0].targets[0], ast.Name) and isinstance(b[1], ast.If)):
        raise TranslationError("dot_repr: str branch outside the subset")
    var = b[0].targets[0].id
    v = b[0].value
    # escaped = dot_escape(str(o))  |  dot_escape(o)
    if not (isinstance(v, ast.Call) and isinstance(v.func, ast.Name) and v.func.id == "dot_escape" and len(v.args) == 1):
        raise TranslationError("dot_repr: the value is not dot_escape(...)")
    a = v.args[0]
    if isinstance(a, ast.Call) and isinstance(a.func, ast.Name) and a.func.id == "str" and len(a.args) == 1:
        a = a.args[0]
    if not (isinstance(a, ast.Name) and a.id == param):
        raise TranslationError("dot_repr: dot_escape is not applied to the parameter")
    inner = b[1]
    c = inner.test
    if not (isinstance(c, ast.Compare) and len(c.ops) == 1 and isinstance(c.ops[0], ast.Gt)
            and isinstance(c.left, ast.Call) and isinstance(c.left.func, ast.Name) and c.left.func.id == "len"
            and len(c.left.args) == 1 and isinstance(c.left.args[0], ast.Name) and c.left.args[0].id == var
            and isinstance(c.comparators[0], ast.Constant) and isinstance(c.comparators[0].value, int)):
        raise TranslationError("dot_repr: length test outside the subset")
    limit = c.comparators[0].value
    if not (len(inner.body) == 1 and isinstance(inner.body[0], ast.Return)
            and len(inner.orelse) == 1 and isinstance(inner.orelse[0], ast.Return)):
        raise TranslationError("dot_repr: returns outside the subset")
    lpre, llim, lpost = _fstring_parts(inner.body[0].value, var, "dot_repr long")
    spre, slim, spost = _fstring_parts(inner.orelse[0].value, var, "dot_repr short")
    if llim is None or slim is not None:
        raise TranslationError("dot_repr: expected a sliced hole in the long branch and a plain one in the short branch")
    return {"limit": limit, "take": llim, "lpre": lpre, "lpost": lpost, "spre": spre, "spost": spost}


def generate(repo):
    src = open(os.path.join(repo, "textx", "export.py"), encoding="utf-8").read()
    tree = ast.parse(src)
    fns = {n.name: n for n in tree.body if isinstance(n, ast.FunctionDef)}
    for need in ("dot_escape", "dot_repr"):
        if need not in fns:
            raise TranslationError(f"{need} not found in export.py")
    header = None
    for n in tree.body:
        if isinstance(n, ast.Assign) and len(n.targets) == 1 and isinstance(n.targets[0], ast.Name) \
                and n.targets[0].id == "HEADER":
            header = _const_str(n.value, "HEADER")
    if header is None:
        raise TranslationError("HEADER not found in export.py")
    pairs = translate_escape(fns["dot_escape"])
    r = translate_repr(fns["dot_repr"])
    out = []
    out.append("/-! GENERATED from textx/export.py by harness/c29_translate.py on every run of `./check C29` —")
    out.append("do not edit.  `dot_escape` (replace chain), `dot_repr` (limit and delimiters), `HEADER`. -/")
    out.append("namespace Gen.Dot")
    out.append("")
    out.append("/-- `dot_escape`: the `.replace(old, new)` calls in application order -/")
    out.append("def escapePairs : List (Char × List Char) :=")
    out.append("  [" + ",\n   ".join(f"({lean_char(o)}, {lean_chars(n)})" for o, n in pairs) + "]")
    out.append("")
    out.append("/-- `dot_repr`: `len(escaped) > reprLimit` selects the truncated form -/")
    out.append(f"def reprLimit : Nat := {r['limit']}")
    out.append(f"def reprTake : Nat := {r['take']}")
    out.append(f"def reprOpenLong : List Char := {lean_chars(r['lpre'])}")
    out.append(f"def reprCloseLong : List Char := {lean_chars(r['lpost'])}")
    out.append(f"def reprOpenShort : List Char := {lean_chars(r['spre'])}")
    out.append(f"def reprCloseShort : List Char := {lean_chars(r['spost'])}")
    out.append("")
    out.append("/-- `HEADER` -/")
    out.append("def header : List Char :=")
    out.append("  " + lean_chars(header))
    out.append("")
    out.append("end Gen.Dot")
    return "\n".join(out) + "\n"


def translate(repo, lean_dir):
    text = generate(repo)
    path = os.path.join(lean_dir, "TextxVerif", "Gen", "DotExport.lean")
    os.makedirs(os.path.dirname(path), exist_ok=True)
    old = open(path, encoding="utf-8").read() if os.path.exists(path) else None
    if old != text:
        tmp = path + ".tmp"
        with open(tmp, "w", encoding="utf-8") as f:
            f.write(text)
        os.replace(tmp, path)
    return path


if __name__ == "__main__":
    import sys

    print(translate(sys.argv[1], sys.argv[2]))
