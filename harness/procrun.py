"""Running a generated processor case (harness/procgen.py) against the real textX:
metamodel construction with recording user classes, scope providers that log
resolutions and postpone on schedule, recording object / match processors with
scripted behaviour, and canonical dumps of the model before and after the walk.
Used by C13 and C33."""
from __future__ import annotations

import os
import shutil
import tempfile

from harness import procgen as pg
from harness.core import use_repo

# replacement values a scripted processor can return (several falsy, all not None)
VALUES = [0, "", False, [], "repl", 3.5, ("t",), {"d": 1}]


def fresh(v):
    return list(v) if isinstance(v, list) else dict(v) if isinstance(v, dict) else v


def vkey(v):
    return f"{type(v).__name__}:{v!r}"


VALUE_TAG = {vkey(v): 10 + k for k, v in enumerate(VALUES)}

# file extension of the model files of a metamodel label (label 0: the metamodel whose load is observed;
# other labels: metamodels registered as languages for their extension) — one character, see file_of_model
EXT = {0: "m", 1: "x", 2: "y", 3: "z"}


class Run:
    """One load of one case.  `script[(rule, uid)]` = ["v", k] | ["s"] | ["f", attr] | ["raise", spec];
    `mscript[(rule, n)]` = behaviour of the n-th call of a match processor."""

    def __init__(self, case, reg, script=None, match_reg=(), mscript=None, wrapped=(), use_waits=True):
        use_repo()
        self.case = case
        self.schema = case["schema"]
        self.r = pg.render(case, case.get("layout", 0))
        self.reg = list(reg)
        self.script = script or {}
        self.match_reg = list(match_reg)
        self.mscript = mscript or {}
        self.wrapped = set(wrapped)
        self.use_waits = use_waits
        self.events = []
        self.key2uid = {(o["file"], o["start"], o["rule"]): uid for uid, o in self.r.objs.items()}
        self.real = {}  # uid -> real object
        self.id2uid = {}
        self.pre = {}  # file -> V json (state before the first processor call in that model)
        self.models = {}  # file -> model root object
        self.created = []  # user-class instances, creation order
        self.inited = set()
        self.classes = []  # class names, index = class id of the Lean request
        self.attrs = []  # attribute names
        self.tags = {}  # value key -> tag (besides VALUE_TAG)
        self.mcalls = {}
        self.tmp = None
        self.mm = None
        self.raise_hook = None  # C33: callable(spec, site) -> exception to raise
        # histories (C13): several metamodels built with the same user classes, earlier loads
        self.mms = {}  # label -> metamodel; `self.mm` is the one whose load is observed
        self.user = None  # the recording user classes, shared by the metamodels of a history
        self.pcalls = {}  # scope-provider calls per reference of the current load (postponement schedule)
        self.phase = "observe"  # "history": processors return nothing, nothing recorded is kept
        self.fail_refs = False  # history load that fails in reference resolution
        self.fail_proc = False  # history load that fails in the first object processor
        self.gdir = None  # directory of the grammar files (grammar spread over files)
        # file number -> label of the metamodel the file belongs to (imported files of another language)
        self.owner = {int(k): lab for k, lab in (case.get("mmfile") or {}).items()}
        self.registered = False
        self.cur_label = 0  # label of the metamodel of the model being dumped (class ids are per metamodel)

    # -- canonical numbering ------------------------------------------------
    def cidx(self, name):
        if name not in self.classes:
            self.classes.append(name)
        return self.classes.index(name)

    def cname(self, name, label=None):
        """name of a class in the Lean request: the classes of another metamodel of the history are
        different classes (own registrations, own set of user classes) even when the grammar is the same."""
        label = self.cur_label if label is None else label
        return name if not label else f"{name}@{label}"

    def aidx(self, name):
        if name not in self.attrs:
            self.attrs.append(name)
        return self.attrs.index(name)

    def tag(self, v):
        k = vkey(v)
        if k in VALUE_TAG:
            return VALUE_TAG[k]
        if k not in self.tags:
            self.tags[k] = 100 + len(self.tags)
        return self.tags[k]

    @staticmethod
    def is_obj(v):
        return hasattr(type(v), "_tx_attrs")

    def file_of_model(self, model):
        fn = getattr(model, "_tx_filename", None)
        if fn is None:
            return 0
        b = os.path.basename(str(fn))
        try:
            return int(b[1:-2])
        except ValueError:
            return 0

    def uid_of(self, obj):
        u = self.id2uid.get(id(obj))
        if u is not None and self.real.get(u) is obj:
            return u
        from textx import get_model

        k = self.file_of_model(get_model(obj))
        return self.key2uid.get((k, getattr(obj, "_tx_position", None), type(obj).__name__), -1)

    # -- dumps ----------------------------------------------------------------
    def meta_of(self, obj):
        return self.mm[getattr(obj, "_tx_fqn", type(obj).__name__)]._tx_attrs

    def is_many(self, a):
        return a.mult in ("1..*", "0..*")

    def ref_view(self, v):
        if v is None:
            return None
        if isinstance(v, list):
            return [self.ref_view(x) for x in v]
        return {"p": 1} if self.is_obj(v) else {"p": 0}

    def deep(self, v, meta=True, register=False, many=False):
        """V json (meta=True: with attribute metadata, for the Lean request).  Only the value
        of a `many` attribute is a list; any other list (a replacement value) is opaque."""
        if v is None:
            return None
        if isinstance(v, list) and many:
            return [self.deep(x, meta, register) for x in v]
        if not self.is_obj(v):
            return {"p": self.tag(v)}
        uid = self.uid_of(v)
        if register and uid >= 0:
            self.real[uid] = v
            self.id2uid[id(v)] = uid
        fs = []
        for name, a in self.meta_of(v).items():
            val = getattr(v, name, None)
            enc = self.deep(val, meta, register, many=self.is_many(a)) if a.cont else self.ref_view(val)
            fs.append([self.aidx(name), bool(a.cont), self.is_many(a), self.cidx(self.cname(a.cls.__name__)), enc]
                      if meta else enc)
        return {"o": uid, "c": self.cidx(self.cname(type(v).__name__)), "f": fs}

    def shallow(self, v, many=False):
        if v is None:
            return None
        if isinstance(v, list) and many:
            return [self.shallow(x) for x in v]
        if self.is_obj(v):
            return {"o": self.uid_of(v)}
        return {"p": self.tag(v)}

    def snapshot(self, obj):
        out = []
        for name, a in self.meta_of(obj).items():
            val = getattr(obj, name, None)
            out.append(self.shallow(val, many=self.is_many(a)) if a.cont else self.ref_view(val))
        return out

    def capture(self, model):
        k = self.file_of_model(model)
        if k not in self.pre and self.is_obj(model):
            self.models[k] = model
            self.cur_label = self.owner.get(k, 0)
            try:
                self.pre[k] = self.deep(model, meta=True, register=True)
            finally:
                self.cur_label = 0

    def all_models(self, obj):
        from textx import get_model
        from textx.scoping import get_included_models

        return [m for m in get_included_models(get_model(obj)) if self.is_obj(m)]

    def linked(self, models):
        """every non-containment attribute of every object holds model objects (no pending
        ObjCrossRef / Postponed); returns (ok, number of references found)."""
        ok, n = True, 0
        seen = set()

        def visit(o):
            nonlocal ok, n
            if id(o) in seen:
                return
            seen.add(id(o))
            for name, a in type(o)._tx_attrs.items():
                val = getattr(o, name, None)
                vals = val if isinstance(val, list) else [val]
                for x in vals:
                    if x is None:
                        continue
                    if a.cont:
                        if self.is_obj(x):
                            visit(x)
                    else:
                        n += 1
                        if not self.is_obj(x):
                            ok = False

        for m in models:
            visit(m)
        return ok, n

    # -- metamodel ------------------------------------------------------------
    def user_class(self, name):
        run = self

        def __new__(cls, *a, **k):
            inst = object.__new__(cls)
            run.created.append(inst)
            return inst

        def __init__(self, **kw):
            for k, v in kw.items():
                setattr(self, k, v)
            run.inited.add(id(self))
            run.events.append(["init", self])

        return type(name, (), {"__new__": __new__, "__init__": __init__})

    def user_names(self):
        """rules with a user class (of a grammar spread over files: only rules of files that are loaded)."""
        gs = self.case.get("gsplit")
        if not gs:
            return list(self.schema["user"])
        loaded = pg.loaded_rules(self.schema, gs["levels"])
        return [n for n in self.schema["user"] if n in loaded]

    def new_metamodel(self, label=0, shared=True, users=None):
        """one more metamodel of the case's grammar; `shared`: built with the same user classes as
        the others (every build re-initialises the `_tx_*` class attributes of a user class);
        `users`: the rules this metamodel gets a user class for (None: all user-class rules of the case)."""
        from textx import metamodel_from_file, metamodel_from_str

        if self.user is None:
            self.user = [self.user_class(n) for n in self.user_names()]
        classes = list(self.user) if shared else [self.user_class(n) for n in self.user_names()]
        if users is not None:
            classes = [c for c in classes if c.__name__ in users]
        opts = dict(self.schema["opts"])
        if self.case.get("grepo"):
            opts["global_repository"] = True
        gs = self.case.get("gsplit")
        if gs:
            if self.gdir is None:
                self.gdir = tempfile.mkdtemp(prefix="txprocg_")
                for i, t in enumerate(pg.grammar_files(self.schema, gs["levels"])):
                    with open(os.path.join(self.gdir, f"g{i}.tx"), "w") as fh:
                        fh.write(t)
            mm = metamodel_from_file(os.path.join(self.gdir, "g0.tx"), classes=classes, **opts)
        else:
            mm = metamodel_from_str(self.r.grammar, classes=classes, **opts)
        self.mms[label] = mm
        if label != 0 and label in self.owner.values():
            from textx import register_language

            self.registered = True
            register_language(f"procgen-lang-{label}", pattern=f"*.{EXT[label]}", metamodel=mm)
        return mm

    def fname(self, k):
        return f"f{k}.{EXT[self.owner.get(k, 0)]}"

    def build(self):
        self.mm = self.new_metamodel(0)
        return self.mm

    def class_of(self, name, mm=None):
        """meta-class by simple name, in whichever grammar file it is defined."""
        mm = mm or self.mm
        for ns in mm.namespaces.values():
            if name in ns:
                return ns[name]
        raise KeyError(name)

    def begin_observation(self):
        """forget everything recorded during the history; the next load is the observed one."""
        self.events, self.created, self.inited = [], [], set()
        self.pre, self.models, self.real, self.id2uid = {}, {}, {}, {}
        self.pcalls, self.mcalls = {}, {}
        self.fail_refs = self.fail_proc = False
        self.phase = "observe"

    def providers(self, mm=None):
        import textx.scoping.providers as sp
        from textx import get_model
        from textx.scoping import Postponed

        mm = mm or self.mm
        multi = self.schema["root"] == "multi"
        base = sp.PlainNameImportURI() if multi else sp.PlainName()
        waits = {(k, off): w for (k, off, _s, _a, _t, w) in self.r.refs}
        run = self

        def provider(obj, attr, obj_ref):
            if run.fail_refs:
                return None
            calls = run.pcalls
            k = run.file_of_model(get_model(obj))
            key = (k, obj_ref.position)
            c = calls.get(key, 0)
            calls[key] = c + 1
            if run.use_waits and run.phase == "observe" and c < waits.get(key, 0):
                return Postponed()
            res = base(obj, attr, obj_ref)
            if res is not None and not isinstance(res, Postponed):
                run.events.append(["resolve", k, obj_ref.position])
            return res

        provs = {}
        if multi:
            provs["*.*"] = base
        for r in self.schema["rules"]:
            for p in r["parts"]:
                if p.get("kind") == "ref":
                    provs[f"{r['name']}.{p['attr']}"] = provider
        if provs:
            mm.register_scope_providers(provs)

    def site_of_uid(self, uid):
        o = self.r.objs[uid]
        return {"file": o["file"], "start": o["start"], "end": o["end"]}

    def obj_processor(self, rule, label=0, replaced=False):
        """recording processor registered with metamodel `label`; `replaced`: of a registration that
        is replaced before the observed load.  A call on an object of a model that belongs to another
        metamodel, or of a replaced registration, is recorded as an `alien` event."""
        run = self

        def proc(obj):
            from textx import get_model

            if run.fail_proc:
                raise RuntimeError("history: failing processor")
            if run.phase != "observe":
                return None
            belongs = run.owner.get(run.file_of_model(get_model(obj)), 0)
            if replaced or belongs != label:
                run.events.append(["alien", "replaced" if replaced else f"mm{label}", rule, run.uid_of(obj)])
                return None
            run.capture(get_model(obj))
            uid = run.uid_of(obj)
            models = run.all_models(obj)
            ok, nrefs = run.linked(models)
            inited = all(id(x) in run.inited for x in run.created)
            nres = sum(1 for e in run.events if e[0] == "resolve")
            run.events.append(["proc", rule, uid, bool(ok), nres, bool(inited), run.snapshot(obj)])
            beh = run.script.get((rule, uid))
            if beh is None:
                return None
            if beh[0] == "v":
                return fresh(VALUES[beh[1]])
            if beh[0] == "s":
                return obj
            if beh[0] == "f":
                return getattr(obj, beh[1], None)
            if beh[0] == "raise":
                raise run.raise_hook(beh[1], obj)
            return None

        return proc

    def match_processor(self, rule):
        run = self

        def proc(value):
            n = run.mcalls.get(rule, 0)
            run.mcalls[rule] = n + 1
            run.events.append(["match", rule, str(value)])
            beh = run.mscript.get((rule, n))
            if beh is not None and beh[0] == "raise":
                raise run.raise_hook(beh[1], value)
            if rule == "INT":
                return int(value)
            return value

        return proc

    def processors(self, mm=None, reg=None, label=0, replaced=False, match_reg=None):
        from textx import textxerror_wrap

        mm = mm or self.mm
        procs = {}
        for rule in (self.reg if reg is None else reg):
            procs[rule] = self.obj_processor(rule, label, replaced)
        for rule in (self.match_reg if match_reg is None else match_reg):
            procs[rule] = self.match_processor(rule)
        for rule in self.wrapped:
            if rule in procs:
                procs[rule] = textxerror_wrap(procs[rule])
        mm.register_obj_processors(procs)

    # -- load -------------------------------------------------------------------
    def load(self, file_name_kw=None, mm=None, main=0, broken=False):
        """returns the model or raises what textX raises.  `main`: the file loaded as the main
        model; `broken`: with a syntax error at its end."""
        mm = mm or self.mm
        if broken:
            return mm.model_from_str(self.r.texts[main] + "\n\u00a7")
        if self.case.get("from_file"):
            if self.tmp is None:
                self.tmp = tempfile.mkdtemp(prefix="txproc_")
                for k, t in enumerate(self.r.texts):
                    with open(os.path.join(self.tmp, self.fname(k)), "w", newline="") as fh:
                        fh.write(t)
            return mm.model_from_file(os.path.join(self.tmp, self.fname(main)))
        if file_name_kw:
            return mm.model_from_str(self.r.texts[main], file_name=file_name_kw)
        return mm.model_from_str(self.r.texts[main])

    def cleanup(self):
        for d in (self.tmp, self.gdir):
            if d:
                shutil.rmtree(d, ignore_errors=True)
        self.tmp = self.gdir = None
        if self.registered:
            from textx import clear_language_registrations

            clear_language_registrations()
            self.registered = False

    def finish_events(self):
        """replace object references in events by uids (possible once the models are captured)."""
        out = []
        for e in self.events:
            if e[0] == "init":
                out.append(["init", self.uid_of(e[1])])
            else:
                out.append(e)
        return out
