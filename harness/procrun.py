"""Running a generated processor case (harness/procgen.py) against the real textX:
metamodel construction with recording user classes, scope providers that log
resolutions and postpone on schedule, recording object / match processors with
scripted behaviour, and canonical dumps of the model before and after the walk.
Used by C13 and C33."""
from __future__ import annotations

import os
import shutil
import tempfile

from harness import procgen as pg
from harness.core import use_repo

# replacement values a scripted processor can return (several falsy, all not None)
VALUES = [0, "", False, [], "repl", 3.5, ("t",), {"d": 1}]


def fresh(v):
    return list(v) if isinstance(v, list) else dict(v) if isinstance(v, dict) else v


def vkey(v):
    return f"{type(v).__name__}:{v!r}"


VALUE_TAG = {vkey(v): 10 + k for k, v in enumerate(VALUES)}


class Run:
    """One load of one case.  `script[(rule, uid)]` = ["v", k] | ["s"] | ["f", attr] | ["raise", spec];
    `mscript[(rule, n)]` = behaviour of the n-th call of a match processor."""

    def __init__(self, case, reg, script=None, match_reg=(), mscript=None, wrapped=(), use_waits=True):
        use_repo()
        self.case = case
        self.schema = case["schema"]
        self.r = pg.render(case, case.get("layout", 0))
        self.reg = list(reg)
        self.script = script or {}
        self.match_reg = list(match_reg)
        self.mscript = mscript or {}
        self.wrapped = set(wrapped)
        self.use_waits = use_waits
        self.events = []
        self.key2uid = {(o["file"], o["start"], o["rule"]): uid for uid, o in self.r.objs.items()}
        self.real = {}  # uid -> real object
        self.id2uid = {}
        self.pre = {}  # file -> V json (state before the first processor call in that model)
        self.models = {}  # file -> model root object
        self.created = []  # user-class instances, creation order
        self.inited = set()
        self.classes = []  # class names, index = class id of the Lean request
        self.attrs = []  # attribute names
        self.tags = {}  # value key -> tag (besides VALUE_TAG)
        self.mcalls = {}
        self.tmp = None
        self.mm = None
        self.raise_hook = None  # C33: callable(spec, site) -> exception to raise

    # -- canonical numbering ------------------------------------------------
    def cidx(self, name):
        if name not in self.classes:
            self.classes.append(name)
        return self.classes.index(name)

    def aidx(self, name):
        if name not in self.attrs:
            self.attrs.append(name)
        return self.attrs.index(name)

    def tag(self, v):
        k = vkey(v)
        if k in VALUE_TAG:
            return VALUE_TAG[k]
        if k not in self.tags:
            self.tags[k] = 100 + len(self.tags)
        return self.tags[k]

    @staticmethod
    def is_obj(v):
        return hasattr(type(v), "_tx_attrs")

    def file_of_model(self, model):
        fn = getattr(model, "_tx_filename", None)
        if fn is None:
            return 0
        b = os.path.basename(str(fn))
        try:
            return int(b[1:-2])
        except ValueError:
            return 0

    def uid_of(self, obj):
        u = self.id2uid.get(id(obj))
        if u is not None and self.real.get(u) is obj:
            return u
        from textx import get_model

        k = self.file_of_model(get_model(obj))
        return self.key2uid.get((k, getattr(obj, "_tx_position", None), type(obj).__name__), -1)

    # -- dumps ----------------------------------------------------------------
    def meta_of(self, obj):
        return self.mm[getattr(obj, "_tx_fqn", type(obj).__name__)]._tx_attrs

    def is_many(self, a):
        return a.mult in ("1..*", "0..*")

    def ref_view(self, v):
        if v is None:
            return None
        if isinstance(v, list):
            return [self.ref_view(x) for x in v]
        return {"p": 1} if self.is_obj(v) else {"p": 0}

    def deep(self, v, meta=True, register=False, many=False):
        """V json (meta=True: with attribute metadata, for the Lean request).  Only the value
        of a `many` attribute is a list; any other list (a replacement value) is opaque."""
        if v is None:
            return None
        if isinstance(v, list) and many:
            return [self.deep(x, meta, register) for x in v]
        if not self.is_obj(v):
            return {"p": self.tag(v)}
        uid = self.uid_of(v)
        if register and uid >= 0:
            self.real[uid] = v
            self.id2uid[id(v)] = uid
        fs = []
        for name, a in self.meta_of(v).items():
            val = getattr(v, name, None)
            enc = self.deep(val, meta, register, many=self.is_many(a)) if a.cont else self.ref_view(val)
            fs.append([self.aidx(name), bool(a.cont), self.is_many(a), self.cidx(a.cls.__name__), enc] if meta else enc)
        return {"o": uid, "c": self.cidx(type(v).__name__), "f": fs}

    def shallow(self, v, many=False):
        if v is None:
            return None
        if isinstance(v, list) and many:
            return [self.shallow(x) for x in v]
        if self.is_obj(v):
            return {"o": self.uid_of(v)}
        return {"p": self.tag(v)}

    def snapshot(self, obj):
        out = []
        for name, a in self.meta_of(obj).items():
            val = getattr(obj, name, None)
            out.append(self.shallow(val, many=self.is_many(a)) if a.cont else self.ref_view(val))
        return out

    def capture(self, model):
        k = self.file_of_model(model)
        if k not in self.pre and self.is_obj(model):
            self.models[k] = model
            self.pre[k] = self.deep(model, meta=True, register=True)

    def all_models(self, obj):
        from textx import get_model
        from textx.scoping import get_included_models

        return [m for m in get_included_models(get_model(obj)) if self.is_obj(m)]

    def linked(self, models):
        """every non-containment attribute of every object holds model objects (no pending
        ObjCrossRef / Postponed); returns (ok, number of references found)."""
        ok, n = True, 0
        seen = set()

        def visit(o):
            nonlocal ok, n
            if id(o) in seen:
                return
            seen.add(id(o))
            for name, a in type(o)._tx_attrs.items():
                val = getattr(o, name, None)
                vals = val if isinstance(val, list) else [val]
                for x in vals:
                    if x is None:
                        continue
                    if a.cont:
                        if self.is_obj(x):
                            visit(x)
                    else:
                        n += 1
                        if not self.is_obj(x):
                            ok = False

        for m in models:
            visit(m)
        return ok, n

    # -- metamodel ------------------------------------------------------------
    def user_class(self, name):
        run = self

        def __new__(cls, *a, **k):
            inst = object.__new__(cls)
            run.created.append(inst)
            return inst

        def __init__(self, **kw):
            for k, v in kw.items():
                setattr(self, k, v)
            run.inited.add(id(self))
            run.events.append(["init", self])

        return type(name, (), {"__new__": __new__, "__init__": __init__})

    def build(self):
        from textx import metamodel_from_str

        classes = [self.user_class(n) for n in self.schema["user"]]
        self.mm = metamodel_from_str(self.r.grammar, classes=classes, **self.schema["opts"])
        return self.mm

    def providers(self):
        import textx.scoping.providers as sp
        from textx import get_model
        from textx.scoping import Postponed

        multi = self.schema["root"] == "multi"
        base = sp.PlainNameImportURI() if multi else sp.PlainName()
        waits = {(k, off): w for (k, off, _s, _a, _t, w) in self.r.refs}
        calls = {}
        run = self

        def provider(obj, attr, obj_ref):
            k = run.file_of_model(get_model(obj))
            key = (k, obj_ref.position)
            c = calls.get(key, 0)
            calls[key] = c + 1
            if run.use_waits and c < waits.get(key, 0):
                return Postponed()
            res = base(obj, attr, obj_ref)
            if res is not None and not isinstance(res, Postponed):
                run.events.append(["resolve", k, obj_ref.position])
            return res

        provs = {}
        if multi:
            provs["*.*"] = base
        for r in self.schema["rules"]:
            for p in r["parts"]:
                if p.get("kind") == "ref":
                    provs[f"{r['name']}.{p['attr']}"] = provider
        if provs:
            self.mm.register_scope_providers(provs)

    def site_of_uid(self, uid):
        o = self.r.objs[uid]
        return {"file": o["file"], "start": o["start"], "end": o["end"]}

    def obj_processor(self, rule):
        run = self

        def proc(obj):
            from textx import get_model

            run.capture(get_model(obj))
            uid = run.uid_of(obj)
            models = run.all_models(obj)
            ok, nrefs = run.linked(models)
            inited = all(id(x) in run.inited for x in run.created)
            nres = sum(1 for e in run.events if e[0] == "resolve")
            run.events.append(["proc", rule, uid, bool(ok), nres, bool(inited), run.snapshot(obj)])
            beh = run.script.get((rule, uid))
            if beh is None:
                return None
            if beh[0] == "v":
                return fresh(VALUES[beh[1]])
            if beh[0] == "s":
                return obj
            if beh[0] == "f":
                return getattr(obj, beh[1], None)
            if beh[0] == "raise":
                raise run.raise_hook(beh[1], obj)
            return None

        return proc

    def match_processor(self, rule):
        run = self

        def proc(value):
            n = run.mcalls.get(rule, 0)
            run.mcalls[rule] = n + 1
            run.events.append(["match", rule, str(value)])
            beh = run.mscript.get((rule, n))
            if beh is not None and beh[0] == "raise":
                raise run.raise_hook(beh[1], value)
            if rule == "INT":
                return int(value)
            return value

        return proc

    def processors(self):
        from textx import textxerror_wrap

        procs = {}
        for rule in self.reg:
            procs[rule] = self.obj_processor(rule)
        for rule in self.match_reg:
            procs[rule] = self.match_processor(rule)
        for rule in self.wrapped:
            if rule in procs:
                procs[rule] = textxerror_wrap(procs[rule])
        self.mm.register_obj_processors(procs)

    # -- load -------------------------------------------------------------------
    def load(self, file_name_kw=None):
        """returns the model or raises what textX raises."""
        if self.case.get("from_file"):
            self.tmp = tempfile.mkdtemp(prefix="txproc_")
            for k, t in enumerate(self.r.texts):
                with open(os.path.join(self.tmp, f"f{k}.m"), "w", newline="") as fh:
                    fh.write(t)
            return self.mm.model_from_file(os.path.join(self.tmp, "f0.m"))
        if file_name_kw:
            return self.mm.model_from_str(self.r.texts[0], file_name=file_name_kw)
        return self.mm.model_from_str(self.r.texts[0])

    def cleanup(self):
        if self.tmp:
            shutil.rmtree(self.tmp, ignore_errors=True)
            self.tmp = None

    def finish_events(self):
        """replace object references in events by uids (possible once the models are captured)."""
        out = []
        for e in self.events:
            if e[0] == "init":
                out.append(["init", self.uid_of(e[1])])
            else:
                out.append(e)
        return out
