"""Helpers for running the real textX (from the tree under test) and dumping
observations canonically.  Import lazily: call use_repo() first."""
from harness.core import use_repo


def tx():
    use_repo()
    import textx

    return textx


def err_view(e):
    """(class name, err_type, file-kind, line, col, nchar) of a TextXError."""
    fn = getattr(e, "filename", None)
    return {
        "cls": type(e).__name__,
        "err_type": getattr(e, "err_type", None),
        "file": None if fn is None else __import__("os").path.basename(str(fn)),
        "line": getattr(e, "line", None),
        "col": getattr(e, "col", None),
        "nchar": getattr(e, "nchar", None),
    }


def outcome(fn):
    """Run fn(); classify: {"ok": value} | {"err": err_view} | {"other": exception class name}."""
    use_repo()
    from textx.exceptions import TextXError

    try:
        return {"ok": fn()}
    except TextXError as e:
        v = err_view(e)
        v["msg"] = str(e)[:300]
        return {"err": v}
    except RecursionError:
        return {"other": "RecursionError"}
    except Exception as e:
        return {"other": type(e).__name__, "msg": str(e)[:300]}


def dump_model(model, with_pos=False, max_objs=5000):
    """Canonical dump of a model: objects numbered in first-visit order
    (containment first), attributes in _tx_attrs order, references as
    {"ref": n}; primitives tagged with their Python type."""
    ids = {}
    order = []

    def is_obj(v):
        return hasattr(type(v), "_tx_attrs")

    def prim(v):
        if v is None:
            return {"p": "none"}
        if isinstance(v, bool):
            return {"p": "bool", "v": v}
        if isinstance(v, int):
            return {"p": "int", "v": v}
        if isinstance(v, float):
            return {"p": "float", "v": repr(v)}
        if isinstance(v, str):
            return {"p": "str", "v": v}
        return {"p": type(v).__name__, "v": repr(v)[:80]}

    def val(v, cont):
        if isinstance(v, list):
            return [val(x, cont) for x in v]
        if is_obj(v):
            if cont:
                return obj(v)
            return {"ref": number(v)}
        return prim(v)

    def number(o):
        if id(o) not in ids:
            ids[id(o)] = len(ids)
            order.append(o)
        return ids[id(o)]

    def obj(o):
        if id(o) in ids and ids[id(o)] in done:
            return {"ref": ids[id(o)], "again": True}
        n = number(o)
        done.add(n)
        if len(ids) > max_objs:
            return {"n": n, "cls": type(o).__name__, "truncated": True}
        d = {"n": n, "cls": type(o).__name__, "attrs": []}
        if with_pos:
            d["pos"] = [getattr(o, "_tx_position", None), getattr(o, "_tx_position_end", None)]
        for name, a in type(o)._tx_attrs.items():
            d["attrs"].append([name, val(getattr(o, name, None), a.cont)])
        return d

    done = set()
    if is_obj(model):
        return {"root": obj(model)}
    return {"root": prim(model)}


class _Timeout(BaseException):
    pass


def with_timeout(fn, secs=3):
    """Run fn() under a wall-clock limit; returns fn() or {"other": "Timeout"}.
    Nested inside the runner's per-case alarm: the outer timer is re-armed with
    float precision (no drift), and fires with the outer handler."""
    import signal
    import time

    def h(signum, frame):
        raise _Timeout()

    old_h = signal.signal(signal.SIGALRM, h)
    old = signal.setitimer(signal.ITIMER_REAL, secs)[0]
    t0 = time.time()
    res = {"other": "Timeout"}
    try:
        try:
            res = fn()
        finally:
            # the timer may fire between the end of fn() and its disarming: a late _Timeout must not escape
            signal.setitimer(signal.ITIMER_REAL, 0)
    except _Timeout:
        signal.setitimer(signal.ITIMER_REAL, 0)
    finally:
        signal.setitimer(signal.ITIMER_REAL, 0)
        signal.signal(signal.SIGALRM, old_h)
        if old > 0:
            signal.setitimer(signal.ITIMER_REAL, max(0.01, old - (time.time() - t0)))
    return res
