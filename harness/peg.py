"""Bridge between real Arpeggio parser models (as compiled by textX) and the
Lean mirror `Peg.Arp` (lean/Drivers/Peg.lean)."""
from harness.core import use_repo

KIND = {
    "StrMatch": "str", "RegExMatch": "re", "EndOfFile": "eof", "Sequence": "seq", "OrderedChoice": "choice",
    "Optional": "opt", "ZeroOrMore": "star", "OneOrMore": "plus", "UnorderedGroup": "unord", "And": "and", "Not": "not",
}


class Unsupported(Exception):
    pass


def dump_parser(parser):
    """Walk parser.parser_model (+ comments_model) and return
    (nodes, top, comments, objs) where objs[i] is the Python object of node i."""
    use_repo()
    import arpeggio as A

    ids, objs, nodes = {}, [], []

    def visit(e):
        if id(e) in ids:
            return ids[id(e)]
        # classify by behaviour (subclasses such as textX's KeywordMatch(RegExMatch) count as their base class)
        k = next((KIND[c.__name__] for c in type(e).__mro__ if c.__name__ in KIND), None)
        if k is None:
            raise Unsupported(type(e).__name__)
        i = len(objs)
        ids[id(e)] = i
        objs.append(e)
        nd = {"k": k, "root": bool(e.root), "rule": e.rule_name or "", "sup": bool(e.suppress)}
        nodes.append(nd)
        if k in ("str", "re"):
            nd["tok"] = i
        else:
            nd["kids"] = [visit(c) for c in e.nodes]
        if k in ("seq", "choice"):
            ws = getattr(e, "ws", None)
            if ws is not None and not isinstance(ws, str):
                raise Unsupported("ws of type " + type(ws).__name__)
            nd["ws"] = ws
            nd["skipws"] = getattr(e, "skipws", None)
        if k in ("star", "plus", "unord", "opt"):
            sep = getattr(e, "sep", None)
            nd["sep"] = visit(sep) if sep is not None else None
            nd["eol"] = bool(getattr(e, "eolterm", False))
        return i

    top = visit(parser.parser_model)
    comments = visit(parser.comments_model) if parser.comments_model is not None else None
    return nodes, top, comments, objs


def tok_tables(nodes, objs, text):
    """toks[i][pos] = matched length of Match node i at pos, -1 for no match ([] for non-Match nodes)."""
    rows = []
    n = len(text)
    for nd, e in zip(nodes, objs):
        if nd["k"] == "str":
            tm = e.to_match
            if e.ignore_case:
                low = tm.lower()
                rows.append([len(tm) if text[p:p + len(tm)].lower() == low else -1 for p in range(n + 1)])
            else:
                rows.append([len(tm) if text[p:p + len(tm)] == tm else -1 for p in range(n + 1)])
        elif nd["k"] == "re":
            row = []
            for p in range(n + 1):
                m = e.regex.match(text, p)
                row.append(len(m.group()) if m else -1)
            rows.append(row)
        else:
            rows.append([])
    return rows


def tree_json(node, ids):
    use_repo()
    from arpeggio import NonTerminal, Terminal

    if node is None:
        return None
    if isinstance(node, Terminal):
        return ["t", ids[id(node.rule)] if id(node.rule) in ids else -1, node.position, len(node.value)]
    if isinstance(node, NonTerminal):
        return ["n", ids.get(id(node.rule), -1), [tree_json(c, ids) for c in node]]
    if isinstance(node, list):
        return ["l", [tree_json(c, ids) for c in node]]
    return ["?", type(node).__name__]


def real_parse(parser, text, objs):
    """Run the real parser; {"ok": tree} | {"nomatch": pos} | {"other": cls}."""
    use_repo()
    from arpeggio import NoMatch
    from textx.exceptions import TextXSyntaxError

    ids = {id(o): i for i, o in enumerate(objs)}
    # EOF() inside Terminal(EOF(), ...) is a fresh object: map every EndOfFile to the model's eof node
    eof_ids = [i for i, o in enumerate(objs) if any(c.__name__ == "EndOfFile" for c in type(o).__mro__)]
    try:
        tree = parser.parse(text)
    except TextXSyntaxError as e:
        c = e.__cause__
        return {"nomatch": getattr(c, "position", None), "line": e.line, "col": e.col}
    except NoMatch as e:
        return {"nomatch": e.position}
    except RecursionError:
        return {"other": "RecursionError"}
    except Exception as e:
        return {"other": type(e).__name__, "msg": str(e)[:200]}

    def fix(t):
        if t and t[0] == "t" and t[1] == -1 and t[3] == 0 and eof_ids:
            t[1] = eof_ids[0]
        elif t and t[0] in ("n", "l"):
            for c in t[-1]:
                fix(c)
        return t

    return {"ok": fix(tree_json(tree, ids))}


def lean_request(nodes, top, comments, parser, text, rows, memo=None, fuel=None):
    ws = parser.ws
    return {
        "op": "parse", "nodes": nodes, "top": top, "comments": comments,
        "memo": bool(parser.memoization if memo is None else memo),
        "skipws": bool(parser.skipws), "ws": ws, "input": text, "toks": rows,
        "fuel": fuel or min(20000, 40 + 6 * (len(text) + 2) * (len(nodes) + 2)),
    }
