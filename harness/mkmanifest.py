"""Regenerate /verif/MANIFEST.json from the property modules that exist.

    /venv/bin/python harness/mkmanifest.py

A property is claimed iff harness/props/cXX.py exists and defines `Prop` with
`CLAIM = True` (default).  Everything else is listed under not_applicable with
the reason given in PENDING below.
"""
import importlib
import json
import os
import sys

VERIF = os.path.dirname(os.path.dirname(os.path.abspath(__file__)))
sys.path.insert(0, VERIF)

PENDING = {}

NOTE = ("Trusted base: Lean 4.33.0 kernel (axioms audited per theorem on every run: subset of propext, "
        "Classical.choice, Quot.sound; no sorry/admit/native_decide/bv_decide/own axioms), the /verif harness "
        "(generators, canonicalisation, differ), CPython and Arpeggio as dependencies. The theorems are about the Lean "
        "model named below; the model is tied to /repo's working tree on every run by the correspondence check "
        "(same inputs through model driver and real code, outputs diffed) and, where stated, by regenerating Lean "
        "definitions from the source. ")


def main():
    props = [json.loads(l) for l in open(os.path.join(VERIF, "properties.jsonl"))]
    checks, na, engines = [], [], {}
    for p in props:
        pid = p["id"]
        path = os.path.join(VERIF, "harness", "props", pid.lower() + ".py")
        chk = None
        if os.path.exists(path):
            mod = importlib.import_module(f"harness.props.{pid.lower()}")
            chk = mod.Prop()
            if not getattr(chk, "CLAIM", True):
                chk = None
        if chk is None:
            na.append({"property_id": pid, "reason": PENDING.get(pid, "check not built yet in this round; no claim is made (see DESIGN.md section 6 for the planned model and theorems)")})
            continue
        eng = chk.DRIVER or "lean"
        engines.setdefault(eng, []).append(pid)
        checks.append({
            "property_id": pid,
            "quick_cmd": f"./check {pid} quick",
            "thorough_cmd": f"./check {pid} thorough",
            "evidence_file": f"evidence/{pid}.json",
            "replay_cmd_template": f"./check {pid} --replay {{path}}",
            "engine": eng,
            "level_claimed": {
                "category": "proof",
                "text": getattr(chk, "LEVEL_TEXT", "") or (
                    f"Lean 4 theorems {', '.join(t.split('.')[-1] for t in chk.THEOREMS)} about the hand-written model, "
                    "proved for all inputs/schedules the property quantifies over; the model is tied to the code by a "
                    "differential correspondence check on generated cases plus a direct property oracle on the implementation."),
                "design_ref": f"DESIGN.md section 6, {pid}",
            },
            "level_note": NOTE + chk.MODELLED,
            "technique": getattr(chk, "TECHNIQUE", "Lean 4 machine-checked proof over an executable model + model/implementation correspondence check"),
        })
    man = {
        "version": 1,
        "setup_cmd": "cd lean && lake build",
        "hooks": {
            "guard": "TEXTX_VERIF",
            "enable": "no instrumentation hooks are needed: checks import textX from /repo's working tree in-process (TEXTX_VERIF=1 is exported by ./check but nothing in /repo reads it)",
            "baseline_off_cmd": "cd /repo && /venv/bin/python -m pytest -ra -q -p no:cacheprovider --timeout=900 --continue-on-collection-errors",
            "source_commits": [],
            "add_only": True,
        },
        "engines": [{"name": os.path.basename(e), "path": "lean/" + e if e != "lean" else "lean", "serves_properties": ps,
                     "kind_free_text": "Lean 4 executable model driven over a JSON-lines protocol (lake env lean --run) + property theorems in lean/TextxVerif/Props"}
                    for e, ps in sorted(engines.items())],
        "checks": checks,
        "not_applicable": na,
        "notes": "Every check: ./check <id> quick|thorough, honours VERIF_SEED; exit 0 held, 1 VIOLATION, 2 infrastructure. Known findings: known_findings.json.",
    }
    # aggregate known findings (generated; the per-property files are the source)
    agg = {"_generated_from": "known_findings/*.json by harness/mkmanifest.py", "findings": [], "fixed": []}
    kdir = os.path.join(VERIF, "known_findings")
    for fn in sorted(os.listdir(kdir)) if os.path.isdir(kdir) else []:
        if fn.endswith(".json"):
            d = json.load(open(os.path.join(kdir, fn)))
            for x in d.get("findings", []):
                agg["findings"].append(dict(x, property=fn[:-5]))
            agg["fixed"] += d.get("fixed", [])
    with open(os.path.join(VERIF, "known_findings.json"), "w") as f:
        json.dump(agg, f, indent=1)
        f.write("\n")
    with open(os.path.join(VERIF, "MANIFEST.json"), "w") as f:
        json.dump(man, f, indent=1)
        f.write("\n")
    print(f"claimed {len(checks)}, not claimed {len(na)}")


if __name__ == "__main__":
    main()
