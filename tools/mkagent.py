#!/usr/bin/env python3
"""tools/mkagent.py C05 C06 -- create the isolated worktrees for a builder agent and write its task file.
Worktrees: /tmp/ag-<first id> (branch ag/<first id> of /verif), /tmp/rp-<first id> (branch fix/<first id> of /repo).
Task file: /tmp/task-<first id>.md"""
import json
import os
import subprocess
import sys

ids = sys.argv[1:]
first = ids[0]
ag, rp = f"/tmp/ag-{first}", f"/tmp/rp-{first}"
if not os.path.exists(ag):
    subprocess.check_call(["git", "-C", "/verif", "worktree", "add", "-q", ag, "-b", f"ag/{first}"])
if not os.path.exists(rp):
    subprocess.check_call(["git", "-C", "/repo", "worktree", "add", "-q", rp, "-b", f"fix/{first}"])
props = {json.loads(l)["id"]: json.loads(l) for l in open("/verif/properties.jsonl")}
HINTS = open("/root/.claude/projects/-verif/memory/textx-confirmed-defects.md").read().split("---", 2)[2]
extra = sys.stdin.read() if not sys.stdin.isatty() else ""
with open(f"/tmp/task-{first}.md", "w") as f:
    f.write(f"""# Task: build the verification check(s) for {', '.join(ids)}

You are one of several builders of a Lean-4 machine-checked-proof verification framework for the Python
project textX.  The framework lives in /verif (git), textX in /repo (git, pinned commit + fix commits).
You work ONLY in your own worktrees:

- framework worktree: `{ag}`  (branch `ag/{first}`)  — all your Lean / Python / notes files go here
- textX worktree:     `{rp}`  (branch `fix/{first}`) — only for `fix:` commits and for your own temporary test mutations

Start by reading `{ag}/harness/GUIDE.md` completely and follow it (it explains the framework contract,
file layout, the two worked examples C08/C09, isolation rules, how defects are handled, and the self-test).
Then read the §6 entries for {', '.join(ids)} in `{ag}/DESIGN.md` (and §4 for the shared model it mentions;
Appendix C has repair sketches; Appendix D has prototype Lean sources you may reuse), and the textX source
files the property is anchored in (under `{rp}/textx/`; docs in `{rp}/docs/src/`).

Environment: no network. Python for the harness: `/venv/bin/python` (textX's deps arpeggio 2.0.3 and click are
installed there; `./check` puts the tree named by VERIF_REPO first on sys.path). Lean 4.33.0: `lean`, `lake` on PATH;
Mathlib is available module-wise (`import Mathlib.Tactic.Ring` etc.) but keep model files core-only and NEVER
`import Mathlib` wholesale. First `lake build` in your worktree: `cd {ag}/lean && lake build` (≈10–20 s).
Run your check with: `cd {ag} && VERIF_REPO={rp} ./check {first} quick`.
16 cores are shared with other builders: do not start more than 4 parallel processes.

## The propert{'ies' if len(ids) > 1 else 'y'} (given and fixed — do not reinterpret beyond DESIGN.md's "Reading")

""")
    for i in ids:
        f.write("```json\n" + json.dumps(props[i], indent=1) + "\n```\n\n")
    f.write(f"""## Defects already confirmed on the pinned tree by probing (minimal witnesses; yours may be among them)

{HINTS}

{extra}

## Deliverables (per property id)

Lean model + lemmas + `Props/Cxx.lean` theorems (real proofs, all inputs, no bounds), a driver, `harness/props/cxx.py`,
`notes/Cxx.md`, `known_findings/Cxx.json`, `corpus/Cxx/*.json` witnesses, `fix:` commits on `fix/{first}`
(one per defect, baseline must stay green: `/verif/tools/baseline.py {rp}`), all committed on your two branches.
Quality bar: the theorems must say something real about the modelled algorithm (induction / invariants /
refinement — not `decide` on samples), the correspondence must exercise the real code on hundreds of
structured cases per quick run with a measured non-trivial fraction, the direct oracle must decide the
property from its statement, and the quick check must catch realistic property-breaking edits of the anchored
code while staying silent on the clean (fixed) tree for every seed.

When finished, reply with: branch names, files added, theorem names (one line each: what it states), defects
found with disposition (fix commit hash or known finding id), mutations you tried and whether the check caught
them, and anything left unfinished.  Be honest about gaps.
""")
print(f"/tmp/task-{first}.md")
