#!/usr/bin/env python3
"""tools/mkdeepen.py D01 C01 C02 -> worktrees /tmp/ag-D01, /tmp/rp-D01 and task /tmp/task-D01.md: deepen the proofs
(close the gap between the proved theorems and the property statement) following notes/survey/Cxx.md."""
import json, os, subprocess, sys
tag = sys.argv[1]; pids = sys.argv[2:]
ag, rp = f"/tmp/ag-{tag}", f"/tmp/rp-{tag}"
if not os.path.exists(ag):
    subprocess.check_call(["git", "-C", "/verif", "worktree", "add", "-q", ag, "-b", f"ag/{tag}"])
if not os.path.exists(rp):
    subprocess.check_call(["git", "-C", "/repo", "worktree", "add", "-q", rp, "-b", f"fix/{tag}"])
props = {json.loads(l)["id"]: json.loads(l) for l in open("/verif/properties.jsonl")}
extra = sys.stdin.read() if not sys.stdin.isatty() else ""
body = ""
for pid in pids:
    p = props[pid]
    body += f"\n## Property {pid}\n```json\n{json.dumps({k: p[k] for k in ('id','title','statement','quantifier')}, indent=1)}\n```\n"
    body += f"\nReviewer's survey of {pid} (what is proved, what is only tested, suspicious points, suggestion):\n\n" + open(f"/verif/notes/survey/{pid}.md").read() + "\n"
ids = " ".join(pids)
open(f"/tmp/task-{tag}.md", "w").write(f"""# Task: deepen the machine-checked proofs of {ids}

Context: /verif is a Lean-4 machine-checked-proof verification framework for the Python project textX (/repo): each property is
stated as theorems about a Lean model (lean/TextxVerif/..., property theorems in lean/TextxVerif/Props/Cxx.lean), and the model is
tied to the code by a correspondence check (harness/props/cxx.py runs model driver and real textX on generated cases).
Read `{ag}/harness/GUIDE.md` (framework contract, isolation rules, Lean hints) and `{ag}/notes/<id>.md` for each property first.
You work ONLY in your worktrees: framework `{ag}` (branch ag/{tag}), textX `{rp}` (branch fix/{tag}, = /repo main). NEVER use git stash,
never run broad `pkill`, use at most 3 parallel processes (the machine is shared with many other agents; builds are slow — be patient).
Run a check with `cd {ag} && VERIF_REPO={rp} ./check <id> quick` (env VERIF_SEED=n for other seeds). First `cd {ag}/lean && lake build`.
Lean 4.33 core + single Mathlib modules only (`import Mathlib` wholesale is forbidden); no sorry/admit/axiom/native_decide/
implemented_by/unsafe; `#print axioms` of every property theorem must stay within propext, Classical.choice, Quot.sound.

A reviewer compared the property statements with what the Lean theorems actually state. Your job is to close the most valuable
gaps (below), in this order of priority:
 1. **Model faithfulness**: where the survey says the Lean model mirrors code that /repo main no longer has (the model follows the
    *pinned* behaviour although a `fix:` commit changed it), or the generator avoids cases to hide such a difference: bring the model
    in line with /repo main (read the current source in `{rp}/textx/`), re-prove what depends on it, and remove the avoidance from the
    generator/compare so the correspondence really exercises it. Keep `_pinned_false` witnesses as statements about the pinned variant.
 2. **The suggested theorem(s)** (item 4 of each survey section), at full strength if possible; if only part is provable, keep the full
    statement visible as a `def` and name the proved part `…_partial`, saying what is missing. Add a non-vacuity `example` for every new
    hypothesis. Also address the items under "Vacuous / trivial / suspicious" where a real fix exists (e.g. an unused hypothesis, a missing
    non-vacuity example, a theorem that merely restates a definition → give the definition an independent spec and prove the equivalence).
 3. Further clauses listed under "Restricted / tests only" that can realistically be moved from test to theorem on the existing model.
Never weaken or delete an existing theorem (you may generalise it; keep the old name as a corollary). New property theorems go into
Props/Cxx.lean and into `THEOREMS` of harness/props/cxx.py (they are then audited on every run); helper lemmas into Proofs/.
If new model definitions are executable, wire them into the driver + correspondence where it makes sense (a theorem about a definition
that is never compared with the code is worth little).
{body}
{extra}
## Requirements
* `cd {ag}/lean && lake build` clean; `./check <id> quick` exits 0 on the unchanged `{rp}` for seeds 0..3 for each property you touched
  (and for every other property whose Lean files you touched — list them) — theorem audit must show all theorems.
* If the strengthened model/correspondence reveals a genuine defect of textX: follow the guide (small `fix:` commit on fix/{tag} +
  `/verif/tools/baseline.py {rp}` → missing 0, or open known finding with classifier). A model/implementation disagreement is by default
  a model bug.
* Update `notes/<id>.md` (model, theorem list in words, what is still only tested). Commit on your branch(es) as you go (small commits),
  so that partial progress is usable. Budget: about 3 hours; prefer finished, checked theorems over ambitious unfinished ones.
Reply with: which gaps you closed (theorem names with one-line statements), model changes, what remains open, results per seed.
""")
print(f"/tmp/task-{tag}.md")
