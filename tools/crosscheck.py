#!/usr/bin/env python3
"""tools/crosscheck.py C22 5 C16 C19 -- run the quick checks of OTHER properties against the stored seeded change
seeded/C22-5/patch.diff (scratch worktree of /repo, isolated /tmp/verif-seed copy of /verif); record those that report it
in seeded/C22-5/meta.json under verification.caught_by_other_check."""
import json, os, subprocess, sys
pid, k, others = sys.argv[1], sys.argv[2], sys.argv[3:]
VS = "/tmp/verif-seed"
wt = f"/tmp/sx-{pid}-{k}"
out = f"/verif/seeded/{pid}-{k}"
subprocess.run(["git", "-C", "/repo", "worktree", "remove", "--force", wt], capture_output=True)
subprocess.check_call(["git", "-C", "/repo", "worktree", "add", "-q", "--detach", wt, "main"])
try:
    subprocess.check_call(["git", "-C", wt, "apply", f"{out}/patch.diff"])
    hits = {}
    for o in others:
        p = subprocess.run(["./check", o, "quick"], cwd=VS, env=dict(os.environ, VERIF_REPO=wt, VERIF_SEED="0"),
                           capture_output=True, text=True, timeout=3600)
        lines = [l[:260] for l in (p.stdout + p.stderr).splitlines() if l.startswith(o) or "VIOLATION" in l]
        print(f"{pid}-{k} under {o}: exit {p.returncode}  {lines[-1] if lines else ''}")
        if p.returncode == 1:
            hits[o] = "; ".join(lines[-2:])
    if hits:
        m = json.load(open(f"{out}/meta.json"))
        m.setdefault("verification", {}).setdefault("caught_by_other_check", {}).update(hits)
        json.dump(m, open(f"{out}/meta.json", "w"), indent=1)
finally:
    subprocess.run(["git", "-C", "/repo", "worktree", "remove", "--force", wt], capture_output=True)
