#!/usr/bin/env python3
"""Run the repo's pinned test suite and compare with /root/.vp/BASELINE.json.
usage: tools/baseline.py [repo_dir]   -> exit 0 iff every stable_pass test passes."""
import json, os, subprocess, sys, tempfile, xml.etree.ElementTree as ET
repo = sys.argv[1] if len(sys.argv) > 1 else "/repo"
base = json.load(open("/root/.vp/BASELINE.json"))
with tempfile.TemporaryDirectory() as d:
    xmlf = os.path.join(d, "j.xml")
    env = dict(os.environ); env.pop("TEXTX_VERIF", None)
    subprocess.run(["/venv/bin/python", "-m", "pytest", "-q", "-p", "no:cacheprovider", "--timeout=900",
                    "--continue-on-collection-errors", f"--junitxml={xmlf}"], cwd=repo, env=env,
                   stdout=subprocess.DEVNULL, stderr=subprocess.DEVNULL)
    passed = set()
    for tc in ET.parse(xmlf).getroot().iter("testcase"):
        if not any(c.tag in ("failure", "error", "skipped") for c in tc):
            passed.add(f"{tc.get('classname')}::{tc.get('name')}")
missing = [t for t in base["stable_pass"] if t not in passed]
print(f"passed {len(passed)}; baseline stable {len(base['stable_pass'])}; missing {len(missing)}")
for t in missing[:20]:
    print("  MISSING", t)
sys.exit(1 if missing else 0)
