#!/usr/bin/env python3
"""tools/mkstrengthen.py C03 1 2 -> worktrees /tmp/ag-S03, /tmp/rp-S03 and task /tmp/task-S03.md for closing missed seeded changes."""
import json, os, subprocess, sys
pid = sys.argv[1]; ks = sys.argv[2:]
tag = "S" + pid[1:]
ag, rp = f"/tmp/ag-{tag}", f"/tmp/rp-{tag}"
if not os.path.exists(ag):
    subprocess.check_call(["git", "-C", "/verif", "worktree", "add", "-q", ag, "-b", f"ag/{tag}"])
if not os.path.exists(rp):
    subprocess.check_call(["git", "-C", "/repo", "worktree", "add", "-q", rp, "-b", f"fix/{tag}"])
p = {json.loads(l)["id"]: json.loads(l) for l in open("/verif/properties.jsonl")}[pid]
extra = sys.stdin.read() if not sys.stdin.isatty() else ""
misses = ""
for k in ks:
    m = json.load(open(f"/verif/seeded/{pid}-{k}/meta.json"))
    misses += f"\n### Missed change {pid}-{k}  (files: {ag}/seeded/{pid}-{k}/patch.diff, demo.py, meta.json)\nsummary: {m.get('summary')}\nneeds to manifest: {m.get('needs_to_manifest')}\n"
open(f"/tmp/task-{tag}.md", "w").write(f"""# Task: strengthen the check of property {pid} — independently seeded property-breaking changes were MISSED

Context: /verif is a Lean-4 machine-checked-proof verification framework for the Python project textX (/repo).
Read `{ag}/harness/GUIDE.md` (framework contract, isolation rules) and `{ag}/notes/{pid}.md`, then the property's files:
`{ag}/harness/props/{pid.lower()}.py`, its Lean model / Props file / driver (named in the module), corpus/{pid}/.
You work ONLY in your worktrees: framework `{ag}` (branch ag/{tag}), textX `{rp}` (branch fix/{tag}, = /repo main; use it for
applying the seeded patches temporarily: `git -C {rp} apply <patch>` ... `git -C {rp} checkout -- .`; NEVER use git stash).
Run the check with `cd {ag} && VERIF_REPO={rp} ./check {pid} quick` (env VERIF_SEED=n for other seeds). First `cd {ag}/lean && lake build`.

The property:
```json
{json.dumps({k: p[k] for k in ('id','title','statement','quantifier')}, indent=1)}
```

Fresh agents that knew only the property text produced realistic changes to textX that break the property, still pass
the project's test-suite, and need something specific to manifest. The quick check of {pid} did NOT report these:
{misses}
{extra}
## What to do
1. Reproduce: apply each patch to `{rp}`, run its demo (fails) and the quick check (exits 0 = the miss).
2. Find out WHY the check is blind: which inputs / histories / configurations does the generator never produce, which observable
   does the oracle or the correspondence never compare, which part of the code is outside the Lean model?
3. Close the gap *in general*, not for the witness: extend the generator (structured, derived from the property's quantifier),
   the implementation observation, the direct oracle and — where new constructs are generated — the Lean model/driver (and the
   theorems, if their statements need to cover the new constructs; never weaken a theorem, never add sorry/axioms). Think about
   sibling gaps of the same kind (what else of that kind is never generated?) and close those too.
   Additionally add a minimised witness case to `corpus/{pid}/` (the corpus runs first) if the case format can express it.
4. Requirements: quick check exits 0 on the unchanged `{rp}` for seeds 0..5 and stays within ~60 s on an idle machine; reports a
   VIOLATION with a concrete replay for each missed patch for at least seeds 0..3 (quick tier); no alarm on harmless refactorings;
   every previously caught mutation listed in notes/{pid}.md must still be caught (spot-check three).
   If the seeded change reveals a genuine defect of the *unchanged* textX in the newly covered territory, handle it as the guide says
   (small `fix:` commit on fix/{tag} + baseline `/verif/tools/baseline.py {rp}` → missing 0, or an open known finding with classifier).
5. Update `notes/{pid}.md` (section "Seeded changes": what was missed, why, what was changed). Commit on your branch(es).
Reply with: what was the blind spot, what you changed (files), results per seed for clean tree and each patch, timings, anything left open.
""")
print(f"/tmp/task-{tag}.md")
