#!/bin/bash
# tools/integrate.sh C05 [C06 ...]  -- merge a builder's branches into /verif main and /repo main.
#   first id names the worktrees /tmp/ag-<id>, /tmp/rp-<id> and branches ag/<id>, fix/<id>.
# Steps: cherry-pick fix: commits -> baseline; merge ag branch; lake build; quick checks (3 seeds) on /repo.
set -u
first=$1
ids="$@"
case "$first" in S*|T*|U*|D*|V*|W*|X*) shift; ids="$@";; esac
ag=/tmp/ag-$first; rp=/tmp/rp-$first
fail() { echo "INTEGRATE-FAIL: $*"; exit 1; }

echo "== uncommitted in worktrees?"
git -C $ag status --short | head -5
git -C $rp status --short | head -5

echo "== fix commits on fix/$first"
# only commits whose patch is not yet on main (idempotent re-runs)
commits=$(git -C /repo cherry main fix/$first | grep "^+" | cut -d" " -f2); [ -n "${SKIP_PICK:-}" ] && commits=""
for c in $commits; do
  msg=$(git -C /repo log -1 --format=%s $c)
  echo "   $c $msg"
  case "$msg" in
    fix:*) ;;
    *) echo "   (skipping non-fix commit)"; continue;;
  esac
  if ! git -C /repo cherry-pick $c >/dev/null 2>&1; then
    git -C /repo status --short | head
    fail "cherry-pick conflict on $c ($msg) -- resolve by hand (git -C /repo cherry-pick --continue) and re-run"
  fi
done
if [ -n "$commits" ]; then
  echo "== baseline"
  /verif/tools/baseline.py /repo || fail "baseline broken after cherry-picks"
fi

echo "== merge ag/$first"
cd /verif
git add -A; git commit -qm "wip before integrating $ids" >/dev/null 2>&1
git merge --no-edit -X theirs ag/$first >/tmp/merge-$first.log 2>&1 || { cat /tmp/merge-$first.log | tail -5; fail "merge conflict"; }
echo "== lake build"
(cd lean && lake build 2>&1 | grep -v '^trace\|^⚠\|^✔\|warning\|Hint\|apply\|Note\|^$\|^  ' | tail -15)
(cd lean && lake build >/dev/null 2>&1) || fail "lake build failed"
for id in $ids; do
  for s in 0 1; do
    echo "== ./check $id quick seed $s"
    VERIF_SEED=$s timeout 900 ./check $id quick | cut -c1-220 | tail -4
    rc=${PIPESTATUS[0]}
    [ "$rc" = "0" ] || fail "check $id seed $s exit $rc"
  done
done
/venv/bin/python harness/mkmanifest.py
git add -A; git commit -qm "Integrate $ids (builder branch ag/$first)"
echo "INTEGRATE-OK $ids"
