#!/usr/bin/env python3
"""tools/fixmap.py [--write] -- make every `fixed:` line of known_findings/*.json name the commit on /repo main
(builders recorded the hash on their own branch; the cherry-pick on main has another hash, same subject).
Also lists fix: commits on main that no known_findings file mentions."""
import glob, json, re, subprocess, sys

def git(*a):
    return subprocess.run(["git", "-C", "/repo", *a], capture_output=True, text=True)

main = {}
for line in git("log", "--format=%h %s", "main").stdout.splitlines():
    h, s = line.split(" ", 1)
    if s.startswith("fix:"):
        main[h] = s
by_subject = {s: h for h, s in main.items()}
mentioned = set()
write = "--write" in sys.argv
for f in sorted(glob.glob("/verif/known_findings/*.json")):
    d = json.load(open(f))
    changed = False
    out = []
    for line in d.get("fixed", []):
        new = line
        for h in re.findall(r"\b[0-9a-f]{7,12}\b", line):
            if h[:7] in main:
                mentioned.add(h[:7]); continue
            r = git("log", "-1", "--format=%s", h)
            if r.returncode != 0:
                continue
            s = r.stdout.strip()
            if s in by_subject:
                new = new.replace(h, by_subject[s]); mentioned.add(by_subject[s])
            else:
                print(f"{f}: {h} ({s[:60]}) has no counterpart on main")
        if new != line:
            changed = True
        out.append(new)
    if changed and write:
        d["fixed"] = out
        json.dump(d, open(f, "w"), indent=1, ensure_ascii=False); open(f, "a").write("\n")
    if changed:
        print(f"{f}: remapped")
for h, s in main.items():
    if h not in mentioned:
        print("not mentioned:", h, s[:100])
