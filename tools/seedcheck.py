#!/usr/bin/env python3
"""tools/seedcheck.py C07 1 [--thorough] -- confirm a seeded change from /tmp/sdout-C07/ (patch1.diff, demo1.py, meta1.json)
in a scratch worktree and run the property's check against it; store under /verif/seeded/C07-1/."""
import json, os, shutil, subprocess, sys
pid, k = sys.argv[1], sys.argv[2]
src = f"/tmp/sdout-{pid}"
wt = f"/tmp/sv-{pid}-{k}"
out = f"/verif/seeded/{pid}-{k}"
# the check is run from a separate worktree of /verif so that Gen files / evidence of /verif itself are never
# overwritten by runs against a mutated tree
VS = "/tmp/verif-seed"
if not os.path.exists(VS):
    subprocess.check_call(["git", "-C", "/verif", "worktree", "add", "-q", "--detach", VS, "main"])
if "--sync" in sys.argv or not os.path.exists(f"{VS}/lean/.lake"):
    subprocess.run(["git", "-C", VS, "checkout", "-q", "-f", "--detach", "main"])
    subprocess.run(["git", "-C", VS, "checkout", "-q", "--", "."])


def sh(cmd, **kw):
    p = subprocess.run(cmd, shell=isinstance(cmd, str), capture_output=True, text=True, **kw)
    return p.returncode, (p.stdout + p.stderr)
subprocess.run(["git", "-C", "/repo", "worktree", "remove", "--force", wt], capture_output=True)
subprocess.check_call(["git", "-C", "/repo", "worktree", "add", "-q", "--detach", wt, "main"])
res = {"property": pid, "ran": []}
try:
    demo, patch = f"{src}/demo{k}.py", f"{src}/patch{k}.diff"
    rc0, o0 = sh(["/venv/bin/python", demo, wt], timeout=600)
    res["demo_without_patch_exit"] = rc0
    rca, oa = sh(["git", "-C", wt, "apply", patch])
    res["patch_applies"] = rca == 0
    if rca != 0:
        res["apply_error"] = oa[-500:]
    rc1, o1 = sh(["/venv/bin/python", demo, wt], timeout=600)
    res["demo_with_patch_exit"] = rc1
    res["demo_with_patch_output"] = o1[-600:]
    rcb, ob = sh(["/venv/bin/python", "/verif/tools/baseline.py", wt], timeout=1800)
    res["baseline_ok"] = rcb == 0
    res["baseline_output"] = ob.strip()[-200:]
    tier = "thorough" if "--thorough" in sys.argv else "quick"
    env = dict(os.environ, VERIF_REPO=wt, VERIF_SEED="0")
    rcc, oc = sh(["./check", pid, tier], cwd=VS, env=env, timeout=3600)
    res["check_tier"] = tier
    res["check_exit"] = rcc
    res["check_lines"] = [l[:300] for l in oc.splitlines() if "VIOLATION" in l or l.startswith(pid)][:8]
    res["confirmed"] = bool(rc0 == 0 and rca == 0 and rc1 != 0 and rcb == 0)
    res["caught"] = rcc == 1
    replay = None
    for l in oc.splitlines():
        if l.startswith("VIOLATION") and "replay=" in l:
            replay = l.split("replay=")[1].split()[0]
            break
    if replay and os.path.exists(f"{VS}/{replay}"):
        try:
            rp = json.load(open(f"{VS}/{replay}"))
            res["replay_what"] = str(rp.get("what", rp.get("broken")))[:400]
        except Exception:
            pass
    os.makedirs(out, exist_ok=True)
    shutil.copy(patch, f"{out}/patch.diff")
    shutil.copy(demo, f"{out}/demo.py")
    meta = {}
    if os.path.exists(f"{src}/meta{k}.json"):
        try:
            meta = json.load(open(f"{src}/meta{k}.json"))
        except Exception as e:
            meta = {"meta_unreadable": str(e)}
    meta["verification"] = res
    json.dump(meta, open(f"{out}/meta.json", "w"), indent=1)
    print(f"{pid}-{k}: confirmed={res['confirmed']} caught={res['caught']} (check exit {rcc}) demo {rc0}->{rc1} baseline_ok={res['baseline_ok']}")
    for l in res["check_lines"][-2:]:
        print("   ", l[:200])
finally:
    subprocess.run(["git", "-C", "/repo", "worktree", "remove", "--force", wt], capture_output=True)
