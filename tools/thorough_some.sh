#!/bin/bash
# tools/thorough_some.sh C01 C02 ... -- thorough tier of the given checks, sequentially; log to stdout
cd "$(dirname "$0")/.." || exit 2
for id in "$@"; do
  start=$(date +%s)
  out=$(timeout 5400 ./check $id thorough 2>&1 | grep -v KNOWN-FINDING | tail -3)
  rc=$?
  echo "== $id $(( $(date +%s) - start ))s"
  echo "$out" | cut -c1-220
done
