#!/usr/bin/env python3
"""tools/mkseed.py C07 -> scratch worktree /tmp/sd-C07 (detached at /repo main) + task file /tmp/seedtask-C07.md
The seeding agent gets ONLY the property text and the worktree (nothing from /verif)."""
import json, os, subprocess, sys
pid = sys.argv[1]
wt = f"/tmp/sd-{pid}"
if not os.path.exists(wt):
    subprocess.check_call(["git", "-C", "/repo", "worktree", "add", "-q", "--detach", wt, "main"])
os.makedirs(f"/tmp/sdout-{pid}", exist_ok=True)
p = {json.loads(l)["id"]: json.loads(l) for l in open("/verif/properties.jsonl")}[pid]
open(f"/tmp/seedtask-{pid}.md", "w").write(f"""# Task: seed realistic property-breaking changes into textX

You are testing how good a (hidden) verification suite is. Work ONLY in the scratch git worktree `{wt}`
(a checkout of the Python project textX; sources under `{wt}/textx/`, docs under `{wt}/docs/src/`, tests under
`{wt}/tests/`). Do not look at or touch `/verif` or `/repo`. Python: `/venv/bin/python` (to import the worktree's
textX put `{wt}` first on sys.path: `sys.path.insert(0, "{wt}")`). No network.

## The property (semantic; it should hold for every input / schedule / history it quantifies over)

```json
{json.dumps(p, indent=1)}
```

## What to produce

TWO independent changes to textX (`{wt}/textx/...` only; not tests, not docs), each of which
 * breaks the property above for SOME inputs,
 * still compiles/imports and still passes the project's existing test-suite
   (check with `/venv/bin/python /tmp/baseline.py {wt}` — it must print `missing 0`),
 * is *realistic* — the kind of slip a maintainer could make in a refactoring or "optimisation"
   (off-by-one, dropped condition, wrong order, stale cache, lost update, swapped arguments, wrong default,
   early return, mishandled falsy value, state leaked between calls ...),
 * needs something SPECIFIC to manifest — a particular multi-step sequence of operations, an unusual but valid input,
   a particular schedule/fault point, or two cooperating edit sites that each look fine alone — NOT something any
   ordinary use would expose at once (if a trivial hello-world use of the feature fails, it is too blunt),
 * and are different in kind from each other (touch different mechanisms of the property).

For each change k in (1, 2) write into `/tmp/sdout-{pid}/`:
 * `patch{{k}}.diff` — `git diff` of the worktree for that change alone (apply one at a time; `git checkout -- .` between them),
 * `demo{{k}}.py` — a small standalone program taking the textX tree as argv[1] (it must do
   `sys.path.insert(0, sys.argv[1])` before importing textx), which exits 0 when the property holds on its
   specific input and exits 1 (printing what went wrong) when it is violated. It must exit 0 on the unchanged
   worktree and 1 with patch k applied,
 * `meta{{k}}.json` — {{"property": "{pid}", "summary": "...", "needs_to_manifest": "...", "files": [...], "ran": ["commands you ran and their outcome"]}}.

Verify all of it yourself (demo passes without / fails with the patch; baseline prints missing 0 with the patch).
NEVER use `git stash` (the stash is shared by all worktrees of the repository and other seeders work in parallel): save changes with `git diff > file`, reset with `git checkout -- .`, re-apply with `git apply file`.
Leave the worktree clean at the end (`git -C {wt} checkout -- .`, no untracked files).
Reply with a 5-line summary per change.
""")
print(f"/tmp/seedtask-{pid}.md")
