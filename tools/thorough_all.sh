#!/bin/bash
# run every claimed check's thorough tier sequentially (background health run)
cd "$(dirname "$0")/.." || exit 2
(cd lean && lake build >/dev/null 2>&1)
for id in $(python3 -c "import json;print(' '.join(c['property_id'] for c in json.load(open('MANIFEST.json'))['checks']))"); do
  start=$(date +%s)
  out=$(timeout 3000 ./check $id thorough 2>&1 | grep -v KNOWN-FINDING | tail -3)
  rc=$?
  echo "== $id rc=$rc $(( $(date +%s) - start ))s"
  echo "$out" | cut -c1-220
done
