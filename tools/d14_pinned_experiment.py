"""Experiment (not part of any check): the load-tree machine with the *pinned* bookkeeping
(lean/TextxVerif/LoadTreePinned.lean, driver op `run_pinned`) against a textX tree at the pinned state.

  cd /tmp/rp-XX && git checkout e53bf6b^        # before the first C14/C15 repair
  cd <framework> && VERIF_REPO=/tmp/rp-XX PYTHONHASHSEED=0 TEXTX_VERIF=1 /venv/bin/python tools/d14_pinned_experiment.py 300
"""
import sys, json
sys.path.insert(0,'.')
from harness.core import Rng, run_driver
from harness import loadtree as lt
from harness.props import c14, c15
p=c15.Prop()
N=int(sys.argv[1])
cases=list(p.gen(Rng(5), N, "quick"))
# no stores of user code (the pinned filter / navigation differs there): strip annotations
def strip(c):
    for n0 in c["loads"]:
        for n in lt.walk_nodes(n0):
            for kind,h in lt.all_hooks(n):
                h.pop("ann", None)
    return c
cases=[strip(c) for c in cases]
obs=[lt.run_case(c, probe=False) for c in cases]
reqs=[lt.lean_request(c, op="run_pinned") for c in cases]
outs=run_driver("Drivers/LoadTree.lean", reqs)
bad=0; unclean=0
for c,o,out in zip(cases,obs,outs):
    out=dict(out); out["restored"]=o["dict_same"]
    d=c14.compare_run(c,o,out)
    if c14.class_state_failure(c,o): unclean+=1
    if d:
        bad+=1
        if bad<=6: print(c.get("fault"), d[:300])
print("cases",len(cases),"disagreements with the pinned machine",bad,"cases where the pinned tree leaves classes unclean",unclean)
