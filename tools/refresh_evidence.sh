#!/bin/bash
# Re-run every claimed quick check against /repo itself so that the committed evidence comes from the clean tree.
cd "$(dirname "$0")/.." || exit 2
unset VERIF_REPO
fail=0
for id in $(python3 -c "import json;print(' '.join(c['property_id'] for c in json.load(open('MANIFEST.json'))['checks']))"); do
  out=$(VERIF_SEED=${VERIF_SEED:-0} timeout 1500 ./check $id quick 2>&1 | grep -v KNOWN-FINDING | tail -1)
  rc=${PIPESTATUS[0]}
  echo "$out" | cut -c1-170
  case "$out" in *"exit 0"*) ;; *) fail=1; echo "   ^^^ NOT CLEAN";; esac
done
exit $fail
